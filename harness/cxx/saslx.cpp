// C06 harness: drives the real QXmppSaslClient objects (SCRAM-*, DIGEST-MD5, PLAIN, HT-*-NONE) with the client nonce forced
// through QXmppSaslDigestMd5::setNonce, the real QXmppSaslDigestMd5::parseMessage/serializeMessage, and the real
// SaslManager / Sasl2Manager with a capturing SendDataInterface.
//
//  * correspondence (C lines): every respond()/handleElement()/parse/serialize result is printed for the Lean model
//    (qxdriver_c06, which computes the same bytes with the Lean-native SHA/HMAC/PBKDF2/MD5);
//  * oracle (O lines), independent of the model: a reference RFC 5802 server, RFC 2831 formulas, RFC 4616 and XEP-0484
//    messages written here with Qt's QCryptographicHash / QMessageAuthenticationCode / QPasswordDigestor must accept what
//    the client sent (and reject it under a different password); foreign nonces, bad parameters, wrong server
//    signatures / rspauth must be refused; a SCRAM login may be reported successful only if the server proved itself.
//
// Line protocol: see lean/Driver/C06.lean.
#include "common.h"

#include "QXmppConfiguration.h"
#include "QXmppSasl2UserAgent.h"
#include "QXmppSaslManager_p.h"
#include "QXmppSasl_p.h"
#include "XmppSocket.h"

#include <QCoreApplication>
#include <QCryptographicHash>
#include <QDomDocument>
#include <QMessageAuthenticationCode>
#include <QPasswordDigestor>
#include <functional>
#include <optional>

using namespace vh;
using namespace QXmpp::Private;
using S = std::string;
using BA = QByteArray;

static S hx(const BA &b) { return b.isEmpty() ? S("-") : b.toHex().toStdString(); }
static S printable(const BA &b)
{
    S s;
    for (unsigned char c : b) {
        if (c >= 0x20 && c < 0x7f && c != '\\') s += char(c);
        else { char buf[8]; snprintf(buf, sizeof buf, "\\x%02x", c); s += buf; }
    }
    return s;
}

static bool g_thorough = false;
static QXmppLoggable *g_log;

// ------------------------------------------------------------------------------------------------ generators
static void appendCp(QString &s, uint cp) { s += QString::fromUcs4(&cp, 1); }

// printable Unicode, mostly ASCII, some Latin-1 / Greek / Cyrillic / CJK / astral; never ',' '=' NUL unless asked
static BA randText(Rng &r, int minLen, int maxLen, const char *exclude = ",=")
{
    QString s;
    int n = minLen + int(r.below(uint32_t(maxLen - minLen + 1)));
    for (int i = 0; i < n;) {
        uint cp;
        switch (r.below(10)) {
        case 0: cp = 0xA1 + r.below(0xFF - 0xA1 + 1); break;
        case 1: cp = 0x391 + r.below(0x3C9 - 0x391); if (cp == 0x3A2) cp = 0x3A3; break;
        case 2: cp = 0x410 + r.below(0x44F - 0x410 + 1); break;
        case 3: cp = 0x4E00 + r.below(0x5000 - 0x4E00); break;
        case 4: cp = r.coin() ? 0x1F600 + r.below(0x40) : 0x20 + r.below(0x5f); break;
        default: cp = 0x21 + r.below(0x7E - 0x21 + 1); break;
        }
        if (cp < 0x80 && strchr(exclude, int(cp))) continue;
        appendCp(s, cp);
        i++;
    }
    return s.toUtf8();
}

// RFC 5802 nonce: printable ASCII except ','
static BA randNonce(Rng &r, int minLen, int maxLen)
{
    BA b;
    int n = minLen + int(r.below(uint32_t(maxLen - minLen + 1)));
    for (int i = 0; i < n; i++) { char c; do c = char(0x21 + r.below(0x5e)); while (c == ','); b += c; }
    return b;
}
static BA randBytes(Rng &r, int minLen, int maxLen)
{
    BA b;
    int n = minLen + int(r.below(uint32_t(maxLen - minLen + 1)));
    for (int i = 0; i < n; i++) b += char(r.below(256));
    return b;
}

// ------------------------------------------------------------------------------------------------ hash families
struct Alg { const char *scram; const char *ht; QCryptographicHash::Algorithm qt; IanaHashAlgorithm iana; };
static const Alg ALGS[] = {
    { "SCRAM-SHA-1", nullptr, QCryptographicHash::Sha1, IanaHashAlgorithm::Sha256 },
    { "SCRAM-SHA-256", "HT-SHA-256-NONE", QCryptographicHash::Sha256, IanaHashAlgorithm::Sha256 },
    { "SCRAM-SHA-512", "HT-SHA-512-NONE", QCryptographicHash::Sha512, IanaHashAlgorithm::Sha512 },
    { "SCRAM-SHA3-512", "HT-SHA3-512-NONE", QCryptographicHash::Sha3_512, IanaHashAlgorithm::Sha3_512 },
    { nullptr, "HT-SHA3-256-NONE", QCryptographicHash::Sha3_256, IanaHashAlgorithm::Sha3_256 },
};
static const Alg *algOfScram(const S &n) { for (auto &a : ALGS) if (a.scram && n == a.scram) return &a; return nullptr; }
static const Alg *algOfHt(const S &n) { for (auto &a : ALGS) if (a.ht && n == a.ht) return &a; return nullptr; }

static BA H(const Alg &a, const BA &m) { return QCryptographicHash::hash(m, a.qt); }
static BA HMAC(const Alg &a, const BA &key, const BA &msg) { return QMessageAuthenticationCode::hash(msg, key, a.qt); }
static BA md5(const BA &m) { return QCryptographicHash::hash(m, QCryptographicHash::Md5); }

// ------------------------------------------------------------------------------------------------ reference RFC 5802 server
struct ScramRecord { BA salt; int iters = 0; BA storedKey, serverKey; };
static ScramRecord scramRecordOf(const Alg &a, const BA &pass, const BA &salt, int iters)
{
    // SaltedPassword := Hi(Normalize(password), salt, i); ClientKey := HMAC(SaltedPassword, "Client Key");
    // StoredKey := H(ClientKey); ServerKey := HMAC(SaltedPassword, "Server Key")
    BA salted = QPasswordDigestor::deriveKeyPbkdf2(a.qt, pass, salt, iters, quint64(QCryptographicHash::hashLength(a.qt)));
    return { salt, iters, H(a, HMAC(a, salted, "Client Key")), HMAC(a, salted, "Server Key") };
}
static BA refServerFirst(const BA &nonce, const BA &salt, int iters)
{
    return "r=" + nonce + ",s=" + salt.toBase64() + ",i=" + BA::number(iters);
}
static std::optional<BA> strictB64(const BA &t)
{
    auto r = BA::fromBase64Encoding(t, BA::Base64Encoding | BA::AbortOnBase64DecodingErrors);
    if (!r) return {};
    if ((*r).toBase64() != t) return {};
    return *r;
}
static bool decodeSaslName(const BA &in, BA &out)
{
    out.clear();
    for (int i = 0; i < in.size(); i++) {
        if (in[i] == '=') {
            if (in.mid(i, 3) == "=2C") { out += ','; i += 2; }
            else if (in.mid(i, 3) == "=3D") { out += '='; i += 2; }
            else return false;
        } else out += in[i];
    }
    return true;
}
// returns "" when the client is authenticated (then *serverFinal is the server-final message), else the reason
static S refScramVerify(const Alg &a, const ScramRecord &rec, const BA &expectUser, const BA &clientFirst, const BA &serverFirst,
                        const BA &fullNonce, const BA &clientFinal, BA *serverFinal)
{
    if (!clientFirst.startsWith("n,,")) return "gs2-header";
    const BA bare = clientFirst.mid(3);
    const auto attrs = bare.split(',');
    if (attrs.size() != 2 || !attrs[0].startsWith("n=") || !attrs[1].startsWith("r=")) return "client-first-grammar";
    BA user;
    if (!decodeSaslName(attrs[0].mid(2), user)) return "saslname";
    if (user != expectUser) return "username";
    if (!fullNonce.startsWith(attrs[1].mid(2)) || attrs[1].size() <= 2) return "nonce";
    const auto f = clientFinal.split(',');
    if (f.size() != 3 || f[0] != "c=biws" || f[1] != "r=" + fullNonce || !f[2].startsWith("p=")) return "client-final-grammar";
    auto proof = strictB64(f[2].mid(2));
    if (!proof) return "proof-base64";
    const BA withoutProof = clientFinal.left(clientFinal.lastIndexOf(",p="));
    const BA authMessage = bare + "," + serverFirst + "," + withoutProof;
    const BA clientSignature = HMAC(a, rec.storedKey, authMessage);
    if (proof->size() != clientSignature.size()) return "proof-length";
    BA clientKey(proof->size(), 0);
    for (int i = 0; i < proof->size(); i++) clientKey[i] = char((*proof)[i] ^ clientSignature[i]);
    if (H(a, clientKey) != rec.storedKey) return "proof";
    if (serverFinal) *serverFinal = "v=" + HMAC(a, rec.serverKey, authMessage).toBase64();
    return "";
}

// ------------------------------------------------------------------------------------------------ reference RFC 2831
static BA rfcQuote(const BA &v)
{
    BA o = "\"";
    for (char c : v) { if (c == '"' || c == '\\') o += '\\'; o += c; }
    return o + "\"";
}
// strict directive-list parser (RFC 2831 7.1 / RFC 2616 quoted-string with quoted-pair); false on syntax error
static bool rfcParse(const BA &in, std::map<BA, BA> &out, std::map<BA, bool> *quoted = nullptr)
{
    int i = 0;
    while (i < in.size()) {
        int eq = in.indexOf('=', i);
        if (eq < 0) return false;
        BA key = in.mid(i, eq - i);
        i = eq + 1;
        BA val;
        if (i < in.size() && in[i] == '"') {
            i++;
            bool closed = false;
            while (i < in.size()) {
                if (in[i] == '\\' && i + 1 < in.size()) { val += in[i + 1]; i += 2; }
                else if (in[i] == '"') { closed = true; i++; break; }
                else val += in[i++];
            }
            if (!closed) return false;
        } else {
            while (i < in.size() && in[i] != ',') val += in[i++];
        }
        out[key] = val;
        if (quoted) (*quoted)[key] = eq + 1 < in.size() && in[eq + 1] == '"';
        if (i < in.size()) { if (in[i] != ',') return false; i++; }
    }
    return true;
}
// RFC 2831 2.1.2.1 and the sample code of section 8: with charset=utf-8, a user name / realm / password all of whose
// characters are in ISO 8859-1 is converted to ISO 8859-1 before being hashed (each string on its own)
static BA rfc2831Enc(const BA &utf8)
{
    const QString t = QString::fromUtf8(utf8);
    for (QChar c : t) if (c.unicode() > 0xFF) return utf8;
    return t.toLatin1();
}
static BA rfcDigest(const BA &method, const BA &user, const BA &realm, const BA &pass, const BA &nonce, const BA &cnonce,
                    const BA &nc, const BA &digestUri, bool iso88591 = true)
{
    const BA inner = iso88591 ? rfc2831Enc(user) + ":" + rfc2831Enc(realm) + ":" + rfc2831Enc(pass) : user + ":" + realm + ":" + pass;
    const BA a1 = md5(inner) + ":" + nonce + ":" + cnonce;
    const BA a2 = method + ":" + digestUri;
    return md5(md5(a1).toHex() + ":" + nonce + ":" + nc + ":" + cnonce + ":auth:" + md5(a2).toHex()).toHex();
}

// ------------------------------------------------------------------------------------------------ a bare mechanism client
struct ClientCfg {
    S mech;
    BA user, pass, cnonce, host, service;
    S tokenMech;   // "" = no token
    BA tokenSecret;
    S tokenSpec() const { return tokenMech.empty() ? S("-") : tokenMech + "/" + hx(tokenSecret); }
    S describe() const
    {
        return mech + " user=" + printable(user) + " pass=" + printable(pass) + " cnonce=" + printable(cnonce) + " host=" + printable(host) +
            " token=" + (tokenMech.empty() ? S("-") : tokenMech + "/" + printable(tokenSecret));
    }
};

static std::optional<SaslHtMechanism> htMech(const S &name) { return SaslHtMechanism::fromString(QString::fromStdString(name)); }

struct Client {
    ClientCfg cfg;
    std::unique_ptr<QXmppSaslClient> c;
    S history;
    explicit Client(const ClientCfg &k) : cfg(k)
    {
        QXmppSaslDigestMd5::setNonce(k.cnonce);
        c = QXmppSaslClient::create(QString::fromStdString(k.mech));
        if (!c) { fprintf(stderr, "cannot create %s\n", k.mech.c_str()); exit(3); }
        c->setUsername(QString::fromUtf8(k.user));
        c->setHost(QString::fromUtf8(k.host));
        c->setServiceType(QString::fromUtf8(k.service));
        Credentials cr;
        cr.password = QString::fromUtf8(k.pass);
        if (!k.tokenMech.empty()) cr.htToken = HtToken { *htMech(k.tokenMech), QString::fromUtf8(k.tokenSecret), QDateTime() };
        c->setCredentials(cr);
        corr("reset c " + k.mech + " " + hx(k.user) + " " + hx(k.pass) + " " + hx(k.cnonce) + " " + hx(k.host) + " " + hx(k.service) + " " + k.tokenSpec(), "ok");
        history = "client " + k.describe();
        stat("client_sequences");
    }
    std::optional<BA> respond(const BA &ch)
    {
        printf("I %s | respond %s\n", history.c_str(), printable(ch).c_str());
        auto r = c->respond(ch);
        corr("r " + hx(ch), (r ? "some " + hx(*r) : S("none")) + (c->serverVerified() ? " v=1" : " v=0"));
        history += " | r(" + printable(ch) + ")" + (r ? "=some" : "=none");
        stat("respond_calls");
        return r;
    }
};

static void expectRefused(Client &cl, const BA &ch, const S &key)
{
    auto r = cl.respond(ch);
    if (r) oracleFail(key, cl.history); else oraclePass()++;
}

// ------------------------------------------------------------------------------------------------ SCRAM scenarios
struct ScramCase { ClientCfg cfg; BA snonce, salt; int iters; };

static const char *BAD_ITERS[] = { "", "0", "-5", "abc", "4096x", "1e3", "99999999999", "2147483648", "-0", "+-5", "0x10", "12 3", " ", "+" };
static const char *ODD_ITERS[] = { " 2", "2 ", "+3", "007", "\t2\n", "2147483647000000000000" };

static BA scramFirst(Client &cl)
{
    auto r = cl.respond(BA());
    return r.value_or(BA());
}

// the honest exchange; returns false when the client-side part failed
static void scramHonest(const ScramCase &k, bool checkOtherPassword, const BA &extensions = BA())
{
    const Alg &a = *algOfScram(k.cfg.mech);
    Client cl(k.cfg);
    const BA clientFirst = scramFirst(cl);
    const BA nonce = k.cfg.cnonce + k.snonce;
    // RFC 5802 7: server-first-message = [reserved-mext ","] nonce "," salt "," iteration-count ["," extensions];
    // the AuthMessage contains the server-first message exactly as sent
    const BA serverFirst = refServerFirst(nonce, k.salt, k.iters) + extensions;
    auto fin = cl.respond(serverFirst);
    const bool special = k.cfg.user.contains(',') || k.cfg.user.contains('=');
    if (!fin) { oracleFail("C06:scram-honest-server-first-refused", cl.history); return; }
    ScramRecord rec = scramRecordOf(a, k.cfg.pass, k.salt, k.iters);
    BA serverFinal;
    S why = refScramVerify(a, rec, k.cfg.user, clientFirst, serverFirst, nonce, *fin, &serverFinal);
    if (!why.empty()) {
        if (special && (why == "client-first-grammar" || why == "saslname" || why == "username"))
            oracleFail("C06:scram-username-not-escaped", cl.history + " | reference server: " + why + " | client-first=" + printable(clientFirst));
        else
            oracleFail("C06:scram-proof-rejected-by-reference-server", cl.history + " | reference server: " + why);
        // continue with a server-final computed from the client's own reading of the messages so that the rest is exercised
        const BA bare = clientFirst.mid(3);
        const BA authMessage = bare + "," + serverFirst + "," + fin->left(fin->lastIndexOf(",p="));
        serverFinal = "v=" + HMAC(a, rec.serverKey, authMessage).toBase64();
    } else oraclePass()++;
    if (checkOtherPassword) {
        ScramRecord other = scramRecordOf(a, k.cfg.pass + "x", k.salt, k.iters);
        S w2 = refScramVerify(a, other, k.cfg.user, clientFirst, serverFirst, nonce, *fin, nullptr);
        if (w2.empty()) oracleFail("C06:scram-proof-accepted-under-other-password", cl.history); else oraclePass()++;
    }
    auto done = cl.respond(serverFinal);
    if (!done || !done->isEmpty()) oracleFail("C06:scram-honest-server-final-refused", cl.history); else oraclePass()++;
    expectRefused(cl, BA(), "C06:scram-extra-challenge-answered");
    expectRefused(cl, serverFinal, "C06:scram-extra-challenge-answered");
}

static void scramForeignNonce(const ScramCase &k, Rng &rng)
{
    const BA cn = k.cfg.cnonce;
    std::vector<BA> foreign;
    foreign.push_back(k.snonce);                                   // server nonce only
    foreign.push_back(cn.left(cn.size() - 1));                     // proper prefix of the client nonce
    foreign.push_back(cn.left(cn.size() - 1) + k.snonce);
    { BA x = cn; int p = int(rng.below(uint32_t(x.size()))); char c = char(x.at(p) ^ 1); if (c == ',') c = char(x.at(p) ^ 2); x[p] = c; foreign.push_back(x + k.snonce); }
    foreign.push_back(k.snonce + cn);                              // client nonce as a suffix
    foreign.push_back(BA());
    Client cl(k.cfg);
    scramFirst(cl);
    for (auto &n : foreign) {
        if (n.startsWith(cn)) continue;
        expectRefused(cl, refServerFirst(n, k.salt, k.iters), "C06:scram-foreign-nonce-accepted");
    }
    expectRefused(cl, "s=" + k.salt.toBase64() + ",i=" + BA::number(k.iters), "C06:scram-foreign-nonce-accepted");   // no r= at all
    if (!k.snonce.startsWith(cn)) {   // extra attributes before a foreign r=, channel-binding-looking attributes
        expectRefused(cl, "x=1,y=2," + refServerFirst(k.snonce, k.salt, k.iters), "C06:scram-foreign-nonce-accepted");
        expectRefused(cl, "p=tls-unique,c=biws," + refServerFirst(k.snonce, k.salt, k.iters) + ",r", "C06:scram-foreign-nonce-accepted");
    }
    if (!k.snonce.startsWith(cn))   // the last r= counts
        expectRefused(cl, "r=" + k.snonce + ",r=" + cn + k.snonce + ",r=" + k.snonce + ",s=" + k.salt.toBase64() + ",i=1", "C06:scram-foreign-nonce-accepted");
    // the refusals must not have consumed the step: the honest message is still answered
    auto fin = cl.respond(refServerFirst(cn + k.snonce, k.salt, k.iters));
    if (!fin) oracleFail("C06:scram-honest-server-first-refused", cl.history); else oraclePass()++;
}

static void scramBadParams(const ScramCase &k)
{
    const BA nonce = k.cfg.cnonce + k.snonce;
    const BA s64 = k.salt.toBase64();
    Client cl(k.cfg);
    scramFirst(cl);
    expectRefused(cl, "r=" + nonce + ",i=" + BA::number(k.iters), "C06:scram-bad-params-accepted");                 // no salt
    expectRefused(cl, "r=" + nonce + ",s=,i=" + BA::number(k.iters), "C06:scram-bad-params-accepted");              // empty salt
    expectRefused(cl, "r=" + nonce + ",s====,i=" + BA::number(k.iters), "C06:scram-bad-params-accepted");           // padding only
    expectRefused(cl, "r=" + nonce + ",s=" + s64, "C06:scram-bad-params-accepted");                                 // no count
    for (auto bad : BAD_ITERS) expectRefused(cl, "r=" + nonce + ",s=" + s64 + ",i=" + bad, "C06:scram-bad-params-accepted");
    expectRefused(cl, "r=" + nonce + ",s=" + s64 + ",i=3,i=0", "C06:scram-bad-params-accepted");                    // the last i= counts
    expectRefused(cl, "r=" + nonce + ",s=" + s64 + ",i=" + BA("5\0junk", 6) + ",i=" + BA("\0" "5", 2), "C06:scram-bad-params-accepted");
    expectRefused(cl, BA(), "C06:scram-bad-params-accepted");
    expectRefused(cl, ",,,", "C06:scram-bad-params-accepted");
    expectRefused(cl, "R=" + nonce + ",S=" + s64 + ",I=2", "C06:scram-bad-params-accepted");                        // attribute names are case sensitive
    {   // the refusals must not have consumed the step: the honest message is still answered
        auto fin = cl.respond(refServerFirst(nonce, k.salt, k.iters));
        if (!fin) oracleFail("C06:scram-honest-server-first-refused", cl.history); else oraclePass()++;
    }
    // tolerated oddities (no judgement, correspondence only), one client each because an accepted message advances the step
    for (auto odd : ODD_ITERS) {
        Client c2(k.cfg);
        scramFirst(c2);
        c2.respond("r=" + nonce + ",s=" + s64 + ",i=" + odd);
    }
    {
        Client c3(k.cfg);
        scramFirst(c3);
        c3.respond("r=" + nonce + ",s=" + BA("5\0junk", 6) + "!" + s64 + ",i=2" + BA("\0" "9", 2));   // lenient base64, NUL-terminated count
    }
    {
        Client c4(k.cfg);   // unextended client nonce (no server part): accepted by the code, outside the refusal clause
        scramFirst(c4);
        c4.respond(refServerFirst(k.cfg.cnonce, k.salt, k.iters));
    }
    {
        Client c5(k.cfg);   // fields in another order, unknown attributes, an empty piece
        scramFirst(c5);
        c5.respond("i=" + BA::number(k.iters) + ",,x,y=z,p=tls-unique,s=" + s64 + ",r=" + nonce);
    }
    {
        Client c6(k.cfg);   // RFC 5802 5.1: the reserved attribute m= MUST cause authentication failure (finding fixed in ff6a7ed)
        scramFirst(c6);
        expectRefused(c6, "m=ext," + refServerFirst(nonce, k.salt, k.iters), "C06:scram-reserved-m-attribute-accepted");
    }
}

static void scramBadSignature(const ScramCase &k, Rng &rng)
{
    const Alg &a = *algOfScram(k.cfg.mech);
    const BA nonce = k.cfg.cnonce + k.snonce;
    const BA serverFirst = refServerFirst(nonce, k.salt, k.iters);
    ScramRecord rec = scramRecordOf(a, k.cfg.pass, k.salt, k.iters);
    ScramRecord other = scramRecordOf(a, k.cfg.pass + "x", k.salt, k.iters);
    for (int variant = 0; variant < 8; variant++) {
        Client cl(k.cfg);
        const BA clientFirst = scramFirst(cl);
        auto fin = cl.respond(serverFirst);
        if (!fin) { oracleFail("C06:scram-honest-server-first-refused", cl.history); return; }
        const BA authMessage = clientFirst.mid(3) + "," + serverFirst + "," + fin->left(fin->lastIndexOf(",p="));
        const BA sig = HMAC(a, rec.serverKey, authMessage);
        BA wrong;
        switch (variant) {
        case 0: { BA s = sig; int p = int(rng.below(uint32_t(s.size()))); s[p] = char(s.at(p) ^ char(1 << rng.below(8))); wrong = "v=" + s.toBase64(); break; }
        case 1: wrong = "v=" + HMAC(a, other.serverKey, authMessage).toBase64(); break;          // a server that does not know the password
        case 2: wrong = "v=" + sig.left(sig.size() - 1).toBase64(); break;
        case 3: wrong = "v="; break;
        case 4: wrong = BA(); break;
        case 5: wrong = "e=invalid-proof"; break;
        case 6: wrong = "v=" + (sig + char(0)).toBase64(); break;
        default: wrong = "m=ext,v=" + sig.toBase64(); break;      // right signature, but the reserved attribute is present
        }
        expectRefused(cl, wrong, variant == 7 ? "C06:scram-reserved-m-attribute-accepted" : "C06:scram-wrong-server-signature-accepted");
        // and a later correct signature does not resurrect the exchange
        expectRefused(cl, "v=" + sig.toBase64(), "C06:scram-extra-challenge-answered");
    }
}

// ------------------------------------------------------------------------------------------------ DIGEST-MD5 scenarios
struct DigestCase { ClientCfg cfg; BA realm, nonce; };

static BA digestChallenge(const DigestCase &k, const BA &qop = "auth")
{
    BA c;
    if (!k.realm.isEmpty()) c += "realm=" + rfcQuote(k.realm) + ",";
    c += "nonce=" + rfcQuote(k.nonce);
    if (!qop.isEmpty()) c += ",qop=" + rfcQuote(qop);
    return c + ",charset=utf-8,algorithm=md5-sess";
}
static bool endsWithBackslash(const BA &b) { return b.endsWith('\\'); }

// checks the client's digest-response against RFC 2831; returns the expected rspauth
static bool digestCheckResponse(Client &cl, const DigestCase &k, const BA &resp, const BA &pass, S &why, bool checkQuoting)
{
    std::map<BA, BA> d;
    std::map<BA, bool> quoted;
    if (!rfcParse(resp, d, &quoted)) { why = "response-syntax"; return false; }
    // RFC 2831 2.1.2: username, realm, nonce, cnonce, digest-uri are <"> value <"> — the quotes are not optional
    if (checkQuoting) {
        S unq;
        for (const char *key : { "username", "realm", "nonce", "cnonce", "digest-uri" })
            if (quoted.count(key) && !quoted[key]) unq += S(unq.empty() ? "" : ",") + key;
        if (!unq.empty()) oracleFail("C06:digest-md5-unquoted-directive", cl.history + " | unquoted: " + unq + " | response=" + printable(resp));
        else oraclePass()++;
    }
    const BA uri = k.cfg.service + "/" + k.cfg.host;
    auto get = [&](const char *key) { auto it = d.find(key); return it == d.end() ? BA() : it->second; };
    if (get("username") != k.cfg.user) { why = "username"; return false; }
    if (get("realm") != k.realm) { why = "realm"; return false; }
    if (get("nonce") != k.nonce) { why = "nonce"; return false; }
    if (get("cnonce") != k.cfg.cnonce) { why = "cnonce"; return false; }
    if (get("nc") != "00000001") { why = "nc"; return false; }
    if (get("qop") != "auth") { why = "qop"; return false; }
    if (get("digest-uri") != uri) { why = "digest-uri"; return false; }
    if (get("charset") != "utf-8") { why = "charset"; return false; }
    if (get("response") != rfcDigest("AUTHENTICATE", k.cfg.user, k.realm, pass, k.nonce, k.cfg.cnonce, "00000001", uri)) {
        // hashed over the UTF-8 bytes although the strings are ISO 8859-1 representable?
        const bool utf8Variant = get("response") == rfcDigest("AUTHENTICATE", k.cfg.user, k.realm, pass, k.nonce, k.cfg.cnonce, "00000001", uri, false);
        why = utf8Variant ? "response-value-utf8-not-iso8859-1" : "response-value";
        return false;
    }
    return true;
}

static void digestHonest(const DigestCase &k, const BA &qop)
{
    Client cl(k.cfg);
    auto r0 = cl.respond(BA());
    if (!r0 || !r0->isEmpty()) { oracleFail("C06:digest-initial-response", cl.history); return; }
    auto resp = cl.respond(digestChallenge(k, qop));
    const bool trailing = endsWithBackslash(k.realm) || endsWithBackslash(k.nonce);
    const BA uri = k.cfg.service + "/" + k.cfg.host;
    if (!resp) {
        oracleFail(trailing ? "C06:digest-md5-trailing-backslash" : "C06:digest-honest-challenge-refused", cl.history);
        return;
    }
    S why;
    bool iso = true;   // which reading of the hash input the rest of the exchange is played with
    if (!digestCheckResponse(cl, k, *resp, k.cfg.pass, why, true)) {
        if (why == "response-value-utf8-not-iso8859-1") {
            oracleFail("C06:digest-md5-latin1-hashed-as-utf8", cl.history + " | response=" + printable(*resp));
            iso = false;   // go on with the client's own reading so that the rspauth step is still exercised
        } else {
            oracleFail(trailing ? "C06:digest-md5-trailing-backslash" : "C06:digest-response-not-rfc2831", cl.history + " | " + why + " | response=" + printable(*resp));
            return;
        }
    } else oraclePass()++;
    if (digestCheckResponse(cl, k, *resp, k.cfg.pass + "x", why, false)) oracleFail("C06:digest-response-accepted-under-other-password", cl.history); else oraclePass()++;
    const BA rspauth = rfcDigest("", k.cfg.user, k.realm, k.cfg.pass, k.nonce, k.cfg.cnonce, "00000001", uri, iso);
    const BA bad1 = rfcDigest("", k.cfg.user, k.realm, k.cfg.pass + "x", k.nonce, k.cfg.cnonce, "00000001", uri, iso);
    BA bad2 = rspauth; bad2[5] = bad2[5] == '0' ? '1' : '0';
    expectRefused(cl, "rspauth=" + bad1, "C06:digest-wrong-rspauth-accepted");
    expectRefused(cl, "rspauth=" + bad2, "C06:digest-wrong-rspauth-accepted");
    expectRefused(cl, "rspauth=" + rspauth.left(31), "C06:digest-wrong-rspauth-accepted");
    expectRefused(cl, "rspauth=" + rspauth.toUpper() + "x", "C06:digest-wrong-rspauth-accepted");
    expectRefused(cl, BA(), "C06:digest-wrong-rspauth-accepted");
    expectRefused(cl, "foo=bar", "C06:digest-wrong-rspauth-accepted");
    auto done = cl.respond("rspauth=" + rspauth);
    if (!done || !done->isEmpty()) oracleFail("C06:digest-honest-rspauth-refused", cl.history); else oraclePass()++;
    expectRefused(cl, BA(), "C06:digest-extra-challenge-answered");
    expectRefused(cl, "rspauth=" + rspauth, "C06:digest-extra-challenge-answered");
}

static void digestMalformed(const DigestCase &k)
{
    Client cl(k.cfg);
    cl.respond(BA());
    expectRefused(cl, "realm=" + rfcQuote(k.realm) + ",qop=\"auth\"", "C06:digest-challenge-without-nonce-answered");
    expectRefused(cl, BA(), "C06:digest-challenge-without-nonce-answered");
    expectRefused(cl, digestChallenge(k, "auth-int"), "C06:digest-unsupported-qop-answered");
    expectRefused(cl, digestChallenge(k, "auth-conf,auth-int"), "C06:digest-unsupported-qop-answered");
    // still at step 1: qop list containing auth, or no qop at all, is answered
    auto r = cl.respond(digestChallenge(k, "auth-int,auth"));
    if (!r) oracleFail("C06:digest-honest-challenge-refused", cl.history); else oraclePass()++;
    Client c2(k.cfg);
    c2.respond(BA());
    auto r2 = c2.respond(digestChallenge(k, ""));
    if (!r2) oracleFail("C06:digest-honest-challenge-refused", c2.history); else oraclePass()++;
}

// ------------------------------------------------------------------------------------------------ parseMessage / serializeMessage
static S mapStr(const QMap<BA, BA> &m)
{
    if (m.isEmpty()) return "{}";
    S s;
    for (auto it = m.begin(); it != m.end(); ++it) { if (!s.empty()) s += ";"; s += hx(it.key()) + ":" + hx(it.value()); }
    return s;
}
static void corrParse(const BA &in)
{
    printf("I parseMessage %s\n", printable(in).c_str());
    corr("dparse " + hx(in), mapStr(QXmppSaslDigestMd5::parseMessage(in)));
    stat("parse_calls");
}
static void roundTrip(const QMap<BA, BA> &m)
{
    printf("I serializeMessage %s\n", mapStr(m).c_str());
    const BA wire = QXmppSaslDigestMd5::serializeMessage(m);
    corr("dser " + mapStr(m), hx(wire));
    const auto back = QXmppSaslDigestMd5::parseMessage(wire);
    corr("dparse " + hx(wire), mapStr(back));
    stat("roundtrips");
    // independent check of the wire form: a strict RFC parser must read the map back
    std::map<BA, BA> strict;
    bool okStrict = rfcParse(wire, strict);
    QMap<BA, BA> q;
    for (auto &kv : strict) q[kv.first] = kv.second;
    if (!okStrict || q != m) oracleFail("C06:digest-serialize-not-rfc2831", "map " + mapStr(m) + " wire " + printable(wire));
    else oraclePass()++;
    if (back != m) {
        bool trailing = false;
        for (auto it = m.begin(); it != m.end(); ++it) trailing |= endsWithBackslash(it.value());
        oracleFail(trailing ? "C06:digest-md5-trailing-backslash" : "C06:digest-parse-serialize-roundtrip",
                   "map " + mapStr(m) + " wire " + printable(wire) + " parsed back " + mapStr(back));
    } else oraclePass()++;
}
static BA randToken(Rng &r, int minLen, int maxLen)
{
    static const char al[] = "abcdefghijklmnopqrstuvwxyz-ABCXYZ0189_.";
    BA b;
    int n = minLen + int(r.below(uint32_t(maxLen - minLen + 1)));
    for (int i = 0; i < n; i++) b += al[r.below(sizeof al - 1)];
    return b;
}
static BA randValue(Rng &r, bool allowTrailingBackslash)
{
    static const char al[] = "ab1 \\\"\\\",=;:/{}()<>@[]?\tz\xc3\xa9";
    BA b;
    int n = int(r.below(9));
    for (int i = 0; i < n; i++) b += al[r.below(sizeof al - 1)];
    if (!allowTrailingBackslash) while (b.endsWith('\\')) b.chop(1);
    return b;
}

// ------------------------------------------------------------------------------------------------ the managers
struct Capture : SendDataInterface {
    std::vector<BA> sent;
    bool sendData(const BA &d) override { sent.push_back(d); return true; }
};
static const char *NS_SASL = "urn:ietf:params:xml:ns:xmpp-sasl";
static const char *NS_SASL2 = "urn:xmpp:sasl:2";

struct MgrCfg { bool sasl2; ClientCfg c; };

struct Mgr {
    MgrCfg k;
    Capture cap;
    std::unique_ptr<SaslManager> m1;
    std::unique_ptr<Sasl2Manager> m2;
    QObject ctx;
    S result = "-";
    size_t seen = 0;
    S history;
    std::vector<BA> lastPayloads;   // decoded payloads of the elements sent during the last call

    explicit Mgr(const MgrCfg &cfg) : k(cfg)
    {
        corr(S("reset m ") + (k.sasl2 ? "sasl2 " : "sasl ") + k.c.mech + " " + hx(k.c.user) + " " + hx(k.c.pass) + " " + hx(k.c.cnonce) + " " + hx(k.c.host) + " " + k.c.tokenSpec(), "ok");
        history = S(k.sasl2 ? "Sasl2Manager " : "SaslManager ") + k.c.describe();
        stat("manager_sequences");
    }
    template<typename R> void classify(const R &r)
    {
        using Err = std::pair<QString, QXmpp::AuthenticationError>;
        if (auto *e = std::get_if<Err>(&r)) {
            if (e->first == QStringLiteral("Could not respond to SASL challenge") && e->second.type == QXmpp::AuthenticationError::ProcessingError) result = "cannot-respond";
            else if (e->second.type == QXmpp::AuthenticationError::RequiredTasks) result = "required-tasks";
            else if (e->first == QStringLiteral("Server did not prove knowledge of the password") && e->second.type == QXmpp::AuthenticationError::ProcessingError) result = "not-proved";
            else if (e->first.startsWith(QStringLiteral("Authentication failed: "))) result = "auth-failed";
            else result = "err:" + e->first.toStdString();
        } else result = "success";
    }
    S outs()
    {
        S s;
        lastPayloads.clear();
        for (; seen < cap.sent.size(); seen++) {
            QDomDocument doc;
            if (!doc.setContent(cap.sent[seen], true)) { s += ",unparsable"; continue; }
            auto el = doc.documentElement();
            const QString ns = el.namespaceURI();
            const bool nsOk = ns == QLatin1String(k.sasl2 ? NS_SASL2 : NS_SASL);
            S item;
            if (!nsOk) item = "wrong-namespace";
            else if (el.tagName() == QLatin1String("auth") && !k.sasl2) {
                BA p = BA::fromBase64(el.text().toUtf8());
                item = "auth:" + hx(p); lastPayloads.push_back(p);
                if (el.attribute(QStringLiteral("mechanism")).toStdString() != k.c.mech) item = "auth-wrong-mechanism";
            } else if (el.tagName() == QLatin1String("authenticate") && k.sasl2) {
                BA p = BA::fromBase64(el.firstChildElement(QStringLiteral("initial-response")).text().toUtf8());
                item = "auth:" + hx(p); lastPayloads.push_back(p);
                if (el.attribute(QStringLiteral("mechanism")).toStdString() != k.c.mech) item = "auth-wrong-mechanism";
            } else if (el.tagName() == QLatin1String("response")) {
                BA p = BA::fromBase64(el.text().toUtf8());
                item = "resp:" + hx(p); lastPayloads.push_back(p);
            } else if (el.tagName() == QLatin1String("abort") && k.sasl2) item = "abort";
            else item = "unexpected-" + el.tagName().toStdString();
            s += (s.empty() ? "" : ",") + item;
        }
        return s.empty() ? S("-") : s;
    }
    void start()
    {
        printf("I %s | authenticate\n", history.c_str());
        QXmppSaslDigestMd5::setNonce(k.c.cnonce);
        QXmppConfiguration cfg;
        cfg.setUser(QString::fromUtf8(k.c.user));
        cfg.setDomain(QString::fromUtf8(k.c.host));
        cfg.setPassword(QString::fromUtf8(k.c.pass));
        cfg.setDisabledSaslMechanisms({});
        if (!k.c.tokenMech.empty()) cfg.credentialData().htToken = HtToken { *htMech(k.c.tokenMech), QString::fromUtf8(k.c.tokenSecret), QDateTime() };
        const QList<QString> offer { QString::fromStdString(k.c.mech) };
        if (!k.sasl2) {
            m1 = std::make_unique<SaslManager>(&cap);
            auto task = m1->authenticate(cfg, offer, g_log);
            task.then(&ctx, [this](SaslManager::AuthResult &&r) { classify(r); });
        } else {
            m2 = std::make_unique<Sasl2Manager>(&cap);
            Sasl2::StreamFeature f;
            f.mechanisms = offer;
            auto task = m2->authenticate(Sasl2::Authenticate {}, cfg, f, g_log);
            task.then(&ctx, [this](Sasl2Manager::AuthResult &&r) { classify(r); });
        }
        S o = outs();
        corr("start", o + " " + result);
        history += " | start";
    }
    // feeds one element; `op` is the model-side op text
    char feed(const S &op, const BA &xml)
    {
        printf("I %s | %s\n", history.c_str(), op.c_str());
        QDomDocument doc;
        if (!doc.setContent(xml, true)) { fprintf(stderr, "harness xml bug: %s\n", xml.constData()); exit(3); }
        HandleElementResult r = k.sasl2 ? m2->handleElement(doc.documentElement()) : m1->handleElement(doc.documentElement());
        char h = r == Accepted ? 'A' : r == Rejected ? 'R' : 'F';
        S o = outs();
        corr(op, S(1, h) + " " + o + " " + result);
        history += " | " + op + "->" + h;
        stat("handle_element_calls");
        return h;
    }
    BA el(const char *tag, const BA &inner) const
    {
        return BA("<") + tag + " xmlns='" + (k.sasl2 ? NS_SASL2 : NS_SASL) + "'>" + inner + "</" + tag + ">";
    }
    char challenge(const BA &data) { return feed("el c " + hx(data), el("challenge", data.toBase64())); }
    char success(const std::optional<BA> &data)
    {
        BA inner;
        if (data) inner = k.sasl2 ? "<additional-data>" + data->toBase64() + "</additional-data>" : data->toBase64();
        if (k.sasl2) inner += "<authorization-identifier>u@h/r</authorization-identifier>";
        return feed("el s " + (data ? hx(*data) : S("-")), el("success", inner));
    }
    char failure(bool aborted)
    {
        BA cond = aborted ? "aborted" : "not-authorized";
        BA inner = k.sasl2 ? "<" + cond + " xmlns='" + NS_SASL + "'/><text>no</text>" : "<" + cond + "/>";
        return feed(S("el f ") + (aborted ? "1" : "0"), el("failure", inner));
    }
    char cont() { return feed("el k", BA("<continue xmlns='") + NS_SASL2 + "'><tasks><task>HOTP-EXAMPLE</task></tasks><text>more</text></continue>"); }
    char unknown(int which)
    {
        static const char *X[] = {
            "<foo xmlns='urn:example:x'/>",
            "<challenge xmlns='urn:example:x'>QUJD</challenge>",
            "<success xmlns='jabber:client'/>",
            "<failure xmlns='urn:xmpp:sasl:2'><nonsense xmlns='urn:ietf:params:xml:ns:xmpp-sasl'/></failure>",   // SASL2: unknown condition is refused
        };
        if (which == 3 && !k.sasl2) which = 0;
        return feed("el x", X[which % 4]);
    }
};

// the server side of a manager-level exchange: knows the credentials, watches what the client sent
struct Script {
    Mgr &m;
    BA snonce, salt, realm, dnonce; int iters;
    BA clientFirst, serverFirst, clientFinal, digestResp;
    bool proved = false;       // the server's proof of knowledge of the password reached the client and was accepted
    int payloadIdx = 0;
    Script(Mgr &mg, Rng &r, const BA *fixedSalt = nullptr, int fixedIters = 0) : m(mg)
    {
        snonce = randNonce(r, 1, 12); salt = randBytes(r, 1, 16); iters = 1 + int(r.below(3));
        if (fixedSalt) { salt = *fixedSalt; iters = fixedIters; }
        realm = r.coin() ? BA() : randText(r, 1, 6, ""); while (realm.endsWith('\\')) realm.chop(1);
        dnonce = randNonce(r, 1, 12); while (dnonce.endsWith('\\')) dnonce += 'n';
    }
    bool isScram() const { return m.k.c.mech.rfind("SCRAM-", 0) == 0; }
    bool isDigest() const { return m.k.c.mech == "DIGEST-MD5"; }
    void watch()   // record the payloads the client just sent
    {
        for (auto &p : m.lastPayloads) {
            if (isScram()) { if (clientFirst.isEmpty() && p.startsWith("n,,")) clientFirst = p; else if (p.startsWith("c=")) clientFinal = p; }
            if (isDigest() && p.contains("response=")) digestResp = p;
        }
    }
    // the correct server signature, if the exchange got far enough for one to exist
    std::optional<BA> serverFinal() const
    {
        if (!isScram() || clientFirst.isEmpty() || serverFirst.isEmpty() || clientFinal.isEmpty()) return {};
        const Alg &a = *algOfScram(m.k.c.mech);
        ScramRecord rec = scramRecordOf(a, m.k.c.pass, salt, iters);
        BA fin;
        if (!refScramVerify(a, rec, m.k.c.user, clientFirst, serverFirst, m.k.c.cnonce + snonce, clientFinal, &fin).empty()) return {};
        return fin;
    }
    BA fakeFinal() const { return "v=" + BA(20, 'x').toBase64(); }
    BA rspauth(bool wrong) const
    {
        return "rspauth=" + rfcDigest("", m.k.c.user, realm, m.k.c.pass + (wrong ? "x" : ""), dnonce, m.k.c.cnonce, "00000001", "xmpp/" + m.k.c.host, false);
    }
    // element alphabet; returns false when the symbol does not apply to the mechanism
    void play(const S &sym)
    {
        char h = '?';
        if (sym == "C1") {
            BA d;
            if (isScram()) { d = refServerFirst(m.k.c.cnonce + snonce, salt, iters); if (serverFirst.isEmpty()) serverFirst = d; }
            else if (isDigest()) d = (realm.isEmpty() ? BA() : "realm=" + rfcQuote(realm) + ",") + "nonce=" + rfcQuote(dnonce) + ",qop=\"auth\",charset=utf-8,algorithm=md5-sess";
            else d = "abc";
            h = m.challenge(d);
        } else if (sym == "C1n") {
            h = m.challenge(isScram() ? refServerFirst(snonce, salt, iters) : BA("realm=\"x\",qop=\"auth\""));
        } else if (sym == "C2") {
            if (isScram()) {
                auto fin = serverFinal();
                h = m.challenge(fin ? *fin : fakeFinal());
                if (fin && h == 'A') proved = true;
            } else { h = m.challenge(rspauth(false)); if (isDigest() && h == 'A' && !digestResp.isEmpty()) proved = true; }
        } else if (sym == "C2w") {
            h = m.challenge(isScram() ? fakeFinal() : rspauth(true));
        } else if (sym == "Ce") {
            h = m.challenge(BA());
        } else if (sym == "S") {
            h = m.success({});
        } else if (sym == "Sv") {
            auto fin = serverFinal();
            bool pendingBefore = m.result == "-";
            h = m.success(fin ? *fin : (isDigest() ? rspauth(false) : fakeFinal()));
            if (fin && pendingBefore) proved = true;      // the proof was in the transcript (success data)
            if (isDigest() && pendingBefore && !digestResp.isEmpty()) proved = true;
        } else if (sym == "S1") {   // success carrying what should have been the first challenge (seeded change C06_a2)
            BA d;
            if (isScram()) { d = refServerFirst(m.k.c.cnonce + snonce, salt, iters); if (serverFirst.isEmpty()) serverFirst = d; }
            else if (isDigest()) d = (realm.isEmpty() ? BA() : "realm=" + rfcQuote(realm) + ",") + "nonce=" + rfcQuote(dnonce) + ",qop=\"auth\",charset=utf-8,algorithm=md5-sess";
            else d = "abc";
            h = m.success(d);
        } else if (sym == "Sw") {
            h = m.success(isDigest() ? rspauth(true) : fakeFinal());
        } else if (sym == "F") h = m.failure(false);
        else if (sym == "Fa") h = m.failure(true);
        else if (sym == "K") h = m.cont();
        else if (sym == "X") h = m.unknown(0);
        else if (sym == "X3") h = m.unknown(3);
        else if (sym == "X1") h = m.unknown(1);
        else if (sym == "X2") h = m.unknown(2);
        (void)h;
        watch();
    }
};

static void runMgrSequence(const MgrCfg &cfg, const std::vector<S> &syms, Rng &rng)
{
    Mgr m(cfg);
    Script sc(m, rng);
    m.start();
    sc.watch();
    bool judged = false;
    for (auto &s : syms) {
        sc.play(s);
        if (!judged && m.result != "-") {
            judged = true;
            // the property: a SCRAM login is reported successful only if the server proved knowledge of the password
            if (sc.isScram()) {
                if (m.result == "success" && !sc.proved)
                    oracleFail(cfg.sasl2 ? "C06:early-success-sasl2" : "C06:early-success-sasl", m.history);
                else oraclePass()++;
            }
            // ... and a DIGEST-MD5 login only if the correct rspauth was presented (RFC 2831 2.1.3)
            if (sc.isDigest()) {
                if (m.result == "success" && !sc.proved)
                    oracleFail(cfg.sasl2 ? "C06:digest-success-without-rspauth-sasl2" : "C06:digest-success-without-rspauth-sasl", m.history);
                else oraclePass()++;
            }
        }
    }
}

static ClientCfg randCfg(Rng &rng, const S &mech);

// an honest SCRAM server holding the CONFIGURED password, played through a manager with a given (salt, count): the reference
// server must accept the client's proof, the client must accept its signature, the login must be reported successful
static void mgrHonestScram(const MgrCfg &cfg, const BA &salt, int iters, Rng &rng)
{
    Mgr m(cfg);
    Script sc(m, rng, &salt, iters);
    m.start();
    sc.watch();
    sc.play("C1");
    if (!sc.serverFinal()) oracleFail("C06:scram-proof-rejected-by-reference-server", m.history + " | manager level, salt=" + hx(salt) + " i=" + std::to_string(iters));
    else oraclePass()++;
    sc.play("C2");
    sc.play("S");
    if (m.result != "success" || !sc.proved) oracleFail("C06:scram-honest-server-final-refused", m.history + " | manager level, result " + m.result);
    else oraclePass()++;
}

// several logins in ONE process over a small pool of (salt, count) pairs with different configured passwords (mistyped then
// corrected, password changed with the salt kept, two accounts sharing a salt): every login is judged by the reference server
// holding THAT login's password — the client must be a function of its arguments, nothing may carry over between logins
static void scramSharedSalt(const Alg &alg, Rng &rng)
{
    struct Pool { BA salt; int iters; };
    const Pool pool[] = { { randBytes(rng, 4, 16), 1 + int(rng.below(8)) }, { randBytes(rng, 4, 16), 1024 } };
    std::vector<BA> passwords = { randText(rng, 1, 10, ""), randText(rng, 1, 10, ""), BA("pencil") };
    passwords.push_back(passwords[0]);            // and back to the first one
    passwords.push_back(passwords[0] + "x");
    const BA user = randText(rng, 1, 8);
    for (auto &pl : pool) {
        for (size_t i = 0; i < passwords.size(); i++) {
            ScramCase k;
            k.cfg = randCfg(rng, alg.scram);
            if (i % 2 == 0) k.cfg.user = user;    // same account / another account
            k.cfg.pass = passwords[i];
            k.snonce = randNonce(rng, 1, 16);
            k.salt = pl.salt; k.iters = pl.iters;
            scramHonest(k, true);
            for (int sasl2 = 0; sasl2 < 2; sasl2++) {
                MgrCfg mk { sasl2 == 1, k.cfg };
                mk.c.cnonce = randNonce(rng, 1, 16);
                mgrHonestScram(mk, pl.salt, pl.iters, rng);
            }
            stat("scram_shared_salt_logins", 3);
        }
    }
}

static void enumerateMgr(const MgrCfg &cfg, const std::vector<S> &alpha, int depth, std::vector<S> &cur, Rng &rng)
{
    if (!cur.empty()) runMgrSequence(cfg, cur, rng);
    if (int(cur.size()) == depth) return;
    for (auto &a : alpha) { cur.push_back(a); enumerateMgr(cfg, alpha, depth, cur, rng); cur.pop_back(); }
}


// ------------------------------------------------------------------------------------------------ FAST tokens over several connections
static const char *FAST_NAMES[] = { "HT-SHA-256-NONE", "HT-SHA-512-NONE", "HT-SHA3-256-NONE", "HT-SHA3-512-NONE" };

// one client object (QXmppConfiguration + FastTokenManager, wired as in QXmppOutgoingClient::startSasl2Auth) over several connections
struct FastEnv {
    QXmppConfiguration config;
    FastTokenManager fast { config };
    BA user, pass;
    std::map<BA, S> issuedFor;     // the server's ledger: token secret -> mechanism it was issued for
    std::unique_ptr<Capture> cap;
    std::unique_ptr<Sasl2Manager> mgr;
    std::unique_ptr<QObject> ctx;
    bool pending = false, tainted = false;
    S reqSent, usedHt;
    std::optional<Sasl2::Success> succ;
    bool errored = false;
    S history;

    FastEnv(const BA &u, const BA &p) : user(u), pass(p)
    {
        config.setUser(QString::fromUtf8(u));
        config.setDomain(QStringLiteral("example.org"));
        config.setDisabledSaslMechanisms({});
        config.setSasl2UserAgent(QXmppSasl2UserAgent(QUuid(QStringLiteral("{d4565fa7-4d72-4749-b3d3-740edbf87770}")), QStringLiteral("verif"), QStringLiteral("box")));
        corr("reset f " + hx(u) + " " + hx(p), "ok");
        history = "fast user=" + printable(u);
        stat("fast_sequences");
    }
    S tokState()
    {
        auto &t = config.credentialData().htToken;
        return (t ? "tok=" + t->mechanism.toString().toStdString() + "/" + hx(t->secret.toUtf8()) : S("tok=-")) + (fast.tokenChanged() ? " ch=1" : " ch=0");
    }
    void setCreds(bool pw, const S &tokMech, const BA &secret)
    {
        printf("I %s | setcreds\n", history.c_str());
        config.setPassword(pw ? QString::fromUtf8(pass) : QString());
        if (tokMech.empty()) config.credentialData().htToken.reset();
        else {
            config.credentialData().htToken = HtToken { *htMech(tokMech), QString::fromUtf8(secret), QDateTime() };
            issuedFor[secret] = tokMech;     // the application stores a token together with the mechanism it was issued for
        }
        if (pending) tainted = true;         // credentials replaced while a login is pending: outside the theorem's histories
        S op = S("setcreds ") + (pw ? "1 " : "0 ") + (tokMech.empty() ? S("-") : tokMech + "/" + hx(secret));
        corr(op, "- " + tokState());
        history += " | " + op;
    }
    void login(bool fastEnabled, const std::optional<std::vector<S>> &offer)
    {
        S op = S("login ") + (fastEnabled ? "1 " : "0 ");
        if (!offer) op += "!";
        else if (offer->empty()) op += "-";
        else for (size_t i = 0; i < offer->size(); i++) op += (i ? "," : "") + (*offer)[i];
        printf("I %s | %s\n", history.c_str(), op.c_str());
        config.setUseFastTokenAuthentication(fastEnabled);
        Sasl2::StreamFeature feature;
        feature.mechanisms = { QStringLiteral("PLAIN") };
        if (offer) { FastFeature ff; for (auto &n : *offer) ff.mechanisms.push_back(QString::fromStdString(n)); feature.fast = ff; }
        const BA heldSecret = config.credentialData().htToken ? config.credentialData().htToken->secret.toUtf8() : BA();
        Sasl2::Authenticate auth;
        fast.onSasl2Authenticate(auth, feature);
        cap = std::make_unique<Capture>();
        mgr = std::make_unique<Sasl2Manager>(cap.get());
        ctx = std::make_unique<QObject>();
        succ.reset(); errored = false; tainted = false; reqSent.clear(); usedHt.clear();
        auto task = mgr->authenticate(std::move(auth), config, feature, g_log);
        task.then(ctx.get(), [this](Sasl2Manager::AuthResult &&r) {
            if (auto *ok = std::get_if<Sasl2::Success>(&r)) succ = *ok; else errored = true;
        });
        S obs;
        if (errored || cap->sent.empty()) { obs = "error"; pending = false; }
        else {
            pending = true;
            QDomDocument doc;
            doc.setContent(cap->sent[0], true);
            auto el = doc.documentElement();
            const S mech = el.attribute(QStringLiteral("mechanism")).toStdString();
            const BA initial = BA::fromBase64(el.firstChildElement(QStringLiteral("initial-response")).text().toUtf8());
            for (auto ch = el.firstChildElement(); !ch.isNull(); ch = ch.nextSiblingElement())
                if (ch.tagName() == QLatin1String("request-token") && ch.namespaceURI() == QLatin1String("urn:xmpp:fast:0")) reqSent = ch.attribute(QStringLiteral("mechanism")).toStdString();
            if (mech == "PLAIN") obs = "plain " + hx(initial);
            else { usedHt = mech; obs = "ht " + mech + " " + hx(initial); }
            obs += " req=" + (reqSent.empty() ? S("-") : reqSent);
            // XEP-0484: a stored token is used with the mechanism the server issued it for, and the initial response is
            // authcid NUL HMAC_<hash of that mechanism>(token, "Initiator" || cb-data), cb-data empty for -NONE
            if (!usedHt.empty()) {
                auto it = issuedFor.find(heldSecret);
                if (it != issuedFor.end()) {
                    const Alg *a = algOfHt(it->second);
                    const bool ok = a && usedHt == it->second && initial == user + char(0) + HMAC(*a, heldSecret, "Initiator");
                    if (!ok) oracleFail("C06:fast-token-wrong-mechanism", history + " | " + op + " -> announced " + usedHt + " for a token issued for " + it->second);
                    else oraclePass()++;
                }
            }
        }
        corr(op, obs + " " + tokState());
        history += " | " + op;
        stat("fast_logins");
    }
    void success(const BA &tok)
    {
        S op = "success " + hx(tok);
        printf("I %s | %s\n", history.c_str(), op.c_str());
        if (pending) {
            BA xml = BA("<success xmlns='urn:xmpp:sasl:2'><authorization-identifier>u@example.org/r</authorization-identifier>");
            if (!tok.isEmpty()) xml += "<token xmlns='urn:xmpp:fast:0' token='" + tok + "' expiry='2031-01-01T00:00:00Z'/>";
            xml += "</success>";
            QDomDocument doc;
            doc.setContent(xml, true);
            mgr->handleElement(doc.documentElement());
            if (succ) {
                fast.onSasl2Success(*succ);
                // the server issued the token for the mechanism requested in this login, or (rotation) for the one just used
                if (!tok.isEmpty() && !tainted) {
                    if (!reqSent.empty()) issuedFor[tok] = reqSent;
                    else if (!usedHt.empty()) issuedFor[tok] = usedHt;
                }
            }
            pending = false;
        }
        corr(op, "- " + tokState());
        history += " | " + op;
    }
    void fail()
    {
        if (pending) {
            QDomDocument doc;
            doc.setContent(BA("<failure xmlns='urn:xmpp:sasl:2'><not-authorized xmlns='urn:ietf:params:xml:ns:xmpp-sasl'/></failure>"), true);
            mgr->handleElement(doc.documentElement());
            pending = false;
        }
        corr("fail", "- " + tokState());
        history += " | fail";
    }
};

static int g_fastTok = 0;
static void playFast(FastEnv &e, const S &sym, Rng &rng)
{
    auto tok = [&]() { return BA("t") + BA::number(++g_fastTok) + "-" + randToken(rng, 3, 10); };
    const std::vector<S> all { FAST_NAMES[0], FAST_NAMES[1], FAST_NAMES[2], FAST_NAMES[3] };
    if (sym == "Cp") e.setCreds(true, "", BA());
    else if (sym == "C0") e.setCreds(true, FAST_NAMES[0], tok());
    else if (sym == "C3") e.setCreds(true, FAST_NAMES[3], tok());
    else if (sym == "C1x") e.setCreds(false, FAST_NAMES[1], tok());
    else if (sym == "Cn") e.setCreds(false, "", BA());
    else if (sym == "L0") e.login(true, std::vector<S> { FAST_NAMES[0] });
    else if (sym == "L30") e.login(true, std::vector<S> { FAST_NAMES[3], FAST_NAMES[0] });
    else if (sym == "La") e.login(true, std::vector<S> { "HT-SHA-256-ENDP", FAST_NAMES[1], FAST_NAMES[0], "X-NONSENSE", FAST_NAMES[3], FAST_NAMES[2] });
    else if (sym == "L2") e.login(true, std::vector<S> { FAST_NAMES[2], "HT-SHA3-512-EXPR" });
    else if (sym == "Ln") e.login(true, std::nullopt);
    else if (sym == "Le") e.login(true, std::vector<S> {});
    else if (sym == "Ld") e.login(false, all);
    else if (sym == "S") e.success(BA());
    else if (sym == "St") e.success(tok());
    else if (sym == "F") e.fail();
}
static void runFast(const std::vector<S> &syms, Rng &rng)
{
    FastEnv e(randText(rng, 1, 6, ""), randText(rng, 1, 8, ""));
    for (auto &s : syms) playFast(e, s, rng);
}
static void enumerateFast(const std::vector<S> &alpha, int depth, std::vector<S> &cur, Rng &rng)
{
    if (int(cur.size()) == depth) { runFast(cur, rng); return; }
    for (auto &a : alpha) { cur.push_back(a); enumerateFast(alpha, depth, cur, rng); cur.pop_back(); }
}

// ------------------------------------------------------------------------------------------------ main
static ClientCfg randCfg(Rng &rng, const S &mech)
{
    ClientCfg c;
    c.mech = mech;
    c.user = randText(rng, 1, 10);
    c.pass = randText(rng, 1, 12, "");
    c.cnonce = randNonce(rng, 1, 24);
    c.host = randToken(rng, 1, 10) + ".example";
    c.service = "xmpp";
    return c;
}

static void enumStrings(const S &alpha, int depth, BA &cur)
{
    corrParse(cur);
    if (cur.size() == depth) return;
    for (char ch : alpha) { cur.append(ch); enumStrings(alpha, depth, cur); cur.chop(1); }
}

int main(int argc, char **argv)
{
    QCoreApplication app(argc, argv);
    Args a = parseArgs(argc, argv);
    setvbuf(stdout, nullptr, _IOLBF, 0);
    g_thorough = a.tier == "thorough";
    QXmppLoggable log;
    g_log = &log;
    Rng rng(a.seed);

    // ---------------- corpus: the specification examples and minimized findings, first
    {
        ScramCase k { { "SCRAM-SHA-1", "user", "pencil", "fyko+d2lbbFgONRv9qkxdawL", "", "" }, "3rfcNHYJY1ZVvWVs7j", BA::fromBase64("QSXCR+Q6sek8bf92"), 4096 };
        scramHonest(k, true);                                        // RFC 5802 §5
        ScramCase k2 { { "SCRAM-SHA-256", "user", "pencil", "rOprNGfwEbeRWgbNEkqO", "", "" }, "%hvYDpWUa2RaTCAfuxFIlj)hNlF$k0", BA::fromBase64("W22ZaJ0SNY7soEsUEjb6gQ=="), 4096 };
        scramHonest(k2, true);                                       // RFC 7677 §3
        { ScramCase ke = k; ke.iters = 3; scramHonest(ke, true, ",x=ignored"); }   // extension attribute after i= (seeded change C06_c2)
        for (const char *u : { "a,b", "a=b", ",", "=2C", "x=3Dy," }) {   // RFC 5802 §5.1: ',' and '=' must travel as =2C / =3D (witnesses of the finding fixed in 43097ab)
            ScramCase k3 = k; k3.cfg.user = u; k3.iters = 2;
            scramHonest(k3, false);
        }
        DigestCase d { { "DIGEST-MD5", "qxmpp1", "qxmpp123", "AMzVG8Oibf+sVUCPPlWLR8lZQvbbJtJB9vJd+u3c6dw=", "jabber.ru", "xmpp" }, "", "2530347127" };
        digestHonest(d, "auth");
        DigestCase d2 { { "DIGEST-MD5", "chris", "secret", "OA6MHXh6VqTrRk", "elwood.innosoft.com", "imap" }, "elwood.innosoft.com", "OA6MG9tEQGm2hh" };
        digestHonest(d2, "auth");                                    // RFC 2831 §4
        DigestCase d3 = d; d3.realm = "corp\\";                      // a realm ending in a backslash: quoted as "corp\\"
        digestHonest(d3, "auth");
        DigestCase d4 = d; d4.realm = "a b\\"; d4.nonce = "n\\";
        digestHonest(d4, "auth");
        DigestCase d5 = d; d5.cfg.user = "ren\xc3\xa9"; d5.cfg.pass = "p\xc3\xa4ssw\xc3\xb6rd";   // ISO 8859-1 representable, non-ASCII
        digestHonest(d5, "auth");
        DigestCase d6 = d; d6.cfg.user = "ren\xc3\xa9"; d6.cfg.pass = "\xd0\xbf\xd0\xb0\xd1\x80\xd0\xbe\xd0\xbb\xd1\x8c";   // password beyond ISO 8859-1: stays UTF-8, user does not
        digestHonest(d6, "auth");
        for (int sasl2 = 0; sasl2 < 2; sasl2++) {
            MgrCfg mk { sasl2 == 1, { "SCRAM-SHA-1", "user", "pencil", "fyko+d2lbbFgONRv9qkxdawL", "example.org", "xmpp" } };
            runMgrSequence(mk, { "S" }, rng);          // witness of the early-success finding (fixed in 0b21ae7)
            runMgrSequence(mk, { "S1" }, rng);         // seeded change C06_a2: success carrying a server-first message
            runMgrSequence(mk, { "C1", "Sw" }, rng);
            MgrCfg md { sasl2 == 1, { "DIGEST-MD5", "qxmpp1", "qxmpp123", "AMzVG8Oibf+sVUCPPlWLR8lZQvbbJtJB9vJd+u3c6dw=", "jabber.ru", "xmpp" } };
            runMgrSequence(md, { "C1", "S" }, rng);    // DIGEST-MD5: success right after the response, no rspauth (finding fixed in 8012ab0)
            runMgrSequence(md, { "C1", "Sw" }, rng);   // ... or with a wrong rspauth as success data
            runMgrSequence(md, { "C1", "Sv" }, rng);
        }
        QMap<BA, BA> m1; m1["username"] = "a b\\";
        roundTrip(m1);
        QMap<BA, BA> m2; m2["realm"] = "x\\"; m2["username"] = "say \"hi\"";
        roundTrip(m2);
        corrParse("username=\"a b\\\\\"");
        ClientCfg ht { "HT-SHA-256-NONE", "lnj", "", "n", "", "", "HT-SHA-256-NONE", "secret-token:fast-Oeie4nmlUoLHXca_YhkjwkEBgCEKKHKCArT8" };
        Client c(ht);
        auto r = c.respond(BA());
        if (!r || r->toBase64() != "bG5qAKq/BuI7mZiZ6fByiqP1ARkYUI/WyFSh7tsYik1uUiB5") oracleFail("C06:ht-not-xep0484", c.history); else oraclePass()++;
    }

    // ---------------- SCRAM: several logins per process sharing (mechanism, salt, count) with different passwords (seeded change C06_d2)
    for (auto &alg : ALGS) if (alg.scram) for (int i = 0; i < (g_thorough ? 6 : 2); i++) scramSharedSalt(alg, rng);

    // ---------------- FAST tokens: corpus (seeded change C06_c1: request for X, stored token for Y, rotation, next login), then sequences
    {
        runFast({ "Cp", "L0", "St", "C3", "La", "St", "La", "S", "La" }, rng);
        runFast({ "Cp", "La", "St", "La", "St", "L30", "St", "L0", "F", "Ld", "S", "La" }, rng);
        const std::vector<S> alpha = { "Cp", "C0", "C3", "C1x", "L0", "L30", "La", "Ln", "Ld", "S", "St", "F" };
        std::vector<S> cur;
        for (int d = 1; d <= (g_thorough ? 5 : 4); d++) enumerateFast(alpha, d, cur, rng);
        stat("fast_exhaustive_depth", g_thorough ? 5 : 4);
        const std::vector<S> wide = { "Cp", "C0", "C3", "C1x", "Cn", "L0", "L30", "La", "La", "L2", "Ln", "Le", "Ld", "S", "St", "St", "St", "F" };
        const int nf = g_thorough ? 20000 : 2500;
        for (int i = 0; i < nf; i++) {
            std::vector<S> syms { "Cp" };
            int len = 3 + int(rng.below(14));
            for (int j = 0; j < len; j++) syms.push_back(wide[rng.below(uint32_t(wide.size()))]);
            if (i < 1) { S t; for (auto &x : syms) t += x + " "; sample("fast " + t); }
            runFast(syms, rng);
        }
    }

    // ---------------- SCRAM, client level
    const int nScram = g_thorough ? 400 : 60;
    for (int i = 0; i < nScram; i++) {
        for (auto &alg : ALGS) {
            if (!alg.scram) continue;
            ScramCase k;
            k.cfg = randCfg(rng, alg.scram);
            if (rng.below(4) == 0) { k.cfg.user = randText(rng, 1, 8, ""); int at; do at = int(rng.below(uint32_t(k.cfg.user.size() + 1))); while (at < k.cfg.user.size() && (uchar(k.cfg.user.at(at)) & 0xC0) == 0x80); k.cfg.user.insert(at, rng.coin() ? ',' : '='); }
            k.snonce = randNonce(rng, 1, 24);
            k.salt = randBytes(rng, 1, 32);
            uint32_t pick = rng.below(100);
            k.iters = pick < 60 ? 1 + int(rng.below(64)) : pick < 90 ? 1 + int(rng.below(1024)) : pick < 97 ? 4096 : (g_thorough ? 4097 + int(rng.below(30000)) : 4096);
            if (i < 2) sample("scram " + k.cfg.describe() + " snonce=" + printable(k.snonce) + " salt=" + hx(k.salt) + " i=" + std::to_string(k.iters));
            scramHonest(k, true);
            ScramCase small = k;
            small.iters = 1 + int(rng.below(4));
            scramHonest(small, true, i % 2 ? BA(",x=ignored") : ",ext=" + randNonce(rng, 1, 8) + ",y=" + randNonce(rng, 0, 4)); small.iters = 1 + int(rng.below(4));
            scramForeignNonce(small, rng);
            scramBadSignature(small, rng);
            if (i % 4 == 0) scramBadParams(small);
            stat("scram_cases");
        }
    }

    // ---------------- DIGEST-MD5, client level
    const int nDigest = g_thorough ? 6000 : 800;
    for (int i = 0; i < nDigest; i++) {
        DigestCase k;
        k.cfg = randCfg(rng, "DIGEST-MD5");
        if (rng.below(4) == 0) k.cfg.user = randText(rng, 1, 8, "");           // ',' '=' are fine in DIGEST user names
        if (rng.below(5) == 0) { k.cfg.user += "\\"; k.cfg.user += char('a' + rng.below(3)); }
        k.realm = rng.below(3) == 0 ? BA() : (rng.coin() ? randText(rng, 1, 8, "") : randValue(rng, false));
        while (k.realm.endsWith('\\')) k.realm.chop(1);
        k.nonce = rng.coin() ? randNonce(rng, 1, 24) : randValue(rng, false) + "n";
        if (k.nonce.isEmpty()) k.nonce = "n";
        if (rng.below(5) == 0) { if (rng.coin()) k.realm += '\\'; else k.nonce += '\\'; }   // fixed in aca51c7; a failure keeps the old key
        if (i < 2) sample("digest " + k.cfg.describe() + " realm=" + printable(k.realm) + " nonce=" + printable(k.nonce));
        digestHonest(k, rng.coin() ? "auth" : "auth,auth-int");
        if (i % 5 == 0) digestMalformed(k);
        stat("digest_cases");
    }

    // ---------------- PLAIN and HT, client level
    const int nPlain = g_thorough ? 10000 : 1500;
    for (int i = 0; i < nPlain; i++) {
        ClientCfg k = randCfg(rng, "PLAIN");
        if (rng.coin()) k.user = randText(rng, 0, 10, "");
        if (rng.below(8) == 0) k.pass = BA();
        Client c(k);
        const BA ch = rng.coin() ? BA() : randBytes(rng, 1, 6);
        auto r = c.respond(ch);
        // RFC 4616: [authzid] NUL authcid NUL passwd — read back with a split at the NULs
        bool ok = r.has_value();
        if (ok) { auto parts = r->split('\0'); ok = parts.size() == 3 && parts[0].isEmpty() && parts[1] == k.user && parts[2] == k.pass; }
        if (!ok) oracleFail("C06:plain-not-rfc4616", c.history); else oraclePass()++;
        expectRefused(c, BA(), "C06:plain-extra-challenge-answered");
        stat("plain_cases");
    }
    const int nHt = g_thorough ? 3000 : 400;
    for (int i = 0; i < nHt; i++) {
        for (auto &alg : ALGS) {
            if (!alg.ht) continue;
            ClientCfg k = randCfg(rng, alg.ht);
            if (rng.coin()) k.user = randText(rng, 1, 10, "");
            k.tokenMech = alg.ht;
            k.tokenSecret = randText(rng, 1, 40, "");
            int variant = int(rng.below(6));
            if (variant == 0) k.tokenMech.clear();                                             // no token
            if (variant == 1) k.tokenMech = S(alg.ht) == "HT-SHA-256-NONE" ? "HT-SHA-512-NONE" : "HT-SHA-256-NONE";   // token for another hash
            if (variant == 2) k.tokenMech = "HT-SHA-256-ENDP";                                 // token for a channel-bound mechanism
            Client c(k);
            if (variant == 3) expectRefused(c, randBytes(rng, 1, 5), "C06:ht-nonempty-challenge-answered");
            auto r = c.respond(BA());
            if (variant <= 2) {
                if (r) oracleFail("C06:ht-answered-without-matching-token", c.history); else oraclePass()++;
            } else {
                // XEP-0484: authcid NUL HMAC(token, "Initiator" || cb-data), cb-data empty for -NONE
                const BA expect = k.user + char(0) + HMAC(alg, k.tokenSecret, "Initiator");
                if (!r || *r != expect) oracleFail("C06:ht-not-xep0484", c.history); else oraclePass()++;
                const BA other = k.user + char(0) + HMAC(alg, k.tokenSecret + "x", "Initiator");
                if (r && *r == other) oracleFail("C06:ht-accepted-under-other-token", c.history); else oraclePass()++;
                expectRefused(c, BA(), "C06:ht-extra-challenge-answered");
            }
            stat("ht_cases");
        }
    }

    // ---------------- the DIGEST-MD5 message grammar
    {
        BA cur;
        enumStrings("a=,\"\\ ", g_thorough ? 7 : 6, cur);
        stat("parse_exhaustive_len", g_thorough ? 7 : 6);
        const int nRt = g_thorough ? 40000 : 6000;
        for (int i = 0; i < nRt; i++) {
            QMap<BA, BA> m;
            int n = 1 + int(rng.below(4));
            bool allowTrailing = rng.below(3) == 0;
            for (int j = 0; j < n; j++) m[randToken(rng, 1, 6)] = randValue(rng, allowTrailing);
            if (i < 1) sample("roundtrip " + mapStr(m));
            roundTrip(m);
        }
        const int nMal = g_thorough ? 60000 : 8000;
        for (int i = 0; i < nMal; i++) {
            static const char al[] = "ab=,\"\\ \tq-\n";
            BA s;
            int n = int(rng.below(24));
            for (int j = 0; j < n; j++) s += al[rng.below(sizeof al - 1)];
            corrParse(s);
        }
    }

    // ---------------- the managers
    {
        const std::vector<S> full = { "C1", "C1n", "C2", "C2w", "Ce", "S", "Sv", "Sw", "S1", "F", "Fa", "K", "X" };
        const std::vector<S> simple = { "C1", "Ce", "S", "Sv", "F", "Fa", "K", "X" };
        std::vector<S> cur;
        for (int sasl2 = 0; sasl2 < 2; sasl2++) {
            MgrCfg k { sasl2 == 1, randCfg(rng, "SCRAM-SHA-1") };
            enumerateMgr(k, full, g_thorough ? 4 : 3, cur, rng);
            MgrCfg k256 { sasl2 == 1, randCfg(rng, "SCRAM-SHA-256") };
            enumerateMgr(k256, full, 2, cur, rng);
            MgrCfg k512 { sasl2 == 1, randCfg(rng, "SCRAM-SHA-512") };
            enumerateMgr(k512, full, 2, cur, rng);
            MgrCfg k3 { sasl2 == 1, randCfg(rng, "SCRAM-SHA3-512") };
            enumerateMgr(k3, full, 2, cur, rng);
            MgrCfg kd { sasl2 == 1, randCfg(rng, "DIGEST-MD5") };
            enumerateMgr(kd, full, g_thorough ? 4 : 3, cur, rng);
            MgrCfg kp { sasl2 == 1, randCfg(rng, "PLAIN") };
            enumerateMgr(kp, simple, 3, cur, rng);
            MgrCfg kh { sasl2 == 1, randCfg(rng, "HT-SHA-256-NONE") };
            kh.c.tokenMech = "HT-SHA-256-NONE"; kh.c.tokenSecret = "tok-" + randToken(rng, 4, 12);
            enumerateMgr(kh, simple, 3, cur, rng);
        }
        stat("manager_exhaustive_depth", g_thorough ? 4 : 3);
        const std::vector<S> wide = { "C1", "C1", "C1n", "C2", "C2", "C2w", "Ce", "S", "Sv", "Sw", "S1", "F", "Fa", "K", "K", "X", "X1", "X2", "X3" };
        const int nRand = g_thorough ? 25000 : 3000;
        for (int i = 0; i < nRand; i++) {
            static const char *MECHS[] = { "SCRAM-SHA-1", "SCRAM-SHA-256", "SCRAM-SHA-512", "SCRAM-SHA3-512", "DIGEST-MD5", "PLAIN", "HT-SHA-512-NONE", "HT-SHA3-256-NONE" };
            MgrCfg k { rng.coin(), randCfg(rng, MECHS[rng.below(8)]) };
            if (k.c.mech.rfind("HT-", 0) == 0) { k.c.tokenMech = k.c.mech; k.c.tokenSecret = randText(rng, 1, 20, ""); }
            std::vector<S> syms;
            int len = 1 + int(rng.below(8));
            // mostly the honest order with noise
            for (int j = 0; j < len; j++) syms.push_back(rng.below(3) == 0 ? wide[rng.below(uint32_t(wide.size()))] : (j == 0 ? S("C1") : j == 1 ? S("C2") : j == 2 ? S("S") : wide[rng.below(uint32_t(wide.size()))]));
            if (i < 2) { S s; for (auto &x : syms) s += x + " "; sample((k.sasl2 ? "sasl2 " : "sasl ") + k.c.describe() + " server: " + s); }
            runMgrSequence(k, syms, rng);
        }
        stat("manager_random_sequences", nRand);
    }
    finish();
    return 0;
}
