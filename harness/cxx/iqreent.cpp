// C07 harness, part G: re-entrancy.  A continuation attached to a request task runs synchronously inside the
// completion (OutgoingIqManager::handleStanza / finish / cancelAll).  What if it starts a new request, re-uses the id of
// the request being completed, ends the session, or is one of many requests cancelled together?
//
// Built against the sanitizer-instrumented library (SPEC: asan="lib").  Every scenario runs in a forked child (a memory
// error must not take the harness down); the child reports through its exit status and a pipe.
//
//   site   : response | senderr (finish(id, error)) | failall (resetCache) | opened (session opened, not resumed)
//            | closed (session closed, not resumable) | destroy (client destroyed)
//   body   : new (send a new request) | same (send a request with the SAME id) | close (end the session, not resumable)
//            | open (open a non-resumed session) | none
//   npend  : how many requests are pending when the site fires (1, 2, 3, 7, 14: around libstdc++'s rehash thresholds)
//   (continuations are attached with a context object: QXmppTask::then(nullptr, …) never runs its continuation)
//
// The defects this part found (request lost / cancelled with the old session / use of freed map nodes, keys C07:reent:*) were fixed
// by repo commit c25989b; all scenarios must pass now, and the part stays as the regression net.
// Oracle (property text, no model): by the time the client has been destroyed every request ever issued — the original ones and
// the ones issued from inside continuations — has completed exactly once; no sanitizer report.
// Correspondence: a scenario that passes the oracle is also printed as `seq <op> ;; <op> …` lines for the Lean driver — the
// re-entrant body is modelled as the operation it performs, placed right after the completing operation (which is exactly what
// "detach the entry, then run the continuation" yields).  Observation: completions of the composite + number of pending requests.
#include "common.h"

#include "QXmppClient.h"
#include "QXmppClient_p.h"
#include "QXmppIq.h"
#include "QXmppLogger.h"
#include "QXmppOutgoingClient.h"
#include "QXmppOutgoingClient_p.h"
#include "QXmppStreamManagement_p.h"
#include "QXmppTask.h"

#include <QCoreApplication>
#include <QDomDocument>
#include <algorithm>
#include <memory>
#include <sys/wait.h>
#include <unistd.h>

#define QL(s) QStringLiteral(s)
using IqResult = QXmppClient::IqResult;

static QDomElement toDom(const QString &xml)
{
    QDomDocument doc;
    if (!doc.setContent(xml, true)) { fprintf(stderr, "harness bug: bad xml\n"); _exit(3); }
    return doc.documentElement();
}

class TestClient : public QXmppClient
{
public:
    explicit TestClient() : QXmppClient(QXmppClient::NoExtensions)
    {
        configuration().setJid(QStringLiteral("me@own.org/res"));
        d->stream->enableStreamManagement(true);
        QXmppStanza::s_uniqeIdNo = 0;
    }
    QXmppOutgoingClient *stream() const { return d->stream; }
    void inject(const QString &xml) { d->stream->handlePacketReceived(toDom(xml)); }
    void openSession(bool resumed, bool smEnabled)
    {
        auto &c2s = d->stream->c2sStreamManager();
        c2s.setResumed(resumed);
        c2s.setEnabled(smEnabled);
        d->stream->d->sessionStarted = false;
        d->stream->openSession();
    }
    void closeSession(bool canResume)
    {
        d->stream->c2sStreamManager().m_canResume = canResume;
        d->stream->closeSession();
    }
};

struct Scenario { std::string site, body; int npend; };

struct World {
    TestClient *c = nullptr;
    QObject *ctx = nullptr;
    std::vector<int> counts;          // completions per request number
    std::vector<std::string> hows;
    std::vector<std::pair<int, std::string>> stepDone;
    std::string bodyOp;               // the model op the body performed (for the composite line)
    int bodiesRun = 0;
    Scenario sc;

    std::string obs()
    {
        std::sort(stepDone.begin(), stepDone.end());
        std::string o;
        for (auto &d : stepDone) { if (!o.empty()) o += ","; o += std::to_string(d.first) + ":" + d.second; }
        int pend = 0;
        for (int x : counts) if (x == 0) pend++;
        stepDone.clear();
        return (o.empty() ? "-" : o) + "|n=" + std::to_string(pend);
    }

    static std::string classify(IqResult &r)
    {
        if (auto *el = std::get_if<QDomElement>(&r)) return "reply:" + el->attribute(QL("type")).toStdString() + ":" + el->attribute(QL("from")).toStdString();
        auto &e = std::get<QXmppError>(r);
        if (e.description.contains(QL("cancelled"))) return "cancelled";
        if (e.description.contains(QL("Invalid IQ id"))) return "refused-id";
        return "senderr";
    }
    int send(const QString &id, bool withBody)
    {
        int n = (int)counts.size();
        counts.push_back(0); hows.push_back("-");
        QXmppIq iq(QXmppIq::Get); iq.setId(id); iq.setTo(QStringLiteral("bob@rem.org/r"));
        auto task = c->sendIq(std::move(iq));
        task.then(ctx, [this, n, id, withBody](IqResult &&r) {
            counts[n]++; hows[n] = classify(r);
            stepDone.push_back({ n, hows[n] });
            // only the first original request carries the re-entrant body, and it runs once
            if (withBody && bodiesRun == 0) {
                bodiesRun++;
                if (sc.body == "new") { bodyOp = "send fresh bob@rem.org/r"; send(QStringLiteral("fresh"), false); }
                else if (sc.body == "same") { bodyOp = "send " + id.toStdString() + " bob@rem.org/r"; send(id, false); }
                else if (sc.body == "close") { bodyOp = "closed 0"; c->closeSession(false); }
                else if (sc.body == "open") { bodyOp = "opened 0 1"; c->openSession(false, true); }
            }
        });
        return n;
    }
};

// the child writes `op<TAB>obs` lines (composite ops as "seq a ;; b") and exits with 0 ok / 1 lost / 2 twice
static int runScenario(const Scenario &sc, int fd)
{
    World w; w.sc = sc;
    w.c = new TestClient;
    w.ctx = new QObject;
    std::string out;
    auto put = [&](const std::string &op) { out += "seq " + op + "\t" + w.obs() + "\n"; };
    for (int k = 0; k < sc.npend; k++) { w.send(QL("q") + QString::number(k), k == 0); put("send q" + std::to_string(k) + " bob@rem.org/r"); }
    std::string siteOp;
    if (sc.site == "response") {
        siteOp = "recv iq result q0 bob@rem.org/r";
        w.c->inject(QL("<iq xmlns='jabber:client' type='result' id='q0' from='bob@rem.org/r'><x xmlns='urn:verif:payload'/></iq>"));
    } else if (sc.site == "senderr") {
        siteOp = "fail q0";
        w.c->stream()->iqManager().finish(QL("q0"), QXmppError { QStringLiteral("Disconnected"), QXmpp::SendError::Disconnected });
    } else if (sc.site == "failall") { siteOp = "failall"; w.c->stream()->streamAckManager().resetCache(); }
    else if (sc.site == "opened") { siteOp = "opened 0 1"; w.c->openSession(false, true); }
    else if (sc.site == "closed") { siteOp = "closed 0"; w.c->closeSession(false); }
    else if (sc.site == "destroy") { siteOp = "destroy"; auto *c = w.c; delete c; w.c = nullptr; }
    // a request started while the requests of the OLD session are being cancelled belongs to the new session, which lives:
    // it must not be completed (cancelled) together with them
    bool spuriousCancel = sc.site == "opened" && (sc.body == "new" || sc.body == "same") && w.bodiesRun > 0 && w.counts.back() != 0;
    // resetCache() reports the unacknowledged packets one after the other; the body runs after the first report (q0's), and a
    // packet sent from inside it lands behind the running iteration in the ordered cache and is reported by the same call:
    // for the request table that is "q0's send fails; the body; the cache is reset"
    if (sc.site == "failall" && !w.bodyOp.empty()) { siteOp = "fail q0"; w.bodyOp += " ;; failall"; }
    put(siteOp + (w.bodyOp.empty() ? "" : " ;; " + w.bodyOp));
    // the end of every history: the client goes away; whatever is still pending must complete now
    if (w.c) { auto *c = w.c; delete c; w.c = nullptr; }
    put("destroy");
    delete w.ctx;
    std::string line;
    int lost = 0, twice = 0;
    for (size_t k = 0; k < w.counts.size(); k++) {
        line += (k ? "," : "") + std::to_string(k) + ":" + std::to_string(w.counts[k]) + ":" + w.hows[k];
        if (w.counts[k] == 0) lost++;
        if (w.counts[k] > 1) twice++;
    }
    out += "#" + line + "\n";
    (void)!write(fd, out.c_str(), out.size());
    return twice ? 2 : lost ? 1 : spuriousCancel ? 4 : 0;
}

int main(int argc, char **argv)
{
    // std::hash<QString> is seeded per process: fix the seed so that the iteration order of the request table (which decides how
    // today's iterate-while-mutating code misbehaves) is the same in every run
    qSetGlobalQHashSeed(0);
    QCoreApplication app(argc, argv);
    vh::Args a = vh::parseArgs(argc, argv);
    (void)a;
    std::vector<std::string> sites = { "response", "senderr", "failall", "opened", "closed", "destroy" };
    std::vector<std::string> bodies = { "none", "new", "same", "close", "open" };
    std::vector<int> npends = { 1, 2, 3, 7, 14 };
    for (auto &site : sites) for (auto &body : bodies) for (int np : npends) {
        // calling into a client that is being destroyed is the caller's error: no body at the destruction site
        if (site == "destroy" && body != "none") continue;
        Scenario sc { site, body, np };
        std::string name = site + " body=" + body + " pending=" + std::to_string(np);
        printf("I %s\n", name.c_str());
        fflush(stdout);
        int p[2];
        if (pipe(p) != 0) return 3;
        pid_t pid = fork();
        if (pid == 0) {
            close(p[0]);
            int rc = runScenario(sc, p[1]);
            _exit(rc);
        }
        close(p[1]);
        char buf[4096]; std::string out; ssize_t n;
        while ((n = read(p[0], buf, sizeof buf)) > 0) out.append(buf, n);
        close(p[0]);
        int st = 0;
        waitpid(pid, &st, 0);
        // split the child's report: op/obs lines, then "#<completions per request>"
        std::vector<std::pair<std::string, std::string>> lines;
        std::string summary;
        {
            size_t pos = 0;
            while (pos < out.size()) {
                size_t nl = out.find('\n', pos);
                std::string l = out.substr(pos, nl == std::string::npos ? std::string::npos : nl - pos);
                pos = nl == std::string::npos ? out.size() : nl + 1;
                if (l.empty()) continue;
                if (l[0] == '#') summary = l.substr(1);
                else { auto t = l.find('\t'); lines.push_back({ l.substr(0, t), l.substr(t + 1) }); }
            }
        }
        out = summary;
        vh::stat("reent_scenarios");
        if (WIFSIGNALED(st) || (WIFEXITED(st) && (WEXITSTATUS(st) == 99 || WEXITSTATUS(st) == 98))) {
            vh::oracleFail("C07:reent:memory-error", name + (WIFSIGNALED(st) ? " signal " + std::to_string(WTERMSIG(st)) : " sanitizer report") + " [" + out + "]");
            vh::stat("reent_memory_errors");
        } else if (WIFEXITED(st) && WEXITSTATUS(st) == 1) {
            vh::oracleFail("C07:reent:request-lost", name + " completions per request (n:count:how) [" + out + "]");
            vh::stat("reent_lost");
        } else if (WIFEXITED(st) && WEXITSTATUS(st) == 4) {
            vh::oracleFail("C07:reent:new-request-cancelled", name + ": the request started from inside the continuation was cancelled together with the old session's requests [" + out + "]");
        } else if (WIFEXITED(st) && WEXITSTATUS(st) == 2) {
            vh::oracleFail("C07:reent:completed-twice", name + " [" + out + "]");
        } else if (WIFEXITED(st) && WEXITSTATUS(st) == 0) {
            vh::oraclePass()++;
            if (body != "none") vh::sample(name + " => " + out);
            // correspondence with the model: every passing scenario
            {
                vh::corr("reset iq me@own.org 0 1", "ok");
                for (auto &l : lines) vh::corr(l.first, l.second);
                vh::stat("reent_corr_sequences");
            }
        } else {
            vh::oracleFail("C07:reent:harness-error", name + " exit " + std::to_string(WEXITSTATUS(st)));
        }
    }
    vh::finish();
    return 0;
}
