// C14 harness: drives the real QXmppStunMessage::encode/decode, QXmppUtils::generateHmacSha1/generateCrc32.
//
// Correspondence lines (fed to qxdriver_c14, which runs the Lean model):
//   enc <msg> <key> <fp>  -> hex of encode()           (message built through the public setters/members)
//   dec <hex> <key>       -> fail | ok fits=<0|1> <msg> (fresh QXmppStunMessage().decode(); fields printed one by one)
//   hmac <key> <text>     -> generateHmacSha1          crc <hex> -> generateCrc32
// Oracle (independent of the Lean model; reference HMAC = Qt's QMessageAuthenticationCode, reference CRC = bitwise
// loop below; python hmac/zlib re-check the `V` lines in props/C14.py):
//   round trip, MESSAGE-INTEGRITY = RFC 2104 HMAC-SHA1 of the length-adjusted prefix, FINGERPRINT = CRC-32 ^ 0x5354554e,
//   every single-bit flip of the protected bytes rejected, every other (non-empty) key rejected, accepted packets have
//   all attributes inside the buffer; arbitrary / mutated bytes through decode with `I <hex>` printed first (ASan names it).
#include "common.h"
#include "QXmppStun.h"
#include "QXmppUtils.h"
#include <QByteArray>
#include <QCoreApplication>
#include <QCryptographicHash>
#include <QHostAddress>
#include <QMessageAuthenticationCode>
#include <QSet>
#include <QString>
#include <QStringList>
#include <optional>
#include <string>

using namespace vh;

// ---- legal access to the private attribute set (explicit instantiation may name private members)
template<typename Tag, typename Tag::type M> struct Rob { friend typename Tag::type get(Tag) { return M; } };
struct AttrTag { typedef QSet<quint16> QXmppStunMessage::*type; friend type get(AttrTag); };
template struct Rob<AttrTag, &QXmppStunMessage::m_attributes>;
static const QSet<quint16> &attrsOf(const QXmppStunMessage &m) { return m.*get(AttrTag()); }

// attribute numbers (RFC 5389 / 5766 / 5245 / 5780) — the harness' own copy; the model's come from the translator
enum : quint16 { A_Mapped = 0x0001, A_ChangeRequest = 0x0003, A_Source = 0x0004, A_Changed = 0x0005, A_Username = 0x0006,
    A_MI = 0x0008, A_Error = 0x0009, A_Channel = 0x000c, A_Lifetime = 0x000d, A_XorPeer = 0x0012, A_Data = 0x0013,
    A_Realm = 0x0014, A_Nonce = 0x0015, A_XorRelayed = 0x0016, A_ReqTransport = 0x0019, A_XorMapped = 0x0020,
    A_Token = 0x0022, A_Priority = 0x0024, A_UseCandidate = 0x0025, A_Software = 0x8022, A_FP = 0x8028,
    A_IceControlled = 0x8029, A_IceControlling = 0x802a, A_Other = 0x802c };
static const quint16 knownTypes[] = { A_Mapped, A_ChangeRequest, A_Source, A_Changed, A_Username, A_MI, A_Error, A_Channel,
    A_Lifetime, A_XorPeer, A_Data, A_Realm, A_Nonce, A_XorRelayed, 0x0018, A_ReqTransport, A_XorMapped, A_Token, A_Priority,
    A_UseCandidate, A_Software, A_FP, A_IceControlled, A_IceControlling, A_Other };

static std::string hx(const QByteArray &b) { return hex(reinterpret_cast<const unsigned char *>(b.constData()), size_t(b.size())); }
static std::string hxArg(const QByteArray &b) { return b.isEmpty() ? "-" : hx(b); }

// ---- the generated message (mirror of the Lean structure Msg)
struct GAddr { int kind = 0; quint32 v4 = 0; QByteArray v6; quint16 port = 0; };  // kind 0 null, 4, 6
struct GMsg {
    quint16 type = 0; quint32 cookie = 0x2112A442; QByteArray id = QByteArray(12, 0);
    GAddr mapped, source, changed, other, xorMapped, xorPeer, xorRelayed;
    std::optional<quint32> changeRequest, priority, lifetime;
    std::optional<quint16> channelNumber;
    std::optional<quint8> requestedTransport;
    std::optional<QByteArray> data, nonce, token, realm, software, username;  // strings: UTF-8 of the QString
    int errorCode = 0; QByteArray errorPhrase;
    bool useCandidate = false;
    QByteArray iceControlling, iceControlled;
    bool wf = true;        // inside WFMsg of the model (round trip expected)
    int strQuirk = 0;      // 1: some string contains NUL (cut before /repo commit bdc4d1e), 2: some string starts with a BOM
};

static QHostAddress toHost(const GAddr &a) {
    if (a.kind == 4) return QHostAddress(a.v4);
    if (a.kind == 6) { Q_IPV6ADDR x; for (int i = 0; i < 16; i++) x[i] = quint8(a.v6[i]); return QHostAddress(x); }
    return QHostAddress();
}
static QString qs(const QByteArray &utf8) {
    // QString::fromUtf8 drops a leading BOM; a QString can hold U+FEFF, so build it explicitly
    if (utf8.startsWith("\xEF\xBB\xBF")) return QString(QChar(0xFEFF)) + QString::fromUtf8(utf8.constData() + 3, utf8.size() - 3);
    return QString::fromUtf8(utf8.constData(), utf8.size());
}

static void apply(const GMsg &g, QXmppStunMessage &m) {
    m.setType(g.type); m.setCookie(g.cookie); m.setId(g.id);
    m.mappedHost = toHost(g.mapped); m.mappedPort = g.mapped.port;
    m.sourceHost = toHost(g.source); m.sourcePort = g.source.port;
    m.changedHost = toHost(g.changed); m.changedPort = g.changed.port;
    m.otherHost = toHost(g.other); m.otherPort = g.other.port;
    m.xorMappedHost = toHost(g.xorMapped); m.xorMappedPort = g.xorMapped.port;
    m.xorPeerHost = toHost(g.xorPeer); m.xorPeerPort = g.xorPeer.port;
    m.xorRelayedHost = toHost(g.xorRelayed); m.xorRelayedPort = g.xorRelayed.port;
    if (g.changeRequest) m.setChangeRequest(*g.changeRequest);
    if (g.priority) m.setPriority(*g.priority);
    if (g.lifetime) m.setLifetime(*g.lifetime);
    if (g.channelNumber) m.setChannelNumber(*g.channelNumber);
    if (g.requestedTransport) m.setRequestedTransport(*g.requestedTransport);
    if (g.data) m.setData(*g.data);
    if (g.nonce) m.setNonce(*g.nonce);
    if (g.token) m.setReservationToken(*g.token);
    if (g.realm) m.setRealm(qs(*g.realm));
    if (g.software) m.setSoftware(qs(*g.software));
    if (g.username) m.setUsername(qs(*g.username));
    m.errorCode = g.errorCode; m.errorPhrase = qs(g.errorPhrase);
    m.useCandidate = g.useCandidate;
    m.iceControlling = g.iceControlling; m.iceControlled = g.iceControlled;
}

// ---- canonical text of a message (same format as showMsg in lean/Driver/C14.lean)
static std::string showAddr(const QHostAddress &h, quint16 port, bool mask) {
    std::string s;
    if (h.isNull()) s = "n";
    else if (h.protocol() == QAbstractSocket::IPv4Protocol) s = "4." + std::to_string(h.toIPv4Address());
    else if (h.protocol() == QAbstractSocket::IPv6Protocol) {
        if (mask) s = "6.?";
        else { Q_IPV6ADDR x = h.toIPv6Address(); s = "6." + hex(reinterpret_cast<const unsigned char *>(&x), 16); }
    } else s = "other";
    return s + ":" + std::to_string(port);
}
static std::string showOB(bool present, const QByteArray &b, bool mask) {
    if (!present) return "-";
    return mask ? "x?" + std::to_string(b.size()) : "x" + hx(b);
}
static std::string showB(const QByteArray &b, bool mask) { return mask ? "?" + std::to_string(b.size()) : hx(b); }

static std::string showMsg(const QXmppStunMessage &m, bool mask) {
    const QSet<quint16> &A = attrsOf(m);
    auto on = [&](quint16 a, unsigned long long v) { return A.contains(a) ? std::to_string(v) : std::string("-"); };
    std::string s;
    s += "ty=" + std::to_string(m.type());
    s += ";ck=" + std::to_string(m.cookie());
    s += ";id=" + hx(m.id());
    s += ";ma=" + showAddr(m.mappedHost, m.mappedPort, mask);
    s += ";cr=" + on(A_ChangeRequest, m.changeRequest());
    s += ";so=" + showAddr(m.sourceHost, m.sourcePort, mask);
    s += ";ch=" + showAddr(m.changedHost, m.changedPort, mask);
    s += ";ot=" + showAddr(m.otherHost, m.otherPort, mask);
    s += ";xm=" + showAddr(m.xorMappedHost, m.xorMappedPort, mask);
    s += ";xp=" + showAddr(m.xorPeerHost, m.xorPeerPort, mask);
    s += ";xr=" + showAddr(m.xorRelayedHost, m.xorRelayedPort, mask);
    s += ";ec=" + std::to_string(m.errorCode);
    s += ";ep=" + hx(m.errorPhrase.toUtf8());
    s += ";pr=" + on(A_Priority, m.priority());
    s += std::string(";uc=") + (m.useCandidate ? "1" : "0");
    s += ";cn=" + on(A_Channel, m.channelNumber());
    s += ";da=" + showOB(A.contains(A_Data), m.data(), mask);
    s += ";lt=" + on(A_Lifetime, m.lifetime());
    s += ";no=" + showOB(A.contains(A_Nonce), m.nonce(), mask);
    s += ";re=" + showOB(A.contains(A_Realm), m.realm().toUtf8(), false);
    s += ";rt=" + (A.contains(A_ReqTransport) ? std::to_string(m.requestedTransport()) : std::string("-"));
    s += ";tk=" + showOB(A.contains(A_Token), m.reservationToken(), mask);
    s += ";sw=" + showOB(A.contains(A_Software), m.software().toUtf8(), false);
    s += ";un=" + showOB(A.contains(A_Username), m.username().toUtf8(), false);
    s += ";ig=" + showB(m.iceControlling, mask);
    s += ";id2=" + showB(m.iceControlled, mask);
    return s;
}

// ---- independent references
static quint32 crcBitwise(const QByteArray &b) {
    quint32 c = 0xffffffffu;
    for (char ch : b) {
        c ^= quint8(ch);
        for (int i = 0; i < 8; i++) c = (c & 1) ? (c >> 1) ^ 0xEDB88320u : (c >> 1);
    }
    return c ^ 0xffffffffu;
}
static QByteArray hmacRef(const QByteArray &key, const QByteArray &text) {
    return QMessageAuthenticationCode::hash(text, key, QCryptographicHash::Sha1);
}
static quint16 be16(const QByteArray &b, int p) { return quint16((quint8(b[p]) << 8) | quint8(b[p + 1])); }
static void put16(QByteArray &b, int p, quint16 v) { b[p] = char(v >> 8); b[p + 1] = char(v & 0xff); }

// plain TLV walk, stopping at the first FINGERPRINT: does every attribute header and value lie inside the packet?
// (the padding of the last attribute may be cut off: that is what the bounds check of /repo commit df53ac0 demands)
struct Tlv { int pos; quint16 type; quint16 len; };
static bool tlvWalk(const QByteArray &b, std::vector<Tlv> *out = nullptr) {
    int pos = 20;
    while (pos < b.size()) {
        if (b.size() - pos < 4) return false;
        quint16 t = be16(b, pos), l = be16(b, pos + 2);
        int n = l + (4 - l % 4) % 4;
        if (b.size() - pos - 4 < l) return false;
        if (out) out->push_back({ pos, t, l });
        if (t == A_FP) return true;
        pos += 4 + n;
    }
    return true;
}

// at most 12 replays per key are printed (the rest is counted): the decision only needs the key, the evidence a few inputs
static void ofail(const std::string &key, const std::string &replay) {
    static std::map<std::string, int> n;
    stat("oracle-fail:" + key);
    if (n[key]++ < 12) oracleFail(key, replay);
}
// the walk of hasMessageIntegrity() in QXmppStun.cpp (/repo commit f41aa68), which QXmppIceComponent applies before decode():
// is there a MESSAGE-INTEGRITY attribute before any FINGERPRINT?  decode() && hasMI() is the "authenticated decode" of the model.
static bool hasMI(const QByteArray &b) {
    int off = 20;
    while (off + 4 <= b.size()) {
        quint16 t = be16(b, off), l = be16(b, off + 2);
        if (t == A_MI) return true;
        if (t == A_FP) return false;
        off += 4 + 4 * ((l + 3) / 4);
    }
    return false;
}
static void vline(const std::string &s) {  // at most 400 per kind (mi / fp / hmac / crc)
    static std::map<std::string, int> n;
    if (n[s.substr(0, 3)]++ < 400) printf("V %s\n", s.c_str());
}

static bool decodeLine(const QByteArray &buf, const QByteArray &key, bool announce, QXmppStunMessage *outMsg = nullptr, bool emitLine = true) {
    if (announce) { printf("I %s %s\n", hx(buf).c_str(), hxArg(key).c_str()); fflush(stdout); }
    QXmppStunMessage m;
    bool ok = m.decode(buf, key);
    if (emitLine) {
        if (!ok) corr("dec " + hxArg(buf) + " " + hxArg(key), "fail");
        else {
            bool fits = tlvWalk(buf);
            corr("dec " + hxArg(buf) + " " + hxArg(key), std::string("ok fits=") + (fits ? "1 " : "0 ") + showMsg(m, !fits));
        }
    }
    if (ok && !tlvWalk(buf)) {
        stat("accepted-with-attribute-beyond-buffer");
        ofail("C14:attr-length-beyond-buffer", "decode accepted " + hx(buf) + " key=" + hxArg(key));
    } else if (ok) oraclePass()++;
    if (outMsg) *outMsg = m;
    return ok;
}

// ---- generators
static QByteArray randBytes(Rng &r, int n) { QByteArray b(n, 0); for (int i = 0; i < n; i++) b[i] = char(r.below(256)); return b; }
static int randLen(Rng &r) {
    uint32_t c = r.below(100);
    if (c < 55) return int(r.below(10));
    if (c < 85) return int(r.below(64));
    if (c < 97) return int(r.below(400));
    return int(r.below(3000));
}
static void appendCp(QByteArray &b, uint32_t c) {
    if (c < 0x80) b += char(c);
    else if (c < 0x800) { b += char(0xC0 | (c >> 6)); b += char(0x80 | (c & 63)); }
    else if (c < 0x10000) { b += char(0xE0 | (c >> 12)); b += char(0x80 | ((c >> 6) & 63)); b += char(0x80 | (c & 63)); }
    else { b += char(0xF0 | (c >> 18)); b += char(0x80 | ((c >> 12) & 63)); b += char(0x80 | ((c >> 6) & 63)); b += char(0x80 | (c & 63)); }
}
// well-formed UTF-8 without NUL and without leading BOM, of exactly n bytes
static QByteArray randStr(Rng &r, int n) {
    QByteArray b;
    while (b.size() < n) {
        int left = n - b.size();
        uint32_t k = r.below(20);
        if (k == 0 && left >= 2) appendCp(b, 0x80 + r.below(0x780));
        else if (k == 1 && left >= 3) { uint32_t c = 0x800 + r.below(0xF800); if (c >= 0xD800 && c < 0xE000) c = 0x20AC; if (c == 0xFEFF && b.isEmpty()) c = 0x20AC; appendCp(b, c); }
        else if (k == 2 && left >= 4) appendCp(b, 0x10000 + r.below(0x100000));
        else b += char(0x20 + r.below(0x5f));
    }
    return b;
}
static GAddr randAddr(Rng &r) {
    GAddr a; uint32_t k = r.below(10);
    if (k < 5) { a.kind = 4; a.v4 = r.coin() ? uint32_t(r.next()) : (r.coin() ? 0u : 0xffffffffu); }
    else { a.kind = 6; a.v6 = randBytes(r, 16); if (r.below(4) == 0) { a.v6 = QByteArray(10, 0) + QByteArray(2, char(0xff)) + randBytes(r, 4); } }
    a.port = quint16(1 + r.below(65535));
    return a;
}
static quint32 rand32(Rng &r) { uint32_t k = r.below(8); return k == 0 ? 0u : k == 1 ? 0xffffffffu : uint32_t(r.next()); }

static GMsg randMsg(Rng &r, int density) {  // density: percent chance of each attribute
    GMsg g;
    static const quint16 methods[] = { 1, 2, 3, 4, 6, 7, 8, 9 };
    static const quint16 classes[] = { 0x000, 0x010, 0x100, 0x110 };
    g.type = r.below(5) ? quint16(methods[r.below(8)] | classes[r.below(4)]) : quint16(r.below(65536));
    g.cookie = r.below(6) ? 0x2112A442u : uint32_t(r.next());
    g.id = randBytes(r, 12);
    auto p = [&] { return int(r.below(100)) < density; };
    if (p()) g.mapped = randAddr(r);
    if (p()) g.source = randAddr(r);
    if (p()) g.changed = randAddr(r);
    if (p()) g.other = randAddr(r);
    if (p()) g.xorMapped = randAddr(r);
    if (p()) g.xorPeer = randAddr(r);
    if (p()) g.xorRelayed = randAddr(r);
    if (p()) g.changeRequest = rand32(r);
    if (p()) g.priority = rand32(r);
    if (p()) g.lifetime = rand32(r);
    if (p()) g.channelNumber = quint16(r.below(4) ? r.below(65536) : 0xffff);
    if (p()) g.requestedTransport = quint8(r.below(3) ? 17 : r.below(256));
    if (p()) g.data = randBytes(r, randLen(r));
    if (p()) g.nonce = randBytes(r, randLen(r));
    if (p()) g.token = randBytes(r, 8);
    if (p()) g.realm = randStr(r, randLen(r));
    if (p()) g.software = randStr(r, randLen(r));
    if (p()) g.username = randStr(r, randLen(r));
    if (p()) { g.errorCode = r.below(4) ? int(300 + r.below(400)) : int(1 + r.below(25599)); g.errorPhrase = randStr(r, randLen(r)); }
    if (p()) g.useCandidate = true;
    if (p()) { if (r.coin()) g.iceControlling = randBytes(r, 8); else g.iceControlled = randBytes(r, 8); }
    return g;
}
// messages outside WFMsg: the model must still agree with encode/decode; no round trip is demanded
static GMsg randOddMsg(Rng &r) {
    GMsg g = randMsg(r, 25); g.wf = false;
    switch (r.below(9)) {
    case 0: g.mapped = randAddr(r); g.mapped.port = 0; break;                     // host without port: silently dropped
    case 1: g.xorPeer = GAddr(); g.xorPeer.port = quint16(1 + r.below(65535)); break;  // port without host
    case 2: g.iceControlling = randBytes(r, 8); g.iceControlled = randBytes(r, 8); break;
    case 3: g.iceControlling = randBytes(r, 1 + int(r.below(12))); break;         // not 8 bytes: written unpadded
    case 4: g.iceControlled = randBytes(r, 1 + int(r.below(12))); break;
    case 5: g.errorCode = r.coin() ? -int(r.below(30000)) : int(25600 + r.below(100000)); g.errorPhrase = randStr(r, randLen(r)); break;
    case 6: g.errorCode = 0; g.errorPhrase = randStr(r, 1 + int(r.below(9))); break;
    case 7: { QByteArray s = randStr(r, int(r.below(8))); s += char(0); s += randStr(r, int(r.below(8))); g.username = s; g.strQuirk = 1; break; }
    default: { QByteArray s("\xEF\xBB\xBF"); s += randStr(r, int(r.below(8))); g.realm = s; g.strQuirk = 2; break; }
    }
    return g;
}
static std::string showG(const GMsg &g) { QXmppStunMessage m; apply(g, m); return showMsg(m, false); }

// ---- one generated message: encode, oracles, decode, other keys, bit flips
struct Ctx { Rng &rng; bool thorough; long flipBudget; std::vector<std::pair<QByteArray, QByteArray>> pool; };

static void runMessage(Ctx &c, const GMsg &g, const QByteArray &key, bool fp, int flipMode /*0 none,1 all bits,2 sampled*/) {
    Rng &rng = c.rng;
    corr("reset", "ok");
    QXmppStunMessage m; apply(g, m);
    const std::string spec = showMsg(m, false);
    printf("I encode/decode/bit flips of message %s key=%s fp=%d\n", spec.c_str(), hxArg(key).c_str(), fp ? 1 : 0); fflush(stdout);
    const QByteArray enc = m.encode(key, fp);
    corr("enc " + spec + " " + hxArg(key) + " " + (fp ? "1" : "0"), hx(enc));
    sample("enc " + spec.substr(0, 300) + " key[" + std::to_string(key.size()) + "] fp=" + (fp ? "1" : "0") + " -> " + hx(enc).substr(0, 160));
    stat("messages"); stat(std::string("messages-") + (key.isEmpty() ? "nokey" : key.size() <= 64 ? "key<=64" : "key>64") + (fp ? "-fp" : "-nofp"));
    stat("encoded-bytes", enc.size());
    if (int(c.pool.size()) < 400) c.pool.push_back({ enc, key });

    // where MI / FP sit according to the construction
    const int fpPos = fp ? enc.size() - 8 : -1;
    const int miPos = key.isEmpty() ? -1 : (fp ? enc.size() - 8 - 24 : enc.size() - 24);
    const std::string rep = "msg=" + spec + " key=" + hxArg(key) + " fp=" + (fp ? "1" : "0") + " enc=" + hx(enc);

    // MESSAGE-INTEGRITY is the RFC 2104 HMAC-SHA1 of the prefix with the adjusted length
    if (miPos >= 0) {
        QByteArray pre = enc.left(miPos); put16(pre, 2, quint16(miPos - 20 + 24));
        const QByteArray mac = enc.mid(miPos + 4, 20);
        bool hdrOk = be16(enc, miPos) == A_MI && be16(enc, miPos + 2) == 20;
        vline("mi " + hxArg(key) + " " + hx(pre) + " " + hx(mac));
        if (hdrOk && mac == hmacRef(key, pre)) oraclePass()++;
        else ofail(key.size() > 64 && hdrOk ? "C14:hmac-long-key" : "C14:mi-not-rfc2104", rep);
    }
    if (fpPos >= 0) {
        QByteArray pre = enc.left(fpPos); put16(pre, 2, quint16(fpPos - 20 + 8));
        quint32 v = (quint32(be16(enc, fpPos + 4)) << 16) | be16(enc, fpPos + 6);
        vline("fp " + hx(pre) + " " + std::to_string(v));
        if (be16(enc, fpPos) == A_FP && be16(enc, fpPos + 2) == 4 && v == (crcBitwise(pre) ^ 0x5354554eu)) oraclePass()++;
        else ofail("C14:fp-not-crc32", rep);
    }
    // length field, alignment
    if (be16(enc, 2) == enc.size() - 20 && (!g.wf || enc.size() % 4 == 0)) oraclePass()++;
    else ofail("C14:bad-length-or-alignment", rep);

    // round trip
    QXmppStunMessage d;
    bool ok = decodeLine(enc, key, false, &d);
    if (g.wf) {
        if (ok && showMsg(d, false) == spec) oraclePass()++;
        else ofail("C14:roundtrip", rep + " decoded=" + (ok ? showMsg(d, false) : "fail"));
    } else if (g.strQuirk) {
        if (ok && showMsg(d, false) == spec) oraclePass()++;
        else ofail(g.strQuirk == 1 ? "C14:roundtrip-string-nul" : "C14:roundtrip-string-bom", rep + " decoded=" + (ok ? showMsg(d, false) : "fail"));
    }
    // decoding without a key skips the HMAC check but must give the same fields
    if (!key.isEmpty() && g.wf) {
        QXmppStunMessage d0; bool ok0 = decodeLine(enc, QByteArray(), false, &d0);
        if (ok0 && showMsg(d0, false) == spec) oraclePass()++; else ofail("C14:roundtrip", rep + " (decoded without key)");
    }

    // other keys
    if (miPos >= 0) {
        std::vector<QByteArray> others;
        others.push_back(randBytes(rng, 1 + int(rng.below(80))));
        { QByteArray k = key; int i = int(rng.below(uint32_t(qMin(k.size(), 64)))); k[i] = k[i] ^ char(1 << rng.below(8)); others.push_back(k); }
        { QByteArray k = key; k += char(1 + rng.below(255)); if (key.size() < 64) others.push_back(k); }          // longer by a non-zero byte
        { QByteArray k = key; k.chop(1); if (!k.isEmpty() && key.size() <= 64 && key[key.size() - 1] != 0) others.push_back(k); }
        for (const QByteArray &k : others) {
            if (k == key || k.isEmpty()) continue;
            bool acc = decodeLine(enc, k, false);
            stat("other-key-tried");
            if (!acc) oraclePass()++; else ofail("C14:wrong-key-accepted", rep + " otherkey=" + hx(k));
        }
        if (key.size() > 64) {  // keys that differ only behind byte 64
            QByteArray k = key; int i = 64 + int(rng.below(uint32_t(key.size() - 64))); k[i] = k[i] ^ char(1 << rng.below(8));
            bool acc = decodeLine(enc, k, false);
            stat("other-key-tried-long-tail");
            if (!acc) oraclePass()++; else ofail("C14:wrong-key-accepted", rep + " otherkey=" + hx(k) + " (differs from the key only at byte " + std::to_string(i) + ")");
        }
        if (key.size() < 64 && key[key.size() - 1] != 0) {  // zero padded key: RFC 2104 itself treats it as the same key
            QByteArray k = key + QByteArray(1, 0); bool acc = decodeLine(enc, k, false);
            stat(acc ? "zero-extended-key-accepted(rfc2104-equivalent)" : "zero-extended-key-rejected");
        }
    }

    // single-bit flips
    if (flipMode && (miPos >= 0 || fpPos >= 0)) {
        std::vector<Tlv> tl; tlvWalk(enc, &tl);
        std::vector<char> isLenField(size_t(enc.size()), 0);
        for (const Tlv &t : tl) { isLenField[size_t(t.pos + 2)] = 1; isLenField[size_t(t.pos + 3)] = 1; }
        const long nbits = long(enc.size()) * 8;
        long step = 1;
        if (flipMode == 2 || nbits > c.flipBudget) step = qMax<long>(1, nbits / qMax<long>(64, qMin<long>(c.flipBudget, 1500)));
        long corrEvery = qMax<long>(1, (nbits / step) / 24);
        long idx = 0;
        for (long bit = long(rng.below(uint32_t(step))); bit < nbits; bit += step, idx++) {
            int byte = int(bit / 8);
            // protected by MESSAGE-INTEGRITY (the property's claim): everything before the attribute plus its length and
            // value.  FINGERPRINT is no authentication: a decoder cannot know that one was meant to be there, so a flip that
            // makes it unreachable (attribute length fields) is inherently undetectable when there is no key; any other
            // flip before FINGERPRINT, or in its length/value, leaves it reachable and must fail the CRC.
            // The two type bytes of MI / FP themselves are covered by neither check.
            bool prot = false;
            if (miPos >= 0 && (byte < miPos || (byte >= miPos + 2 && byte < miPos + 24))) prot = true;
            if (fpPos >= 0 && (byte < fpPos || byte >= fpPos + 2) && (miPos >= 0 || byte < 20 || !isLenField[size_t(byte)])) prot = true;
            QByteArray f = enc; f[byte] = f[byte] ^ char(1 << (bit % 8));
            QXmppStunMessage fm; bool acc = fm.decode(f, key);
            stat("bitflips");
            bool emitLine = (idx % corrEvery == 0) || acc;
            if (emitLine) {
                if (!acc) corr("dec " + hx(f) + " " + hxArg(key), "fail");
                else { bool fits = tlvWalk(f); corr("dec " + hx(f) + " " + hxArg(key), std::string("ok fits=") + (fits ? "1 " : "0 ") + showMsg(fm, !fits)); }
            }
            if (miPos >= 0 && byte >= miPos + 24 && acc) {  // theorem tamper_behind_mi_keeps_message
                if (showMsg(fm, false) == spec || !g.wf) oraclePass()++; else ofail("C14:bitflip-behind-mi-changed-message", "flip bit " + std::to_string(bit % 8) + " of byte " + std::to_string(byte) + " of " + hx(enc) + " key=" + hxArg(key));
            }
            if (!prot) { stat(acc ? "bitflip-unprotected-accepted" : "bitflip-unprotected-rejected"); continue; }
            if (!acc) { oraclePass()++; stat("bitflip-protected-rejected"); continue; }
            stat("bitflip-protected-ACCEPTED");
            std::string frep = "flip bit " + std::to_string(bit % 8) + " of byte " + std::to_string(byte) + " of " + hx(enc) + " key=" + hxArg(key) + " fp=" + (fp ? "1" : "0");
            // theorem tamper_rejected_by_authenticated_decode: accepted AND MESSAGE-INTEGRITY present is impossible
            if (miPos >= 0 && byte < miPos + 24 && hasMI(f)) { stat("bitflip-accepted-with-integrity"); ofail("C14:bitflip-accepted:authenticated", frep); continue; }
            if (miPos >= 0 && byte < miPos + 24) stat("bitflip-accepted-but-no-integrity-attribute(authenticated decode rejects)");
            // with a key: Error / Indication packets may come without MESSAGE-INTEGRITY by RFC (exempt in fixes/C14-bitflip-accepted-v2.diff);
            // for Request / Response packets the accept is the defect that diff repairs
            const bool exempt = miPos >= 0 && (fm.messageClass() == QXmppStunMessage::Error || fm.messageClass() == QXmppStunMessage::Indication);
            if (miPos >= 0) stat(exempt ? "bitflip-accepted-class-error-or-indication" : "bitflip-accepted-class-request-or-response");
            if (exempt && byte >= 20 && isLenField[size_t(byte)] && byte < miPos) { ofail("C14:bitflip-accepted:error-or-indication", frep + " (attribute length field swallows MESSAGE-INTEGRITY; class " + std::to_string(fm.messageClass()) + " is accepted without it)"); continue; }
            if (byte >= 20 && isLenField[size_t(byte)] && byte < (miPos >= 0 ? miPos : fpPos)) ofail("C14:bitflip-accepted", frep + " (attribute length field: the walk never reaches MESSAGE-INTEGRITY/FINGERPRINT)");
            else ofail("C14:bitflip-accepted:not-a-length-field", frep);
        }
        c.flipBudget -= nbits / step;
    }
}

// ---- arbitrary and mutated bytes
static QByteArray tlv(quint16 t, const QByteArray &v, int announced = -1, bool pad = true) {
    QByteArray b(4, 0); put16(b, 0, t); put16(b, 2, quint16(announced < 0 ? v.size() : announced)); b += v;
    if (pad) while (b.size() % 4) b += char(0);
    return b;
}
static QByteArray withHeader(Rng &r, const QByteArray &body, bool fixLen = true) {
    QByteArray b(20, 0); put16(b, 0, quint16(r.below(4) ? 0x0001 : r.below(65536)));
    put16(b, 2, quint16(fixLen ? body.size() : r.below(65536)));
    b[4] = 0x21; b[5] = 0x12; b[6] = char(0xA4); b[7] = 0x42;
    QByteArray id = randBytes(r, 12); for (int i = 0; i < 12; i++) b[8 + i] = id[i];
    return b + body;
}
static QByteArray structured(Rng &r, const QByteArray &key) {
    QByteArray body; int n = int(r.below(6));
    for (int i = 0; i < n; i++) {
        quint16 t = r.below(8) ? knownTypes[r.below(sizeof knownTypes / sizeof *knownTypes)] : quint16(r.below(65536));
        int vlen; uint32_t k = r.below(10);
        if (k < 4) { static const int L[] = { 0, 4, 8, 20 }; vlen = L[r.below(4)]; } else if (k < 8) vlen = int(r.below(24)); else vlen = int(r.below(200));
        QByteArray v = randBytes(r, vlen);
        if ((t == A_Mapped || t == A_XorMapped || t == A_XorPeer || t == A_Other) && v.size() >= 2 && r.below(4)) { v[0] = 0; v[1] = char(1 + r.below(2)); }
        int ann = -1; uint32_t q = r.below(12);
        if (q == 0) ann = vlen + 1 + int(r.below(40)); else if (q == 1) ann = int(r.below(65536)); else if (q == 2 && vlen) ann = vlen - 1;
        body += tlv(t, v, ann, r.below(10) != 0);
    }
    QByteArray b = withHeader(r, body, r.below(12) != 0);
    uint32_t k = r.below(6);
    if (k == 0 && !key.isEmpty()) {  // correct MESSAGE-INTEGRITY computed by the reference HMAC
        QByteArray pre = b; put16(pre, 2, quint16(pre.size() - 20 + 24)); b = pre + tlv(A_MI, hmacRef(key, pre));
        if (r.coin()) {  // attributes behind MESSAGE-INTEGRITY (must be skipped), then perhaps a correct FINGERPRINT
            int extra = 1 + int(r.below(2));
            for (int i = 0; i < extra; i++) b += tlv(knownTypes[r.below(sizeof knownTypes / sizeof *knownTypes)], randBytes(r, int(r.below(3)) * 4));
            put16(b, 2, quint16(b.size() - 20));
            if (r.coin()) {
                QByteArray p2 = b; put16(p2, 2, quint16(p2.size() - 20 + 8)); quint32 v = crcBitwise(p2) ^ 0x5354554eu;
                QByteArray val(4, 0); put16(val, 0, quint16(v >> 16)); put16(val, 2, quint16(v)); b = p2 + tlv(A_FP, val);
            }
            stat("arbitrary-attributes-after-integrity");
        }
    } else if (k == 1) {            // correct FINGERPRINT
        QByteArray pre = b; put16(pre, 2, quint16(pre.size() - 20 + 8)); quint32 v = crcBitwise(pre) ^ 0x5354554eu;
        QByteArray val(4, 0); put16(val, 0, quint16(v >> 16)); put16(val, 2, quint16(v)); b = pre + tlv(A_FP, val);
        if (r.below(3) == 0) { b += randBytes(r, int(r.below(12))); put16(b, 2, quint16(b.size() - 20)); }  // bytes behind FINGERPRINT
    }
    return b;
}
static QByteArray mutate(Rng &r, QByteArray b) {
    int n = 1 + int(r.below(3));
    for (int i = 0; i < n && !b.isEmpty(); i++) {
        switch (r.below(7)) {
        case 0: b[int(r.below(uint32_t(b.size())))] = char(r.below(256)); break;
        case 1: { int p = int(r.below(uint32_t(b.size()))); b[p] = b[p] ^ char(1 << r.below(8)); break; }
        case 2: b.truncate(int(r.below(uint32_t(b.size() + 1)))); break;
        case 3: b += randBytes(r, 1 + int(r.below(16))); break;
        case 4: { int p = int(r.below(uint32_t(b.size()))); b.insert(p, randBytes(r, 1 + int(r.below(8)))); break; }
        case 5: { int p = int(r.below(uint32_t(b.size()))); b.remove(p, 1 + int(r.below(8))); break; }
        default: if (b.size() >= 24) { int p = 20 + 2 + 4 * int(r.below(uint32_t((b.size() - 20) / 4))); if (p + 1 < b.size()) put16(b, p, quint16(r.below(3) ? r.below(64) : r.below(65536))); } break;
        }
    }
    if (b.size() >= 20 && r.below(5)) put16(b, 2, quint16(b.size() - 20));  // keep the header length consistent most of the time
    return b;
}

int main(int argc, char **argv) {
    QCoreApplication app(argc, argv);
    Args args = parseArgs(argc, argv);
    const bool thorough = args.tier == "thorough";
    Rng rng(args.seed);
    Ctx c{ rng, thorough, thorough ? 6000000 : 700000, {} };  // flip budget: the corpus below flips every bit

    // ---- 0. corpus: the concrete findings, replayed first
    {
        corr("reset", "ok");
        // DATA announces 1000 bytes, 4 are present: was accepted, value partly uninitialised memory (valgrind: QXmppStun.cpp:610)
        QByteArray b = QByteArray::fromHex("000100082112a4420000000000000000000000000013" "03e8" "41424344");
        QXmppStunMessage m; bool ok = decodeLine(b, QByteArray(), true, &m);
        sample("decode(000100082112a442 00*12 0013 03e8 41424344) = " + std::string(ok ? "true" : "false") + ", data().size() = " + std::to_string(m.data().size()));
        // |key| = 100 against Qt's QMessageAuthenticationCode
        QByteArray k100(100, 0); for (int i = 0; i < 100; i++) k100[i] = char(i * 7 + 1);
        QByteArray text("hello");
        QByteArray lib = QXmppUtils::generateHmacSha1(k100, text), ref = hmacRef(k100, text);
        corr("hmac " + hx(k100) + " " + hx(text), hx(lib));
        vline("hmac " + hx(k100) + " " + hx(text) + " " + hx(lib));
        if (lib == ref) oraclePass()++; else ofail("C14:hmac-long-key", "generateHmacSha1(key = bytes (7i+1) mod 256 for i<100, text = 'hello') = " + hx(lib) + ", RFC 2104 / QMessageAuthenticationCode = " + hx(ref));
        // username length 4 -> 68 (bit 6 of byte 23) hid MESSAGE-INTEGRITY and FINGERPRINT from the walk (before df53ac0)
        GMsg g; g.type = 1; g.id = QByteArray(12, 'i'); g.username = QByteArray("abcd");
        runMessage(c, g, QByteArray("secret"), true, 1);
        // a 100-byte key: MESSAGE-INTEGRITY differed from RFC 2104, and keys that differ behind byte 64 were interchangeable
        // (fixed by /repo commit a1928fd; the bounds check of df53ac0 now rejects the two packets above)
        runMessage(c, g, k100, false, 0);
        // empty USERNAME, key, fingerprint: length 0 -> 32 (bit 5 of byte 23) swallows exactly MESSAGE-INTEGRITY and
        // FINGERPRINT, the value still ends inside the body (witness of theorem C14_defect_bitflip_accepted)
        GMsg g0; g0.type = 1; g0.username = QByteArray("");
        runMessage(c, g0, QByteArray(1, char(1)), true, 1);
        runMessage(c, g0, QByteArray("secret"), true, 1);
        { GMsg gi = g0; gi.type = 0x0011; runMessage(c, gi, QByteArray("secret"), true, 1); }   // Binding indication: exempt class
        { GMsg ge = g0; ge.type = 0x0111; runMessage(c, ge, QByteArray("secret"), true, 1); }   // Binding error response: exempt class
        // setData with 70000 bytes: the 16-bit lengths wrap, the packet is not decodable (theorem C14_defect_oversized_not_decodable)
        for (int n : { 70000, 65532 }) {
            corr("reset", "ok");
            QXmppStunMessage big; big.setData(QByteArray(n, 'x'));
            const std::string spec = showMsg(big, false);
            QByteArray e = big.encode(QByteArray(), false);
            corr("enc " + spec + " - 0", hx(e));
            if (e.isEmpty()) { stat("oversized-message-refused-by-encode"); oraclePass()++; continue; }  // a refusing encode builds nothing
            QXmppStunMessage d; bool ok = decodeLine(e, QByteArray(), false, &d);
            if (ok && showMsg(d, false) == spec) oraclePass()++;
            else ofail("C14:oversized-not-decodable", "setData(" + std::to_string(n) + " bytes).encode() has " + std::to_string(e.size()) + " bytes, header length field " + std::to_string(be16(e, 2)) + ", DATA length field " + std::to_string(be16(e, 22)) + "; decode = " + (ok ? "different message" : "false"));
        }
        { QXmppStunMessage okm; okm.setData(QByteArray(65000, 'y')); QByteArray e = okm.encode(QByteArray("k"), true); QXmppStunMessage d;
          if (d.decode(e, QByteArray("k")) && d.data().size() == 65000) oraclePass()++; else ofail("C14:roundtrip", "DATA of 65000 bytes with key and fingerprint"); }
        // setReservationToken with fewer than 8 bytes: resize(8) leaves the new bytes uninitialised, encode() sends them
        {
            QXmppStunMessage t; t.setReservationToken(QByteArray("abc"));
            QByteArray tok = t.reservationToken(); bool clean = tok.size() == 8 && tok.startsWith("abc");
            for (int i = 4; i < tok.size(); i++) if (tok[i] != 0) clean = false;
            if (clean) oraclePass()++;
            else ofail("C14:reservation-token-uninitialised", "setReservationToken(\"abc\") -> reservationToken() = " + hx(tok) + " (bytes 4..7 are whatever the heap held; valgrind: uninitialised; they are sent by encode())");
            for (int n = 0; n <= 12; n++) {  // the setter against the model: truncated or zero padded to 8 bytes
                QByteArray in = randBytes(rng, n); QXmppStunMessage tm; tm.setReservationToken(in);
                corr("token " + hxArg(in), hx(tm.reservationToken()));
            }
        }
    }

    // ---- 0b. boundary sweep around the 16-bit limit: DATA sizes with attributes-before-trailer in [65480, 65560], every size,
    //          x {no key, key} x {fingerprint off, on}: encode() either refuses (empty) or its output decodes back to the same
    //          message; in the window 65504..65535 it is the 24-byte MESSAGE-INTEGRITY / 8-byte FINGERPRINT trailer alone that
    //          pushes the message over the limit (seeded change C14_d1 moved the size check in front of the trailer)
    {
        corr("reset", "ok");
        const QByteArray sweepKey("keyxx");
        for (int n = 65476; n <= 65556; n++) for (int kk = 0; kk < 2; kk++) for (int fp = 0; fp < 2; fp++) {
            const QByteArray key = kk ? sweepKey : QByteArray();
            const int fill = 33 + (n % 90);
            QXmppStunMessage big; big.setData(QByteArray(n, char(fill)));
            printf("I boundary sweep: setData(%d bytes) key=%s fp=%d\n", n, hxArg(key).c_str(), fp); fflush(stdout);
            const QByteArray e = big.encode(key, fp != 0);
            const std::string args = std::to_string(n) + " " + std::to_string(fill) + " " + hxArg(key) + " " + std::to_string(fp);
            corr("encsz " + args, std::to_string(e.size()) + " " + std::to_string(crcBitwise(e)));
            stat("size-sweep");
            const int total = 4 + n + (4 - n % 4) % 4 + (kk ? 24 : 0) + (fp ? 8 : 0);
            std::string obs;
            if (e.isEmpty()) {
                obs = "refused"; stat("size-sweep-refused");
                if (total > 0xffff) oraclePass()++; else ofail("C14:oversized-not-decodable", "setData(" + std::to_string(n) + ") key=" + hxArg(key) + " fp=" + std::to_string(fp) + ": encode() refused a message of " + std::to_string(total) + " attribute bytes that fits");
            } else {
                QXmppStunMessage d; const bool ok = d.decode(e, key);
                const bool same = ok && d.data() == big.data() && showMsg(d, false) == showMsg(big, false);
                obs = !ok ? "fail" : same ? "ok" : "other";
                if (same) oraclePass()++;
                else ofail("C14:oversized-not-decodable", "setData(" + std::to_string(n) + " bytes) key=" + hxArg(key) + " fp=" + std::to_string(fp) + ": encode() returned " + std::to_string(e.size()) + " bytes with header length field " + std::to_string(be16(e, 2)) + " (attributes + trailer = " + std::to_string(total) + " bytes); decode = " + (ok ? "different message" : "false"));
            }
            corr("decsz " + args, obs);
        }
    }

    // ---- 1. HMAC and CRC helpers directly: every key length 0..300
    {
        corr("reset", "ok");
        for (int kl = 0; kl <= 300; kl++) {
            if (!thorough && kl > 70 && kl % 5 != 0 && kl != 127 && kl != 128 && kl != 129) continue;
            QByteArray k = randBytes(rng, kl), t = randBytes(rng, int(rng.below(kl % 3 == 0 ? 200 : 40)));
            QByteArray lib = QXmppUtils::generateHmacSha1(k, t);
            corr("hmac " + hxArg(k) + " " + hxArg(t), hx(lib));
            vline("hmac " + hxArg(k) + " " + hxArg(t) + " " + hx(lib));
            stat("hmac-direct");
            if (lib == hmacRef(k, t)) oraclePass()++;
            else ofail(kl > 64 ? "C14:hmac-long-key" : "C14:mi-not-rfc2104", "generateHmacSha1 key=" + hxArg(k) + " text=" + hxArg(t) + " lib=" + hx(lib) + " rfc2104=" + hx(hmacRef(k, t)));
        }
        for (int i = 0; i < (thorough ? 600 : 150); i++) {
            QByteArray b = randBytes(rng, i < 40 ? i : int(rng.below(1500)));
            quint32 lib = QXmppUtils::generateCrc32(b);
            corr("crc " + hxArg(b), std::to_string(lib));
            vline("crc " + hxArg(b) + " " + std::to_string(lib));
            stat("crc-direct");
            if (lib == crcBitwise(b)) oraclePass()++; else ofail("C14:fp-not-crc32", "generateCrc32(" + hx(b) + ")");
        }
    }

    // ---- 2. systematic messages: each attribute alone in each variant, strings/data of every length 0..11 (all mod 4), all at once
    std::vector<GMsg> sys;
    {
        auto base = [&] { GMsg g; g.type = 0x0001; g.id = randBytes(rng, 12); return g; };
        sys.push_back(base());
        for (int which = 0; which < 7; which++) for (int fam = 0; fam < 2; fam++) {
            GMsg g = base(); GAddr a = randAddr(rng);
            if (fam == 0) { a.kind = 4; a.v4 = uint32_t(rng.next()); a.v6.clear(); } else { a.kind = 6; a.v6 = randBytes(rng, 16); }
            GAddr *slot[] = { &g.mapped, &g.source, &g.changed, &g.other, &g.xorMapped, &g.xorPeer, &g.xorRelayed };
            *slot[which] = a; sys.push_back(g);
        }
        for (int len = 0; len <= 11; len++) for (int which = 0; which < 6; which++) {
            GMsg g = base();
            switch (which) {
            case 0: g.username = randStr(rng, len); break;
            case 1: g.realm = randStr(rng, len); break;
            case 2: g.software = randStr(rng, len); break;
            case 3: g.nonce = randBytes(rng, len); break;
            case 4: g.data = randBytes(rng, len); break;
            default: g.errorCode = 300 + int(rng.below(400)); g.errorPhrase = randStr(rng, len); break;
            }
            sys.push_back(g);
        }
        { GMsg g = base(); g.changeRequest = rand32(rng); sys.push_back(g); }
        { GMsg g = base(); g.priority = rand32(rng); sys.push_back(g); }
        { GMsg g = base(); g.lifetime = rand32(rng); sys.push_back(g); }
        { GMsg g = base(); g.channelNumber = quint16(rng.below(65536)); sys.push_back(g); }
        { GMsg g = base(); g.requestedTransport = 17; sys.push_back(g); }
        { GMsg g = base(); g.token = randBytes(rng, 8); sys.push_back(g); }
        { GMsg g = base(); g.useCandidate = true; sys.push_back(g); }
        { GMsg g = base(); g.iceControlling = randBytes(rng, 8); sys.push_back(g); }
        { GMsg g = base(); g.iceControlled = randBytes(rng, 8); sys.push_back(g); }
        { GMsg g = base(); g.errorCode = 401; sys.push_back(g); }
        { GMsg g = base(); g.errorCode = 25599; g.errorPhrase = "x"; sys.push_back(g); }
        { GMsg g = base(); g.errorCode = 1; sys.push_back(g); }
        sys.push_back(randMsg(rng, 100)); sys.push_back(randMsg(rng, 100));
    }
    static const int specialKeyLens[] = { 0, 1, 20, 63, 64, 65, 100, 128, 300 };
    {
        int i = 0;
        for (const GMsg &g : sys) {
            int kl = (i % 3 == 0) ? specialKeyLens[(i / 3) % 9] : int((i * 37 + args.seed * 11) % 301);
            runMessage(c, g, randBytes(rng, kl), i % 2 == 0 || kl == 0, 1);
            i++;
        }
    }

    // ---- 3. random messages, keys of every length 0..300, fingerprint on/off
    {
        const int n = thorough ? 4000 : 700;
        for (int i = 0; i < n; i++) {
            int kl = int((i + args.seed * 13) % 301);
            if (rng.below(6) == 0) kl = specialKeyLens[rng.below(9)];
            GMsg g = randMsg(rng, int(5 + rng.below(60)));
            runMessage(c, g, randBytes(rng, kl), rng.coin(), c.flipBudget > 0 ? (i < (thorough ? 400 : 100) ? 1 : 2) : 0);
        }
        const int nodd = thorough ? 1500 : 300;
        for (int i = 0; i < nodd; i++) runMessage(c, randOddMsg(rng), randBytes(rng, int(rng.below(3) ? rng.below(80) : 0)), rng.coin(), 0);
    }

    // ---- 4. arbitrary, structured and mutated byte strings through decode (library instrumented with ASan/UBSan)
    {
        corr("reset", "ok");
        const long n = thorough ? 100000 : 12000;
        const long corrEvery = thorough ? 4 : 1;   // correspondence on every (quick) / every 4th (thorough) input; all go through decode
        for (long i = 0; i < n; i++) {
            QByteArray b, key;
            uint32_t k = rng.below(10);
            if (k < 2) { b = randBytes(rng, int(rng.below(rng.coin() ? 48 : 300))); if (b.size() >= 20 && rng.coin()) put16(b, 2, quint16(b.size() - 20)); key = rng.coin() ? QByteArray() : randBytes(rng, 1 + int(rng.below(70))); stat("arbitrary-random"); }
            else if (k < 5) { key = rng.below(3) ? randBytes(rng, 1 + int(rng.below(90))) : QByteArray(); b = structured(rng, key); stat("arbitrary-structured"); }
            else { const auto &pk = c.pool[rng.below(uint32_t(c.pool.size()))]; b = mutate(rng, pk.first); key = rng.below(4) ? pk.second : QByteArray(); stat("arbitrary-mutated"); }
            bool emitLine = (i % corrEvery) == 0;
            printf("I %s %s\n", hx(b).c_str(), hxArg(key).c_str()); fflush(stdout);
            bool ok = decodeLine(b, key, false, nullptr, emitLine);
            stat(ok ? "arbitrary-accepted" : "arbitrary-rejected");
        }
    }
    finish();
    return 0;
}
