// C02 (runtime half) + C01 (own-output-form half): model-independent exploration of every XML parser of the library.
//
// For every document x every parser of codec_table.h whose own type check admits it (parsers without a type check get every
// document):     o1 = serialize(parse(d)),  o2 = serialize(parse(o1)),  o3 = serialize(parse(o2))
// Documents, in stages (each stage is cut into batches run by forked children, see c02_common.h Pool):
//   0  corpus/c02_regress.txt (minimized past failures), the serialization of a default-constructed object of every class,
//      every corpus document (corpus/test_xml.txt) and every distinct sub-element of one, unmutated
//   1  scaling probes: fixed templates (message, presence, roster/disco/jingle IQ, data form, pubsub event, stream features)
//      grown in ONE dimension (nesting depth, number of children, attribute length, text length) at geometrically spaced
//      sizes; CPU time of parse+serialize is measured per parser and super-linear growth is reported
//   2  big-depth probes (stack use) for the parsers stage 1 found to scale linearly
//   3  seeded structural mutations of the corpus documents (28 kinds, dealt round-robin)
//   5  repeated complex children: every (parent element, child kind) of every top-level document gets that kind replaced by 2 and by
//      3 of the richest instances of that element name found anywhere in the corpus (c02_common.h Catalogue), each with its own
//      sub-children; complete in both tiers
//   4  systematic sweep: every single-point edit (delete/duplicate an element, remove/empty an attribute, remove a text, move an
//      element out of its namespace) of every top-level corpus document; complete in the thorough tier, a seeded sample in quick
// Oracles (keys):
//     C02:crash:<parser>:<what>            sanitizer report / signal / exit / time budget exceeded inside a library call
//                                          (what = asan:<type> | ubsan:<file>:<line> | signal-N | exit-N | timeout)
//     C02:superlinear:<parser>:<shape>     CPU time grows faster than ~n^1.6 in <shape> = depth | children | attr-length | text-length
//     C02:output-not-wellformed:<parser>   an output is not well-formed XML for QDomDocument
//     C02:not-fixpoint:<parser>:<where>    tree(o1) != tree(o2): one parse/serialize pass is not a fixpoint; <where> = first difference, e.g.
//                                          affiliations/affiliation:lost, text@xml:lang:added (see diffSig)
//     C02:not-fixpoint-after-2-passes:<parser>:<where>   tree(o2) != tree(o3) as well   (namespace-resolved trees; when only sibling order differs the
//                                          case is counted under fixpoint_up_to_sibling_order and passes)
//     C01:own-form-roundtrip:<parser>:<where>   the same o1 != o2 event under C01's reading, up to sibling order (o1 is a document in the library's own form)
//     C01:markup-injection:<parser>        an element {urn:canary}canary appears in an output although the input tree had none
//     C02:harness:<what>                   the harness's own code failed (never a finding; makes the check fail visibly)
//
// usage: parsers --tier quick|thorough --seed N [--mode c01|c02] [--workers N] [--depth N] [--only <parser substring>] [--docs <id substring>]
//                [--per-doc K] [--no-mutations] [--no-probes] [--list] [--show-not-admitted]
//        parsers --shrink-key <key> --shrink-parser <exact parser name> --shrink-xml <file>     (minimize a failing document)
#include "c02_common.h"
#include "codec_table.h"
#include "xmlcanon.h"

#include "QXmppClient.h"

#include <QCoreApplication>
#include <QElapsedTimer>
#include <cmath>
#include <set>
#include <time.h>

using namespace c02;

class TestClient   // friend of QXmppStanza: deterministic generated ids
{
public:
    static void resetIds() { QXmppStanza::s_uniqeIdNo = 0; }
};

// shared counter slots (0..7 fold by max, others by sum)
enum {
    C_MAX_CALL_MS = 0, C_MAX_DEPTH_OK = 1,
    C_ITEMS = 8, C_ADMIT_CALLS, C_ADMITTED, C_ADMITTED_TYPED, C_RUNS, C_OUT_CHECKED, C_BYTES_IN, C_BYTES_OUT, C_EMPTY_OUT, C_PARSEONLY_RUNS,
    C_FIX_ORDER_ONLY, C_OWN_ORDER_ONLY, C_OWN_NOT_ADMITTED, C_MUT_NOT_WF, C_MUT_NOT_APPLICABLE, C_PASS, C_FAIL, C_NSDECL_ONLY, C_XCHECK,
    C_DEFAULT_NOT_ADMITTED, C_PROBE_ITEMS, C_PASSTHROUGH_ALTERS_NONOWN,
    C_RICH = 38,
    C_KIND0 = 40,      // + mutation kind (M_KINDS <= 28); C_KIND0-1 = unmutated
    C_SWEEP0 = 30,     // + sweep type (SW_TYPES <= 8)
    C_KINDCPU0 = 70,   // + mutation kind: CPU milliseconds spent on items of that kind
    C_PARSER0 = 100,   // + parser index: admitted pairs per parser
    C_NOTADM0 = 300,   // + parser index: own output not admitted by the parser's own type check
};

enum { W_DOC, W_MUT, W_DEFAULT, W_PROBE, W_SWEEP, W_RICH };
enum { SH_DEPTH, SH_DEPTH_UNIT, SH_CHILDREN, SH_ATTR_LEN, SH_TEXT_LEN, SH_COUNT };
static const char *shapeName(int s)
{
    static const char *n[] = { "depth", "depth", "children", "attr-length", "text-length" };
    return n[s];
}
struct Work { int type; int doc; int mut; int kind; int parser; int shape; int size; };   // parser < 0: every parser

struct Cfg {
    std::string mode;   // "" = all keys, "c01" = only C01: keys, "c02" = only C02: keys (C02:harness:* always)
    std::string tier = "quick";
    uint64_t seed = 1;
    int workers = 16;
    int depth = 0;
    int perDoc = -1;
    bool mutations = true, probes = true;
    std::string only, docs;
    bool list = false;
    bool showNotAdmitted = false;
    int cpuBudget = 20;
    int heavyQuota = -1;
    int sweepShare = -1;   // percent of the single-point sweep space that is run
    std::string singleProbe;
    std::string shrinkKey, shrinkParser, shrinkFile;
};

// ------------------------------------------------------------------------------------------------ probe templates
struct Tpl {
    const char *name;
    const char *xml;
    std::vector<int> unit;        // the child that is repeated (children) or self-nested (depth-unit)
    std::vector<int> attrElem; const char *attr;   // attribute grown by attr-length
    std::vector<int> textElem;    // element whose text is grown by text-length
};
static const std::vector<Tpl> &templates()
{
    static const std::vector<Tpl> t = {
        { "message", "<message xmlns='jabber:client' from='a@b.example/c' to='d@e.example' type='chat' id='m1'><body>hello</body><x xmlns='urn:verif:probe' a='1'/></message>",
          { 1 }, { 1 }, "a", { 0 } },
        { "presence", "<presence xmlns='jabber:client' from='a@b.example/c' to='d@e.example' id='p1'><status>away</status><x xmlns='urn:verif:probe' a='1'/></presence>",
          { 1 }, { 1 }, "a", { 0 } },
        { "iq-roster", "<iq xmlns='jabber:client' type='result' id='r1' from='a@b.example'><query xmlns='jabber:iq:roster' ver='v1'><item jid='c@d.example' name='n' subscription='both'><group>g</group></item></query></iq>",
          { 0, 0 }, { 0, 0 }, "name", { 0, 0, 0 } },
        { "iq-disco", "<iq xmlns='jabber:client' type='result' id='d1' from='a@b.example'><query xmlns='http://jabber.org/protocol/disco#info' node='n'><identity category='client' type='pc' name='n'/><feature var='urn:f'/></query></iq>",
          { 0, 1 }, { 0, 1 }, "var", {} },
        { "iq-unknown", "<iq xmlns='jabber:client' type='get' id='u1' from='a@b.example/c'><query xmlns='urn:verif:probe' a='1'><i>t</i></query></iq>",
          { 0, 0 }, { 0 }, "a", { 0, 0 } },
        { "data-form", "<x xmlns='jabber:x:data' type='form'><title>t</title><field var='f' type='text-single' label='l'><value>v</value></field></x>",
          { 1 }, { 1 }, "label", { 1, 0 } },
        { "pubsub-event", "<message xmlns='jabber:client' from='pubsub.b.example' id='e1'><event xmlns='http://jabber.org/protocol/pubsub#event'><items node='n'><item id='i1'><x xmlns='urn:verif:probe' a='1'>t</x></item></items></event></message>",
          { 0, 0, 0 }, { 0, 0, 0 }, "id", { 0, 0, 0, 0 } },
        { "iq-jingle", "<iq xmlns='jabber:client' type='set' id='j1' from='a@b.example/c'><jingle xmlns='urn:xmpp:jingle:1' action='session-initiate' sid='s1'><content creator='initiator' name='voice'>"
                       "<description xmlns='urn:xmpp:jingle:apps:rtp:1' media='audio'><payload-type id='96' name='speex' clockrate='16000'><parameter name='vbr' value='on'/></payload-type></description>"
                       "<transport xmlns='urn:xmpp:jingle:transports:ice-udp:1' ufrag='u' pwd='p'><candidate component='1' foundation='1' generation='0' id='c1' ip='10.0.1.1' network='1' port='8998' priority='2130706431' protocol='udp' type='host'/></transport>"
                       "</content></jingle></iq>",
          { 0, 0, 0, 0 }, { 0, 0, 0, 0 }, "name", {} },
        { "stream-features", "<stream:features xmlns:stream='http://etherx.jabber.org/streams'><mechanisms xmlns='urn:ietf:params:xml:ns:xmpp-sasl'><mechanism>PLAIN</mechanism></mechanisms><x xmlns='urn:verif:probe' a='1'/></stream:features>",
          { 0, 0 }, { 1 }, "a", { 0, 0 } },
        { "element", "<x xmlns='urn:verif:probe' a='1'><i b='2'>t</i></x>", { 0 }, {}, "a", { 0 } },
    };
    return t;
}

// Key family of a parser: the template instances PubSubIq<Item> / QXmppPubSubEvent<Item> and the SCE modes of QXmppMessage share
// one key (the replay names the exact instance), otherwise one defect would need a dozen registrations.
static std::string fam(const std::string &name)
{
    std::string f = name;
    auto lt = f.find('<'); if (lt != std::string::npos) f = f.substr(0, lt);
    auto sl = f.find("/Sce"); if (sl != std::string::npos) f = f.substr(0, sl);
    return f;
}
static bool isHeavyKind(int k) { return k == M_ATTR_LONG || k == M_TEXT_LONG || k == M_WIDE || k == M_DEEP; }

static bool keyInMode(const std::string &key);
// quick tier probes only these templates (thorough: all)
static bool quickTemplate(size_t t)
{
    std::string n = templates()[t].name;
    return n == "message" || n == "iq-roster" || n == "data-form" || n == "pubsub-event" || n == "element";
}
static std::vector<vt::Codec> g_table;
static std::vector<Doc> g_docs;          // regress + corpus + sub-elements
static std::vector<Node> g_nodes;        // parsed (same index)
static std::vector<Node> g_tplNodes;
static Catalogue g_catalogue;
static size_t g_nRegress = 0, g_nTop = 0;
static Cfg g_cfg;

// full failing inputs go to .build/harness/parsers.fail/ (for tools/c02_triage.py: shrink + add to corpus/c02_regress.txt)
static std::string g_failDir;
static std::string sanitize(const std::string &x)
{
    std::string o;
    for (char c : x) o += (isalnum((unsigned char)c) || c == '-' || c == '.') ? c : '_';
    return o;
}
static void dumpFailingInput(const std::string &key, const std::string &parser, const std::string &what, const QByteArray &in)
{
    static std::map<std::string, int> perKey;
    if (g_failDir.empty() || in.isEmpty() || in.size() > (1 << 20) || ++perKey[key] > 2) return;
    H128 h; h.mixStr(QString::fromStdString(what)); h.mixStr(QString::fromUtf8(in));
    char hx[20]; snprintf(hx, sizeof hx, "%08llx", (unsigned long long)(h.a & 0xffffffffull));
    std::string path = g_failDir + "/" + sanitize(key) + "__" + sanitize(parser) + "__" + hx + ".xml";
    if (FILE *f = fopen(path.c_str(), "w")) {
        fprintf(f, "<!-- key=%s parser=%s input=%s -->\n", key.c_str(), parser.c_str(), what.c_str());   // what = doc|mutation|note
        fwrite(in.constData(), 1, in.size(), f);
        fputc('\n', f);
        fclose(f);
    }
}

// Canonical description of where two trees first differ (part of the own-form / fixpoint keys, so that a NEW divergence in a parser
// is not hidden behind a recorded one):
//   <element>@<attribute>:lost|added|changed      <element>#text:lost|added|changed
//   <element>/<child>:lost|added                  <element>/*:reordered
// "lost" = present in the first tree, absent in the second. Element names that do not occur in the unmutated base document (content a
// mutation grafted in from elsewhere) are written "*", so that one cause does not produce a key per foreign element name.
static const std::set<QString> *g_vocab = nullptr;
static std::string sigName(const QDomElement &e)
{
    QString n = e.localName().isEmpty() ? e.tagName() : e.localName();
    if (g_vocab && !g_vocab->count(n)) return "*";
    return n.toStdString();
}
static std::string diffSig(const QDomElement &a, const QDomElement &b, int depth = 0)
{
    if (depth > 150) return sigName(a) + ":deep";
    std::map<QString, QString> aa, ab;
    auto attrs = [](const QDomElement &e, std::map<QString, QString> &m) {
        auto am = e.attributes();
        for (int i = 0; i < am.count(); i++) { auto x = am.item(i).toAttr(); if (x.nodeName() == u"xmlns" || x.nodeName().startsWith(u"xmlns:")) continue; m[x.nodeName()] = x.value(); }
    };
    attrs(a, aa); attrs(b, ab);
    for (auto &kv : aa) {
        if (!ab.count(kv.first)) return sigName(a) + "@" + kv.first.toStdString() + ":lost";
        if (ab[kv.first] != kv.second) return sigName(a) + "@" + kv.first.toStdString() + ":changed";
    }
    for (auto &kv : ab) if (!aa.count(kv.first)) return sigName(a) + "@" + kv.first.toStdString() + ":added";
    auto kids = [](const QDomElement &e, std::vector<QDomElement> &v, QString &text) {
        for (auto c = e.firstChild(); !c.isNull(); c = c.nextSibling()) { if (c.isElement()) v.push_back(c.toElement()); else if (c.isText() || c.isCDATASection()) text += c.nodeValue(); }
    };
    std::vector<QDomElement> ka, kb; QString ta, tb;
    kids(a, ka, ta); kids(b, kb, tb);
    if (ta != tb) return sigName(a) + "#text:" + (tb.isEmpty() ? "lost" : ta.isEmpty() ? "added" : "changed");
    auto qn = [](const QDomElement &e) { return e.namespaceURI() + u'|' + (e.localName().isEmpty() ? e.tagName() : e.localName()); };
    std::map<QString, int> ca, cb;
    for (auto &k : ka) ca[qn(k)]++;
    for (auto &k : kb) cb[qn(k)]++;
    for (auto &k : ka) if (ca[qn(k)] > cb[qn(k)]) return sigName(a) + "/" + sigName(k) + ":lost";
    for (auto &k : kb) if (cb[qn(k)] > ca[qn(k)]) return sigName(a) + "/" + sigName(k) + ":added";
    // same multiset of child names: pair them up in document order
    bool sameOrder = true;
    for (size_t i = 0; i < ka.size(); i++) if (qn(ka[i]) != qn(kb[i])) { sameOrder = false; break; }
    if (!sameOrder) return sigName(a) + "/*:reordered";
    for (size_t i = 0; i < ka.size(); i++)
        if (summarizeElement(ka[i]).ordered != summarizeElement(kb[i]).ordered) return diffSig(ka[i], kb[i], depth + 1);
    return sigName(a) + ":?";
}
static std::string g_shrinkSig;

static void failLine(const std::string &key, const std::string &parser, const std::string &docId, const std::string &mut, const QByteArray &in,
                     const QByteArray &o1, const QByteArray &o2, const QByteArray &o3, const std::string &note)
{
    std::string rep = "parser=" + parser + " doc=" + docId + " mut=" + (mut.empty() ? "none" : mut) + (note.empty() ? "" : " note=" + note) +
        " in=" + escLine(in, 1500) + " o1=" + escLine(o1, 900) + " o2=" + escLine(o2, 900);
    if (!o3.isEmpty()) rep += " o3=" + escLine(o3, 900);
    if (!keyInMode(key)) return;
    printf("O FAIL %s\t%s\n", key.c_str(), rep.c_str());
    fflush(stdout);
    dumpFailingInput(key, parser, docId + "|" + mut, in);
}

// o1 != o2: serialize(parse(o1)) differs from o1. This is C02's "re-parsing that output and serializing it again gives the same
// document" and C01's "a document in the library's own output form survives parse-then-serialize": reported under both properties
// (each check's --mode keeps its own).
static void failBoth(const std::string &familyAndSig, const std::string &parser, const std::string &docId, const std::string &mut, const QByteArray &in,
                     const QByteArray &o1, const QByteArray &o2, const std::string &note)
{
    failLine("C02:not-fixpoint:" + familyAndSig, parser, docId, mut, in, o1, o2, {}, note);
    failLine("C01:own-form-roundtrip:" + familyAndSig, parser, docId, mut, in, o1, o2, {}, note);
}

// bytes requested from the allocator (process-wide, Qt included) -- a deterministic cost measure, unlike time
extern "C" int __sanitizer_install_malloc_and_free_hooks(void (*malloc_hook)(const volatile void *, size_t), void (*free_hook)(const volatile void *));
static volatile long long g_allocBytes = 0;
static void onMalloc(const volatile void *, size_t n) { g_allocBytes = g_allocBytes + (long long)n; }
static void onFree(const volatile void *) {}

static bool keyInMode(const std::string &key)
{
    if (g_cfg.mode.empty() || key.rfind("C02:harness:", 0) == 0) return true;
    if (g_cfg.mode == "c01") return key.rfind("C01:", 0) == 0;
    if (g_cfg.mode == "c02") return key.rfind("C02:", 0) == 0;
    return true;
}

static long long cpuMicros()
{
    timespec ts;
    clock_gettime(CLOCK_PROCESS_CPUTIME_ID, &ts);
    return (long long)ts.tv_sec * 1000000ll + ts.tv_nsec / 1000;
}
// budget: CPU seconds (ITIMER_VIRTUAL -> SIGVTALRM) with a wall-clock backstop of 6x (alarm -> SIGALRM); both kill the child
static void arm(int cpuSec)
{
    itimerval it {}; it.it_value.tv_sec = cpuSec;
    setitimer(ITIMER_VIRTUAL, &it, nullptr);
    alarm(unsigned(cpuSec) * 6);
}
static void disarm()
{
    itimerval it {};
    setitimer(ITIMER_VIRTUAL, &it, nullptr);
    alarm(0);
}
// Fill the stack region the next call will use with a recognisable non-zero pattern, so that a local the library forgets to
// initialise holds 0xAB.. instead of whatever the previous call left there: UBSan's invalid-enum/bool checks then fire (or not)
// deterministically. (Heap memory is already filled with 0xBE by ASan's allocator.)
__attribute__((noinline)) static void dirtyStack()
{
    unsigned char pad[40 * 1024];
    memset(pad, 0xAB, sizeof pad);
    __asm__ volatile("" ::"r"(pad) : "memory");
}

static const int PROBE_REPS = 3;
static long long g_lastCallMicros = 0, g_lastCallAlloc = 0;
template<typename F>
static auto timed(Status *st, F &&f)
{
    dirtyStack();
    long long a0 = g_allocBytes;
    long long t0 = cpuMicros();
    arm(g_cfg.cpuBudget);
    auto r = f();
    disarm();
    g_lastCallMicros = cpuMicros() - t0;
    g_lastCallAlloc = g_allocBytes - a0;
    long long ms = g_lastCallMicros / 1000;
    if (ms > st->counters[C_MAX_CALL_MS]) st->counters[C_MAX_CALL_MS] = ms;
    return r;
}

// The whole oracle chain for one input document. onlyParser >= 0 restricts to one parser; probeTag != "" prints T lines.
static void explore(const QByteArray &in, const std::string &docId, const std::string &mutDesc, int onlyParser, int resumeParser,
                    Status *st, int &samplesLeft, const std::string &probeTag, bool isMutant, bool typedOnly = false)
{
    QDomDocument inDoc;
    arm(120);
    bool ok = inDoc.setContent(in, true) && !inDoc.documentElement().isNull();
    disarm();
    if (!ok) {
        st->counters[C_MUT_NOT_WF]++;
        printf("O FAIL C02:harness:input-not-wellformed\tdoc=%s mut=%s in=%s\n", docId.c_str(), mutDesc.c_str(), escLine(in, 600).c_str());
        fflush(stdout);
        return;
    }
    st->counters[C_ITEMS]++;
    // a regress document whose id ends in "@<family>" is a replay for that parser family only
    std::string onlyFamily;
    if (auto at = docId.rfind('@'); at != std::string::npos && (docId.rfind("r-", 0) == 0 || docId.rfind("t-", 0) == 0)) onlyFamily = docId.substr(at + 1);
    QDomElement root = inDoc.documentElement();
    Summary sin = summarizeElement(root);
    const QString ctxNs = root.namespaceURI();
    // Input features outside anything the library writes, each known to be normalised over more than one pass by a generic mechanism
    // (QXmppElement drops xmlns=""; of several <error/> children one becomes the error field, the rest pass through as extensions and
    // rotate). For such inputs the key carries the feature instead of the first differing path, which would vary with the payload.
    int errorKids = 0;
    for (auto c = root.firstChildElement(); !c.isNull(); c = c.nextSiblingElement()) if (c.tagName() == u"error") errorKids++;
    const std::string inputFeature = sin.nsUndeclared ? "input-has-xmlns-undeclaration" : errorKids > 1 ? "input-has-several-error-children" : "";

    for (size_t p = 0; p < g_table.size(); p++) {
        if (int(p) <= resumeParser) continue;
        if (onlyParser >= 0 && int(p) != onlyParser) continue;
        const vt::Codec &c = g_table[p];
        if (!g_cfg.only.empty() && c.name.find(g_cfg.only) == std::string::npos) continue;
        if (!onlyFamily.empty() && fam(c.name) != onlyFamily) continue;
        if (typedOnly && !c.typeChecked) continue;
        st->parser = int(p);
        st->phase = PH_ADMIT;
        st->counters[C_ADMIT_CALLS]++;
        bool admitted = timed(st, [&] { return c.admits(root); });
        if (!admitted) {
            if (onlyParser >= 0 && probeTag.empty()) {   // a class's own default output
                st->counters[C_DEFAULT_NOT_ADMITTED]++;
                printf("X default-constructed %s serializes to a document its own type check rejects: %s\n", c.name.c_str(), escLine(in, 300).c_str());
            }
            continue;
        }
        st->counters[C_ADMITTED]++;
        if (c.typeChecked) st->counters[C_ADMITTED_TYPED]++;
        st->counters[C_PARSER0 + p]++;
        st->counters[C_BYTES_IN] += in.size();

        TestClient::resetIds();
        st->phase = PH_RUN1;
        QByteArray o1 = timed(st, [&] { return c.parseAndSerialize(root); });
        if (!probeTag.empty()) {
            // cost of this call = median of PROBE_REPS repetitions (CPU microseconds and allocated bytes separately)
            std::vector<long long> us { g_lastCallMicros }, by { g_lastCallAlloc };
            for (int rep = 1; rep < PROBE_REPS; rep++) {
                TestClient::resetIds();
                (void)timed(st, [&] { return c.parseAndSerialize(root); });
                us.push_back(g_lastCallMicros); by.push_back(g_lastCallAlloc);
            }
            std::sort(us.begin(), us.end()); std::sort(by.begin(), by.end());
            printf("T %s\t%s\t%lld\t%lld\n", c.name.c_str(), probeTag.c_str(), us[us.size() / 2], by[by.size() / 2]);
        }
        st->counters[C_RUNS]++;
        st->counters[C_BYTES_OUT] += o1.size();
        if (c.parseOnly) { st->counters[C_PARSEONLY_RUNS]++; st->counters[C_PASS]++; continue; }
        if (o1.isEmpty()) { st->counters[C_EMPTY_OUT]++; st->counters[C_PASS]++; continue; }

        st->phase = PH_ORACLE;
        arm(200);
        QDomDocument d1, d2;
        QDomElement r1, r2;
        Summary s1 = summarizeXml(o1, ctxNs, &d1, &r1);
        disarm();
        st->counters[C_OUT_CHECKED]++;
        bool failed = false;
        QByteArray o2, o3;
        Summary s2, s3;
        if (!s1.wellFormed) {
            failLine("C02:output-not-wellformed:" + fam(c.name), c.name, docId, mutDesc, in, o1, {}, {}, "o1");
            failed = true;
        } else {
            if (s1.canaries > sin.canaries) { failLine("C01:markup-injection:" + fam(c.name), c.name, docId, mutDesc, in, o1, {}, {}, "canary element in o1"); failed = true; }
            if (c.identity && !isMutant && s1.ordered != sin.ordered) {
                // QXmppElement is the container every stanza uses to carry elements it does not know: a document in the library's
                // own output form must come out of it unchanged. Inputs with features that form never has (empty attribute values,
                // mixed content, xmlns="" undeclarations, foreign prefixes) are only counted.
                if (sin.emptyAttrs || sin.mixed || sin.nsUndeclared || sin.prefixed) st->counters[C_PASSTHROUGH_ALTERS_NONOWN]++;
                else { failLine("C01:passthrough-alters:" + fam(c.name), c.name, docId, mutDesc, in, o1, {}, {}, s1.sorted == sin.sorted ? "sibling order only" : ""); failed = true; }
            }
            if (c.typeChecked) {
                st->phase = PH_ADMIT;
                bool again = timed(st, [&] { return c.admits(r1); });
                if (!again) {
                    st->counters[C_OWN_NOT_ADMITTED]++; st->counters[C_NOTADM0 + p]++;
                    if (g_cfg.showNotAdmitted) printf("X own output not admitted: %s doc=%s mut=%s in=%s o1=%s\n", c.name.c_str(), docId.c_str(), mutDesc.c_str(), escLine(in, 500).c_str(), escLine(o1, 500).c_str());
                }
            }
            TestClient::resetIds();
            st->phase = PH_RUN2;
            o2 = timed(st, [&] { return c.parseAndSerialize(r1); });
            st->counters[C_RUNS]++; st->counters[C_BYTES_OUT] += o2.size();
            st->phase = PH_ORACLE;
            arm(200);
            if (!o2.isEmpty()) s2 = summarizeXml(o2, ctxNs, &d2, &r2);
            disarm();
            st->counters[C_OUT_CHECKED]++;
            if (o2.isEmpty()) {
                failBoth(fam(c.name) + ":own-output-rejected", c.name, docId, mutDesc, in, o1, o2, "own output parsed to an object that serializes to nothing (rejected by the parser)");
                failed = true;
            } else if (!s2.wellFormed) {
                failLine("C02:output-not-wellformed:" + fam(c.name), c.name, docId, mutDesc, in, o1, o2, {}, "o2");
                failed = true;
            } else {
                if (s2.canaries > sin.canaries && !failed) { failLine("C01:markup-injection:" + fam(c.name), c.name, docId, mutDesc, in, o1, o2, {}, "canary element in o2"); failed = true; }
                if (s1.ordered != s2.ordered) {
                    if (s1.sorted == s2.sorted) st->counters[C_OWN_ORDER_ONLY]++;
                    else { failBoth(fam(c.name) + ":" + (!inputFeature.empty() ? inputFeature : diffSig(r1, r2)), c.name, docId, mutDesc, in, o1, o2, ""); failed = true; }
                }
                TestClient::resetIds();
                st->phase = PH_RUN3;
                o3 = timed(st, [&] { return c.parseAndSerialize(r2); });
                st->counters[C_RUNS]++; st->counters[C_BYTES_OUT] += o3.size();
                st->phase = PH_ORACLE;
                arm(200);
                QDomDocument d3; QDomElement r3;
                if (!o3.isEmpty()) s3 = summarizeXml(o3, ctxNs, &d3, &r3);
                st->counters[C_OUT_CHECKED]++;
                if (o3.isEmpty() || !s3.wellFormed) {
                    failLine(o3.isEmpty() ? "C02:not-fixpoint-after-2-passes:" + fam(c.name) + ":own-output-rejected" : "C02:output-not-wellformed:" + fam(c.name), c.name, docId, mutDesc, in, o1, o2, o3, "o3");
                    failed = true;
                } else if (s2.ordered != s3.ordered) {
                    if (s2.sorted == s3.sorted) st->counters[C_FIX_ORDER_ONLY]++;
                    else { failLine("C02:not-fixpoint-after-2-passes:" + fam(c.name) + ":" + (!inputFeature.empty() ? inputFeature : diffSig(r2, r3)), c.name, docId, mutDesc, in, o1, o2, o3, "o2 != o3"); failed = true; }
                } else if (o2.size() < 20000 && s2.maxDepth < 200 && (st->counters[C_RUNS] & 7) == 0) {   // sampled: every 8th
                    // cross-check the hashed comparison with the declaration-level canonical form shared with the Lean side
                    st->counters[C_XCHECK]++;
                    if (vh::canonOfXml(o2) != vh::canonOfXml(o3)) st->counters[C_NSDECL_ONLY]++;
                }
                disarm();
                safeClear(d3, s3.maxDepth);
            }
        }
        if (failed) st->counters[C_FAIL]++;
        else {
            st->counters[C_PASS]++;
            if (samplesLeft > 0 && isMutant && c.typeChecked && o1.size() < 400) {
                samplesLeft--;
                printf("X %s doc=%s mut=%s in=%s -> o1=%s (o2,o3 same tree)\n", c.name.c_str(), docId.c_str(), mutDesc.c_str(), escLine(in, 300).c_str(), escLine(o1, 300).c_str());
            }
        }
        long dep = std::max(std::max(s1.maxDepth, s2.maxDepth), sin.maxDepth);
        if (!failed && dep > st->counters[C_MAX_DEPTH_OK]) st->counters[C_MAX_DEPTH_OK] = dep;
        st->phase = PH_ORACLE;
        safeClear(d1, s1.maxDepth); safeClear(d2, s2.maxDepth);
    }
    st->parser = int(g_table.size());
    st->phase = PH_ORACLE;
    safeClear(inDoc, sin.maxDepth);
}

static QByteArray probeDoc(int tpl, int shape, int size)
{
    Node n = g_tplNodes[tpl];
    const Tpl &t = templates()[tpl];
    switch (shape) {
    case SH_DEPTH: {
        Node x; x.local = QStringLiteral("x"); x.ns = QStringLiteral("urn:verif:probe"); x.wrap = size;
        n.kids.push_back(x);
        break;
    }
    case SH_DEPTH_UNIT: { Node *u = resolve(n, t.unit); if (!u) return {}; u->wrap = size; break; }
    case SH_CHILDREN: { Node *u = resolve(n, t.unit); if (!u) return {}; u->repeat = size; break; }
    case SH_ATTR_LEN: {
        Node *u = resolve(n, t.attrElem); if (!u) return {};
        bool found = false;
        for (auto &a : u->attrs) if (a.local == QLatin1String(t.attr)) { a.value = QString(size, QChar(u'A')); found = true; }
        if (!found) return {};
        break;
    }
    case SH_TEXT_LEN: {
        if (t.textElem.empty()) return {};
        Node *u = resolve(n, t.textElem); if (!u) return {};
        u->kids.clear();
        Node x; x.isText = true; x.text = QString(size, QChar(u'B')); u->kids.push_back(x);
        break;
    }
    }
    return render(n);
}

static void collectNames(const Node &n, std::set<QString> &out)
{
    if (n.isText) return;
    out.insert(n.local);
    for (auto &k : n.kids) collectNames(k, out);
}

static void runItem(const Work &w, int itemIdx, int resumeParser, Status *st, int &samplesLeft)
{
    st->item = itemIdx; st->parser = -1; st->phase = PH_PREP;
    switch (w.type) {
    case W_DOC: {
        st->counters[C_KIND0 - 1]++;
        int saved = g_cfg.cpuBudget;
        if (g_docs[w.doc].id.rfind("t-", 0) == 0) g_cfg.cpuBudget = 600;
        explore(g_docs[w.doc].xml, g_docs[w.doc].id, "", -1, resumeParser, st, samplesLeft, "", false, false);
        g_cfg.cpuBudget = saved;
        break;
    }
    case W_MUT: {
        vh::Rng rng(g_cfg.seed * 1000003ull + uint64_t(w.doc) * 7919ull + uint64_t(w.mut + 1) * 104729ull);
        Node n = g_nodes[w.doc];
        bool quick = g_cfg.tier == "quick";
        bool bigLong = !quick || rng.below(4) == 0;
        MutCtx ctx { rng, &g_nodes, quick ? 48 : 160, quick ? 1000 : 20000, bigLong ? (1 << 20) : (1 << 16) };
        int kind = w.kind;
        std::string mutDesc;
        int applied = -1;
        for (int tries = 0; tries < M_KINDS && mutDesc.empty(); tries++, kind = (kind + 1) % M_KINDS) {
            if (tries > 0 && isHeavyKind(kind)) continue;   // a cheap kind never falls back to one that blows the document up
            mutDesc = mutate(n, kind, ctx);
            if (mutDesc.empty()) st->counters[C_MUT_NOT_APPLICABLE]++;
            else { st->counters[C_KIND0 + kind]++; applied = kind; }
        }
        if (mutDesc.empty()) return;
        kind = applied;
        QByteArray in = render(n);
        // the exact mutant, so that the parent can name it when this child dies
        printf("D %s\t%s\t%s\n", g_docs[w.doc].id.c_str(), mutDesc.c_str(), escLine(in, 4000).c_str());
        fflush(stdout);
        long long c0 = cpuMicros();
        std::set<QString> vocab; collectNames(g_nodes[w.doc], vocab);
        g_vocab = &vocab;
        explore(in, g_docs[w.doc].id, mutDesc, -1, resumeParser, st, samplesLeft, "", true);
        g_vocab = nullptr;
        st->counters[C_KINDCPU0 + kind] += (cpuMicros() - c0) / 1000;
        break;
    }
    case W_SWEEP: {
        // w.mut = index of the single-point edit in the deterministic enumeration of document w.doc
        Node n = g_nodes[w.doc];
        auto ops = enumerateSweep(n);
        if (w.mut < 0 || size_t(w.mut) >= ops.size()) return;
        std::string mutDesc = applySweep(n, ops[w.mut]);
        if (mutDesc.empty()) { st->counters[C_MUT_NOT_APPLICABLE]++; return; }
        st->counters[C_SWEEP0 + ops[w.mut].type]++;
        QByteArray in = render(n);
        printf("D %s\t%s\t%s\n", g_docs[w.doc].id.c_str(), mutDesc.c_str(), escLine(in, 4000).c_str());
        fflush(stdout);
        std::set<QString> vocab; collectNames(g_nodes[w.doc], vocab);
        g_vocab = &vocab;
        explore(in, g_docs[w.doc].id, mutDesc, -1, resumeParser, st, samplesLeft, "", true);
        g_vocab = nullptr;
        break;
    }
    case W_RICH: {
        // w.mut = index in the deterministic enumeration of (parent, child kind, 2|3) of document w.doc
        Node n = g_nodes[w.doc];
        auto ops = enumerateRich(n, g_catalogue);
        if (w.mut < 0 || size_t(w.mut) >= ops.size()) return;
        std::string mutDesc = applyRich(n, ops[w.mut], g_catalogue, unsigned(w.kind));
        if (mutDesc.empty()) { st->counters[C_MUT_NOT_APPLICABLE]++; return; }
        st->counters[C_RICH]++;
        QByteArray in = render(n);
        printf("D %s\t%s\t%s\n", g_docs[w.doc].id.c_str(), mutDesc.c_str(), escLine(in, 4000).c_str());
        fflush(stdout);
        explore(in, g_docs[w.doc].id, mutDesc, -1, resumeParser, st, samplesLeft, "", true);
        break;
    }
    case W_DEFAULT: {
        if (resumeParser >= w.parser) return;
        const vt::Codec &c = g_table[w.parser];
        if (!c.defaultOutput) return;
        st->parser = w.parser; st->phase = PH_RUN1;
        QByteArray o0 = timed(st, [&] { return c.defaultOutput(); });
        if (o0.isEmpty()) return;
        // own outputs carry no namespace of their own when the class relies on its parent's: nothing to feed then unless well-formed
        if (!summarizeXml(o0, QString()).wellFormed) {
            failLine("C02:output-not-wellformed:" + fam(c.name), c.name, "default-constructed", "", {}, o0, {}, {}, "serialization of a default-constructed object");
            return;
        }
        explore(o0, "default:" + c.name, "", w.parser, -1, st, samplesLeft, "", false);
        break;
    }
    case W_PROBE: {
        QByteArray in = probeDoc(w.doc, w.shape, w.size);
        if (in.isEmpty()) return;
        st->counters[C_PROBE_ITEMS]++;
        std::string tag = std::string(templates()[w.doc].name) + "\t" + std::to_string(w.shape) + "\t" + std::to_string(w.size);
        std::string id = std::string("probe:") + templates()[w.doc].name + ":" + shapeName(w.shape) + (w.shape == SH_DEPTH_UNIT ? "(unit)" : "") + "=" + std::to_string(w.size);
        explore(in, id, "", w.parser, resumeParser, st, samplesLeft, tag, false);
        break;
    }
    }
}

int main(int argc, char **argv)
{
    QCoreApplication app(argc, argv);
    vh::Args a = vh::parseArgs(argc, argv);
    g_cfg.tier = a.tier; g_cfg.seed = a.seed; g_cfg.mode = a.mode;
    if (const char *e = getenv("VERIF_WORKERS")) g_cfg.workers = atoi(e);
    for (int i = 1; i < argc; i++) {
        std::string s = argv[i];
        auto next = [&]() -> std::string { return i + 1 < argc ? argv[++i] : ""; };
        if (s == "--workers") g_cfg.workers = atoi(next().c_str());
        else if (s == "--depth") g_cfg.depth = atoi(next().c_str());
        else if (s == "--only") g_cfg.only = next();
        else if (s == "--docs") g_cfg.docs = next();
        else if (s == "--per-doc") g_cfg.perDoc = atoi(next().c_str());
        else if (s == "--no-mutations") g_cfg.mutations = false;
        else if (s == "--no-probes") g_cfg.probes = false;
        else if (s == "--sweep") g_cfg.sweepShare = atoi(next().c_str());
        else if (s == "--heavy-quota") g_cfg.heavyQuota = atoi(next().c_str());
        else if (s == "--list") g_cfg.list = true;
        else if (s == "--show-not-admitted") g_cfg.showNotAdmitted = true;
        else if (s == "--cpu-budget") g_cfg.cpuBudget = atoi(next().c_str());
        else if (s == "--shrink-key") g_cfg.shrinkKey = next();
        else if (s == "--shrink-parser") g_cfg.shrinkParser = next();
        else if (s == "--shrink-xml") g_cfg.shrinkFile = next();
        else if (s == "--single-probe") g_cfg.singleProbe = next();   // <template index>,<shape index>,<size>
    }
    if (g_cfg.mode == "c01") g_cfg.probes = false;   // the scaling / big-depth probes only have C02 keys
    if (g_cfg.workers < 1) g_cfg.workers = 1;
    if (g_cfg.workers > 32) g_cfg.workers = 32;
    bool quick = g_cfg.tier == "quick";
    if (g_cfg.depth <= 0) g_cfg.depth = quick ? 1000 : 10000;
    if (g_cfg.perDoc < 0) g_cfg.perDoc = quick ? 4 : 24;
    if (g_cfg.sweepShare < 0) g_cfg.sweepShare = quick ? 8 : 100;

    {   // registers the QXmppExportData extension parsers (roster, vcard) as a real client does
        QXmppClient registrar;
    }
    g_table = vt::buildTable();
    if (g_cfg.list) {
        for (auto &c : g_table) {
            printf("%s\t%s\t%s\t", c.name.c_str(), c.typeChecked ? "typed" : "untyped", c.parseOnly ? "parse-only" : "codec");
            for (auto &x : c.covers) printf("%s;", x.c_str());
            printf("\n");
        }
        for (auto &x : vt::serializeOnly()) printf("-\tserialize-only\t-\t%s;\n", x.c_str());
        return 0;
    }

    std::string root = verifRoot();
    auto regress = loadCorpusFile(root + "/corpus/c02_regress.txt");
    auto corpus = loadCorpusFile(root + "/corpus/test_xml.txt");
    if (corpus.empty()) { fprintf(stderr, "corpus %s/corpus/test_xml.txt missing or empty (run tools/extract_corpus.py)\n", root.c_str()); return 3; }
    long rejected = 0;
    auto add = [&](const std::vector<Doc> &v, bool raw) {
        for (auto &d : v) {
            if (!g_cfg.docs.empty() && d.id.find(g_cfg.docs) == std::string::npos) continue;
            QDomDocument doc;
            if (!doc.setContent(d.xml, true) || doc.documentElement().isNull()) { rejected++; continue; }
            g_docs.push_back(d);
            if (raw) {   // regress documents are replayed verbatim and never mutated (they may be thousands of levels deep)
                Summary s = summarizeElement(doc.documentElement());
                safeClear(doc, s.maxDepth);
                g_nodes.push_back(Node());
            } else g_nodes.push_back(nodeFromDom(doc.documentElement()));
        }
    };
    add(regress, true); g_nRegress = g_docs.size();
    add(corpus, false);
    // every distinct descendant element of a corpus document is a document of its own (id <doc>/<path>): this is what feeds the
    // parsers of embedded elements (hash, thumbnail, file share, affiliation, ...) that never occur as a root in the test-suite
    size_t nTop = g_docs.size();
    {
        std::set<std::pair<uint64_t, uint64_t>> seen;
        for (size_t i = g_nRegress; i < nTop; i++) { Summary s = summarizeXml(g_docs[i].xml, QString()); seen.insert({ s.ordered.a, s.ordered.b }); }
        std::function<void(const Node &, const std::string &, const std::string &)> rec = [&](const Node &n, const std::string &id, const std::string &path) {
            int k = 0;
            for (auto &c : n.kids) {
                if (c.isText) continue;
                std::string cp = path + "/" + std::to_string(k++);
                QByteArray xml = render(c);
                Summary s = summarizeXml(xml, QString());
                if (s.wellFormed && seen.insert({ s.ordered.a, s.ordered.b }).second) {
                    g_docs.push_back({ id + cp, xml });
                    g_nodes.push_back(c);
                }
                rec(c, id, cp);
            }
        };
        for (size_t i = g_nRegress; i < nTop; i++) { Node copy = g_nodes[i]; std::string id = g_docs[i].id; rec(copy, id, ""); }
    }
    g_nTop = nTop;
    g_catalogue.build(g_nodes);
    for (auto &t : templates()) {
        QDomDocument doc;
        if (!doc.setContent(QByteArray(t.xml), true)) { fprintf(stderr, "template %s is not well-formed\n", t.name); return 3; }
        g_tplNodes.push_back(nodeFromDom(doc.documentElement()));
    }

    __sanitizer_install_malloc_and_free_hooks(onMalloc, onFree);
    Pool pool;
    pool.workers = g_cfg.workers;
    // one work directory per run: several checks (C01 and C02 both use this harness) may run at the same time
    ::mkdir((root + "/.build/harness/parsers.work").c_str(), 0755);
    pool.workDir = root + "/.build/harness/parsers.work/" + std::to_string(getpid());
    pool.tag = "p";
    pool.init();
    g_failDir = root + "/.build/harness/parsers.fail";
    ::mkdir(g_failDir.c_str(), 0755);

    std::map<std::string, long> failCount;
    long suppressed = 0, crashes = 0, workTotal = 0;
    int xLeft = g_cfg.showNotAdmitted ? 200 : 8;
    QElapsedTimer wall; wall.start();
    // probe timings: (parser, template, shape) -> size -> cpu micros
    std::map<std::string, std::map<int, long long>> timings, allocs;
    std::set<std::string> probeCrashed;   // parser names that crashed / timed out in a depth probe

    auto runStage = [&](const char *stageName, const std::vector<Work> &work, int batchSize) {
        if (work.empty()) return;
        workTotal += long(work.size());
        int nBatches = int((work.size() + batchSize - 1) / batchSize);
        pool.tag = stageName;
        auto childFn = [&](int batch, int resumeItem, int resumeParser, Status *st) {
            int samplesLeft = batch % 7 == 3 ? 1 : 0;
            size_t lo = size_t(batch) * batchSize, hi = std::min(work.size(), lo + batchSize);
            for (size_t k = lo; k < hi; k++) {
                int idx = int(k - lo);
                if (idx < resumeItem) continue;
                int rp = -1;
                if (idx == resumeItem) { if (resumeParser < 0) continue; rp = resumeParser; }
                runItem(work[k], idx, rp, st, samplesLeft);
            }
        };
        auto onResult = [&](const ChildResult &r, const QByteArray &out) {
            for (const QByteArray &line : out.split('\n')) {
                if (line.startsWith("O FAIL ")) {
                    int t = line.indexOf('\t');
                    std::string key = line.mid(7, t < 0 ? -1 : t - 7).toStdString();
                    if (++failCount[key] <= 3) { fwrite(line.constData(), 1, line.size(), stdout); fputc('\n', stdout); }
                    else suppressed++;
                } else if (line.startsWith("X ")) {
                    if (xLeft > 0) { xLeft--; fwrite(line.constData(), 1, line.size(), stdout); fputc('\n', stdout); }
                } else if (line.startsWith("T ")) {
                    auto f = line.mid(2).split('\t');
                    if (f.size() == 6) {
                        std::string k = (f[0] + "\t" + f[1] + "\t" + f[2]).toStdString();
                        timings[k][f[3].toInt()] = f[4].toLongLong();
                        allocs[k][f[3].toInt()] = f[5].toLongLong();
                    }
                }
            }
            QByteArray lastD;
            if (r.crashed) for (const QByteArray &line : out.split('\n')) if (line.startsWith("D ")) lastD = line.mid(2);
            if (r.crashed) {
                crashes++;
                size_t k = size_t(r.batch) * batchSize + size_t(std::max(0, r.item));
                const Work *w = k < work.size() ? &work[k] : nullptr;
                std::string what = classifyCrash(r);
                if (r.signal == SIGVTALRM) what = "timeout";
                std::string parser = r.parser >= 0 && r.parser < int(g_table.size()) ? g_table[r.parser].name : "-";
                bool inLibrary = r.phase == PH_ADMIT || r.phase == PH_RUN1 || r.phase == PH_RUN2 || r.phase == PH_RUN3;
                std::string docId = "?", kind = "none", xml;
                if (w) {
                    if (w->type == W_DOC || w->type == W_MUT || w->type == W_SWEEP || w->type == W_RICH) { docId = g_docs[w->doc].id; xml = escLine(g_docs[w->doc].xml, 700); if (w->type == W_MUT) kind = mutName(w->kind); if (w->type == W_SWEEP) kind = "sweep"; if (w->type == W_RICH) kind = "rich-siblings"; }
                    else if (w->type == W_DEFAULT) docId = "default:" + g_table[w->parser].name;
                    else { docId = std::string("probe:") + templates()[w->doc].name + ":" + shapeName(w->shape) + "=" + std::to_string(w->size); xml = templates()[w->doc].xml; kind = shapeName(w->shape); }
                    if (w->type == W_PROBE && (w->shape == SH_DEPTH || w->shape == SH_DEPTH_UNIT)) probeCrashed.insert(parser);
                }
                std::string key = inLibrary ? "C02:crash:" + fam(parser) + ":" + what : "C02:harness:" + std::string(phaseName(r.phase)) + ":" + what;
                // name the input the way the line protocol asks for, then the failure itself
                printf("I %s %s stage=%s work=%zu kind=%s phase=%s\n", parser.c_str(), docId.c_str(), stageName, k, kind.c_str(), phaseName(r.phase));
                std::string tail = r.errText;
                auto sp = tail.find("SUMMARY:");
                std::string summary = sp == std::string::npos ? "" : tail.substr(sp, tail.find('\n', sp) - sp);
                auto ep = tail.find("ERROR: ");
                if (ep == std::string::npos) ep = tail.find("runtime error: ");
                std::string first = ep == std::string::npos ? "" : tail.substr(ep, tail.find('\n', ep) - ep);
                if (!lastD.isEmpty() && w && (w->type == W_MUT || w->type == W_SWEEP || w->type == W_RICH)) {
                    auto df = lastD.split('\t');
                    if (df.size() == 3 && !df[2].contains("...[")) dumpFailingInput(key, parser, (df[0] + "|" + df[1]).toStdString(), unescLine(df[2]));
                } else if (w && w->type == W_DOC) dumpFailingInput(key, parser, docId, g_docs[w->doc].xml);
                if (!keyInMode(key)) { /* crash keys belong to C02 */ }
                else if (++failCount[key] <= 3) {
                    printf("O FAIL %s\tparser=%s doc=%s stage=%s work=%zu seed=%llu kind=%s phase=%s exit=%d signal=%d cpu-budget=%ds %s | %s | base-document=%s | exact-input(id,mutation,xml)=%s | child-output=%s\n",
                           key.c_str(), parser.c_str(), docId.c_str(), stageName, k, (unsigned long long)g_cfg.seed, kind.c_str(), phaseName(r.phase), r.exitCode, r.signal,
                           g_cfg.cpuBudget, escLine(QByteArray::fromStdString(first), 300).c_str(), escLine(QByteArray::fromStdString(summary), 300).c_str(),
                           xml.c_str(), lastD.constData(), r.outPath.c_str());
                } else suppressed++;
            }
            fflush(stdout);
        };
        pool.run(nBatches, childFn, onResult);
    };

    if (!g_cfg.singleProbe.empty()) {
        int t = 0, sh = 0, sz = 0;
        sscanf(g_cfg.singleProbe.c_str(), "%d,%d,%d", &t, &sh, &sz);
        runStage("sp", { { W_PROBE, t, -1, -1, -1, sh, sz } }, 1);
        for (auto &kv : timings) for (auto &sv : kv.second) printf("X %s size=%d cpu_us=%lld alloc=%lld\n", kv.first.c_str(), sv.first, sv.second, allocs[kv.first][sv.first]);
        vh::finish();
        return 0;
    }
    if (!g_cfg.shrinkKey.empty()) {
        // delta-debugging: greedily delete elements / attributes / text while the SAME key still fails for the given parser
        int pidx = -1;
        for (size_t p = 0; p < g_table.size(); p++) if (g_table[p].name == g_cfg.shrinkParser) pidx = int(p);
        QFile f(QString::fromStdString(g_cfg.shrinkFile));
        if (pidx < 0 || !f.open(QIODevice::ReadOnly)) { fprintf(stderr, "--shrink: unknown parser or unreadable file\n"); return 3; }
        QByteArray xml = f.readAll().trimmed();
        if (xml.startsWith("<!--")) xml = xml.mid(xml.indexOf("-->") + 3).trimmed();
        QDomDocument sd;
        if (!sd.setContent(xml, true)) { fprintf(stderr, "--shrink: input not well-formed\n"); return 3; }
        Node cur = nodeFromDom(sd.documentElement());
        long trials = 0;
        auto fails = [&](const Node &n) {
            trials++;
            std::set<std::string> keys;
            QByteArray doc = render(n);
            Work w { W_DOC, 0, -1, -1, pidx, 0, 0 };
            pool.tag = "shrink";
            auto childFn = [&](int, int, int, Status *st) { int sl = 0; explore(doc, "shrink", "", pidx, -1, st, sl, "", true); };
            auto onResult = [&](const ChildResult &r, const QByteArray &out) {
                for (const QByteArray &line : out.split('\n')) if (line.startsWith("O FAIL ")) {
                    int t = line.indexOf('\t');
                    std::string k = line.mid(7, t < 0 ? -1 : t - 7).toStdString();
                    keys.insert(k);
                }
                if (r.crashed) { std::string what = classifyCrash(r); if (r.signal == SIGVTALRM) what = "timeout"; keys.insert("C02:crash:" + fam(g_table[pidx].name) + ":" + what); }
            };
            pool.run(1, childFn, onResult, 0);
            (void)w;
            return keys.count(g_cfg.shrinkKey) > 0;
        };
        if (!fails(cur)) { printf("the given document does not fail with key %s for parser %s\n", g_cfg.shrinkKey.c_str(), g_cfg.shrinkParser.c_str()); return 1; }
        bool progress = true;
        while (progress) {
            progress = false;
            std::vector<std::vector<int>> elems; std::vector<int> tmp;
            collectElems(cur, tmp, elems);
            // 1. delete whole child nodes (elements and text), deepest paths last so big subtrees go first
            for (size_t e = 0; e < elems.size() && !progress; e++) {
                Node *n = resolve(cur, elems[e]);
                for (size_t k = 0; n && k < n->kids.size(); k++) {
                    Node cand = cur;
                    Node *cn = resolve(cand, elems[e]);
                    cn->kids.erase(cn->kids.begin() + k);
                    if (fails(cand)) { cur = cand; progress = true; break; }
                }
            }
            if (progress) continue;
            // 2. hoist: replace an element by its single element child
            // 3. delete attributes, shorten values and text
            for (size_t e = 0; e < elems.size() && !progress; e++) {
                Node *n = resolve(cur, elems[e]);
                for (size_t k = 0; n && k < n->attrs.size() && !progress; k++) {
                    Node cand = cur; Node *cn = resolve(cand, elems[e]);
                    cn->attrs.erase(cn->attrs.begin() + k);
                    if (fails(cand)) { cur = cand; progress = true; break; }
                    if (n->attrs[k].value.size() > 1) {
                        Node cand2 = cur; resolve(cand2, elems[e])->attrs[k].value = QStringLiteral("x");
                        if (fails(cand2)) { cur = cand2; progress = true; break; }
                    }
                }
                for (size_t k = 0; n && k < n->kids.size() && !progress; k++)
                    if (n->kids[k].isText && n->kids[k].text.size() > 1) {
                        Node cand = cur; resolve(cand, elems[e])->kids[k].text = QStringLiteral("x");
                        if (fails(cand)) { cur = cand; progress = true; }
                    }
                if (n && (n->wrap > 1 || n->repeat > 2) && !progress) {
                    Node cand = cur; Node *cn = resolve(cand, elems[e]); cn->wrap /= 2; cn->repeat = std::max(1, cn->repeat / 2);
                    if (fails(cand)) { cur = cand; progress = true; }
                }
            }
        }
        printf("shrunk after %ld trials:\n%s\n", trials, render(cur).constData());
        return 0;
    }
    // ---- stage 0: regress + defaults + every document unmutated
    {
        std::vector<Work> work;
        for (size_t i = 0; i < g_nRegress; i++) {
            if (quick && g_docs[i].id.rfind("t-", 0) == 0) continue;   // "t-" regress documents are expensive: thorough tier only
            work.push_back({ W_DOC, int(i), -1, -1, -1, 0, 0 });
        }
        for (size_t p = 0; p < g_table.size(); p++) if (g_table[p].defaultOutput) work.push_back({ W_DEFAULT, 0, -1, -1, int(p), 0, 0 });
        for (size_t i = g_nRegress; i < g_docs.size(); i++) work.push_back({ W_DOC, int(i), -1, -1, -1, 0, 0 });
        runStage("s0", work, 24);
    }
    // ---- stage 1: scaling probes
    std::vector<int> depthSizes = quick ? std::vector<int> { 64, 256 } : std::vector<int> { 100, 200, 400, 800 };
    std::vector<int> childSizes = quick ? std::vector<int> { 250, 1000 } : std::vector<int> { 1000, 2000, 4000, 8000 };
    std::vector<int> lenSizes = quick ? std::vector<int> { 1 << 16, 1 << 18 } : std::vector<int> { 1 << 16, 1 << 18, 1 << 20 };
    if (g_cfg.probes) {
        std::vector<Work> work;
        for (size_t t = 0; t < templates().size(); t++)
            for (int sh = 0; sh < SH_COUNT; sh++) {
                if (quick && sh == SH_DEPTH_UNIT) continue;
                const auto &sizes = (sh == SH_DEPTH || sh == SH_DEPTH_UNIT) ? depthSizes : sh == SH_CHILDREN ? childSizes : lenSizes;
                for (int sz : sizes) work.push_back({ W_PROBE, int(t), -1, -1, -1, sh, sz });
            }
        runStage("s1", work, 1);
        // evaluate growth per (parser, template, shape): exponent e of cost ~ size^e between the smallest and the largest size.
        //  * allocated bytes (deterministic): reported when e > 1.5 and the largest run allocated >= 1 MB
        //  * CPU time (noisy): reported only when unmistakable, e > 1.8 and the largest run took >= 1 s CPU; smaller effects are
        //    listed as suspects in the statistics
        std::map<std::string, std::string> worst;   // key -> replay text (largest exponent wins)
        std::map<std::string, double> worstExp;
        auto tplXml = [&](const QByteArray &name) { for (auto &t : templates()) if (name == t.name) return std::string(t.xml); return std::string(); };
        for (auto &kv : timings) {
            if (kv.second.size() < 2) continue;
            vh::stat("probe_series_evaluated");
            QList<QByteArray> f = QByteArray::fromStdString(kv.first).split('\t');
            int shape = f[2].toInt();
            auto &al = allocs[kv.first];
            auto lo = *kv.second.begin(), hi = *kv.second.rbegin();
            double r = std::log(double(hi.first) / double(lo.first));
            double expoT = std::log(double(hi.second) / std::max<double>(double(lo.second), 500.0)) / r;
            double expoA = std::log(std::max<double>(double(al.rbegin()->second), 1.0) / std::max<double>(double(al.begin()->second), 4096.0)) / r;
            std::string series;
            for (auto &sv : kv.second) series += " " + std::to_string(sv.first) + "->" + std::to_string(sv.second) + "us/" + std::to_string(al[sv.first]) + "B";
            auto report = [&](const std::string &key, double e, const char *measure) {
                if (e <= worstExp[key]) return;
                worstExp[key] = e;
                worst[key] = "parser=" + f[0].toStdString() + " template=" + f[1].toStdString() + " dimension=" + shapeName(shape) + (shape == SH_DEPTH_UNIT ? "(self-nested unit)" : "") +
                    " measure=" + measure + " growth-exponent=" + std::to_string(e) + " cost-by-size(cpu-us/allocated-bytes):" + series + " (sanitizer build; template document: " + tplXml(f[1]) + ")";
            };
            if (expoA > 1.5 && al.rbegin()->second >= (1 << 20)) report("C02:superlinear:" + fam(f[0].toStdString()) + ":" + shapeName(shape), expoA, "allocated-bytes");
            else if (expoT > 1.8 && hi.second >= 1000000) report("C02:superlinear-cpu:" + fam(f[0].toStdString()) + ":" + shapeName(shape), expoT, "cpu-time");
            else if (expoT > 1.6 && hi.second >= 50000) { vh::stat("cpu_superlinear_suspects"); if (xLeft > 0) { xLeft--; printf("X cpu-time suspect (not reported): %s %s %s exponent %.2f:%s\n", f[0].constData(), f[1].constData(), shapeName(shape), expoT, series.c_str()); } }
        }
        for (auto &kv : worst) if (keyInMode(kv.first)) { printf("O FAIL %s\t%s\n", kv.first.c_str(), kv.second.c_str()); failCount[kv.first]++; }
        vh::stat("probe_series", long(timings.size()));
        vh::stat("probe_repetitions_per_point", PROBE_REPS);
        auto list = [](const std::vector<int> &v) { std::string o; for (int x : v) o += (o.empty() ? "" : ",") + std::to_string(x); return o; };
        printf("S probe_sizes_depth %s\nS probe_sizes_children %s\nS probe_sizes_attr_and_text_length %s\n", list(depthSizes).c_str(), list(childSizes).c_str(), list(lenSizes).c_str());
        printf("S superlinear_rule cost(n)~n^e between the smallest and largest size, each point the median of %d repetitions; reported when e>1.5 on ALLOCATED BYTES "
               "(malloc hook, load independent) and the largest point allocated >=1MiB; on CPU time only when e>1.8 and the largest point took >=1s (ITIMER_VIRTUAL process CPU, not wall clock); "
               "linear code gives e~1.0, the QXmppElement defect e~2.0\n", PROBE_REPS);
        printf("S crash_rule per call budget %d s process CPU (+6x wall backstop); big-depth probe %d levels for parsers found linear; thorough tier only: QXmppElement at 6000 levels with a 600 s budget, "
               "client fed a 6000-level message over the socket with a 900 s budget\n", g_cfg.cpuBudget, g_cfg.depth);
    }
    // ---- stage 2: big depth (stack use) for parsers that scaled linearly in depth and did not time out
    if (g_cfg.probes) {
        std::set<std::string> slow;
        for (auto &kv : failCount)
            for (const char *pre : { "C02:superlinear:", "C02:superlinear-cpu:" }) {
                size_t pl = strlen(pre);
                if (kv.first.rfind(pre, 0) == 0 && kv.first.size() > pl + 6 && kv.first.substr(kv.first.size() - 6) == ":depth") slow.insert(kv.first.substr(pl, kv.first.size() - pl - 6));
            }
        std::vector<Work> work;
        long skippedSlow = 0;
        for (size_t t = 0; t < templates().size(); t++)
            for (size_t p = 0; p < g_table.size(); p++) {
                if (quick && !quickTemplate(t)) continue;
                // only pairs that were admitted in stage 1
                bool any = false;
                for (int sh : { SH_DEPTH, SH_DEPTH_UNIT }) any |= timings.count(g_table[p].name + "\t" + templates()[t].name + "\t" + std::to_string(sh)) > 0;
                if (!any) continue;
                if (slow.count(fam(g_table[p].name)) || probeCrashed.count(g_table[p].name)) { skippedSlow++; continue; }
                work.push_back({ W_PROBE, int(t), -1, -1, int(p), SH_DEPTH, g_cfg.depth });
                if (!quick) work.push_back({ W_PROBE, int(t), -1, -1, int(p), SH_DEPTH_UNIT, g_cfg.depth });
            }
        vh::stat("bigdepth_pairs_skipped_superlinear", skippedSlow);
        vh::stat("bigdepth_items", long(work.size()));
        runStage("s2", work, quick ? 8 : 2);
        // thorough only: the generic-element passthrough is super-linear in depth, so reaching a depth where its recursion exhausts
        // the stack takes minutes of CPU in the sanitizer build; one targeted run with a large budget (release build: SIGSEGV at the
        // same depth with the default 8 MB stack)
        if (!quick) {
            std::vector<Work> deepWork;
            for (size_t p = 0; p < g_table.size(); p++)
                if (g_table[p].name == "QXmppElement" && slow.count("QXmppElement")) deepWork.push_back({ W_PROBE, int(templates().size()) - 1, -1, -1, int(p), SH_DEPTH, 6000 });
            int saved = g_cfg.cpuBudget;
            g_cfg.cpuBudget = 600;
            runStage("s2b", deepWork, 1);
            g_cfg.cpuBudget = saved;
        }
    }
    // ---- stage 3: mutations. The 24 cheap kinds are dealt round-robin so every kind gets an equal share; the 4 kinds that produce
    // big documents (attr-long, text-long, wide, deep-nest) get a fixed quota of documents chosen with the seeded RNG.
    if (g_cfg.mutations) {
        std::vector<Work> work;
        std::vector<int> cheap, heavy;
        for (int k = 0; k < M_KINDS; k++) (isHeavyKind(k) ? heavy : cheap).push_back(k);
        size_t g = size_t(g_cfg.seed % cheap.size());
        int perSub = std::max(1, g_cfg.perDoc / 6);   // top-level documents get perDoc mutants each, extracted sub-elements perDoc/6
        for (int m = 0; m < g_cfg.perDoc; m++)
            for (size_t i = g_nRegress; i < g_docs.size(); i++)
                if (i < g_nTop || m < perSub) work.push_back({ W_MUT, int(i), m, cheap[(g++) % cheap.size()], -1, 0, 0 });
        vh::Rng hr(g_cfg.seed * 77773ull + 5);
        int quota = g_cfg.heavyQuota >= 0 ? g_cfg.heavyQuota : quick ? 8 : 40;
        for (int k : heavy)
            for (int q = 0; q < quota; q++) work.push_back({ W_MUT, int(g_nRegress + hr.below(uint32_t(g_docs.size() - g_nRegress))), 1000 + q, k, -1, 0, 0 });
        runStage("s3", work, 24);
    }

    // ---- stage 4: systematic single-point sweep over the top-level documents (seed only selects the sample in the quick tier)
    if (g_cfg.mutations) {
        std::vector<Work> all;
        for (size_t i = g_nRegress; i < g_nTop; i++) {
            Node n = g_nodes[i];
            size_t nops = enumerateSweep(n).size();
            for (size_t o = 0; o < nops; o++) all.push_back({ W_SWEEP, int(i), int(o), -1, -1, 0, 0 });
        }
        vh::stat("sweep_space", long(all.size()));
        std::vector<Work> work;
        if (g_cfg.sweepShare >= 100) work = all;
        else {
            vh::Rng sr(g_cfg.seed * 31337ull + 3);
            for (auto &w : all) if (int(sr.below(100)) < g_cfg.sweepShare) work.push_back(w);
        }
        vh::stat("sweep_items", long(work.size()));
        runStage("s4", work, 32);
    }

    // ---- stage 5: repeated complex children (deterministic; complete in both tiers, the seed only rotates which catalogue instances
    // are combined): every (parent, child kind) of every top-level document gets that kind replaced by 2 and by 3 rich siblings
    if (g_cfg.mutations) {
        std::vector<Work> work;
        for (size_t i = g_nRegress; i < g_nTop; i++) {
            Node n = g_nodes[i];
            size_t nops = enumerateRich(n, g_catalogue).size();
            for (size_t o = 0; o < nops; o++) work.push_back({ W_RICH, int(i), int(o), int(g_cfg.seed % 5), -1, 0, 0 });
        }
        vh::stat("rich_sibling_items", long(work.size()));
        vh::stat("rich_sibling_catalogue_kinds", long(g_catalogue.byName.size()));
        runStage("s5", work, 32);
    }

    // ---- totals
    long long *T = pool.totals;
    vh::oraclePass() = T[C_PASS];
    vh::stat("parsers", long(g_table.size()));
    long typed = 0, parseOnly = 0;
    for (auto &c : g_table) { typed += c.typeChecked; parseOnly += c.parseOnly; }
    vh::stat("parsers_with_type_check", typed);
    vh::stat("parsers_parse_only", parseOnly);
    vh::stat("documents", long(g_docs.size()));
    vh::stat("documents_regress", long(g_nRegress));
    vh::stat("documents_top_level", long(g_nTop));
    vh::stat("documents_sub_elements", long(g_docs.size() - g_nTop));
    vh::stat("corpus_rejected_by_qdom", rejected);
    vh::stat("work_items", workTotal);
    vh::stat("items_run", T[C_ITEMS]);
    vh::stat("probe_items", T[C_PROBE_ITEMS]);
    vh::stat("mutation_kinds", M_KINDS);
    vh::stat("admits_calls", T[C_ADMIT_CALLS]);
    vh::stat("admitted_pairs", T[C_ADMITTED]);
    vh::stat("admitted_pairs_typed_parsers", T[C_ADMITTED_TYPED]);
    vh::stat("parse_serialize_runs", T[C_RUNS]);
    vh::stat("outputs_checked", T[C_OUT_CHECKED]);
    vh::stat("bytes_in", T[C_BYTES_IN]);
    vh::stat("bytes_out", T[C_BYTES_OUT]);
    vh::stat("empty_outputs", T[C_EMPTY_OUT]);
    vh::stat("parse_only_runs", T[C_PARSEONLY_RUNS]);
    vh::stat("fixpoint_up_to_sibling_order", T[C_FIX_ORDER_ONLY]);
    vh::stat("ownform_up_to_sibling_order", T[C_OWN_ORDER_ONLY]);
    vh::stat("own_output_not_admitted_by_own_type_check", T[C_OWN_NOT_ADMITTED]);
    vh::stat("default_output_not_admitted", T[C_DEFAULT_NOT_ADMITTED]);
    vh::stat("container_alters_input_not_in_own_form", T[C_PASSTHROUGH_ALTERS_NONOWN]);
    vh::stat("inputs_not_wellformed", T[C_MUT_NOT_WF]);
    vh::stat("mutation_kind_not_applicable", T[C_MUT_NOT_APPLICABLE]);
    vh::stat("canon_crosschecks", T[C_XCHECK]);
    vh::stat("canon_differs_only_in_ns_declarations", T[C_NSDECL_ONLY]);
    vh::stat("oracle_failures", T[C_FAIL]);
    vh::stat("child_crashes", crashes);
    vh::stat("crash_storms", pool.crashStorms);
    vh::stat("fail_lines_suppressed", suppressed);
    vh::stat("max_call_cpu_ms", T[C_MAX_CALL_MS]);
    vh::stat("max_depth_passed", T[C_MAX_DEPTH_OK]);
    vh::stat("bigdepth", g_cfg.depth);
    vh::stat("workers", g_cfg.workers);
    vh::stat("wall_ms", wall.elapsed());
    vh::stat("kind:unmutated", T[C_KIND0 - 1]);
    vh::stat("kind:rich-siblings", T[C_RICH]);
    for (int k = 0; k < SW_TYPES; k++) vh::stat(std::string("kind:") + sweepName(k), T[C_SWEEP0 + k]);
    for (int k = 0; k < M_KINDS; k++) { vh::stat(std::string("kind:") + mutName(k), T[C_KIND0 + k]); vh::stat(std::string("kind_cpu_ms:") + mutName(k), T[C_KINDCPU0 + k]); }
    long never = 0;
    std::string neverNames;
    for (size_t p = 0; p < g_table.size(); p++) {
        vh::stat("admitted:" + g_table[p].name, T[C_PARSER0 + p]);
        if (T[C_NOTADM0 + p]) vh::stat("own_output_not_admitted:" + g_table[p].name, T[C_NOTADM0 + p]);
        if (T[C_PARSER0 + p] == 0 && (g_cfg.only.empty() || g_table[p].name.find(g_cfg.only) != std::string::npos)) { never++; neverNames += g_table[p].name + " "; }
    }
    vh::stat("parsers_never_admitting", never);
    if (never) printf("X parsers that admitted no document this run: %s\n", neverNames.c_str());
    // A parser with a type check that rejects EVERY document of the corpus - which holds at least one document written from the
    // XEP for each class - and its own default output rejects valid input (only judged on complete runs).
    if (g_cfg.only.empty() && g_cfg.docs.empty())
        for (size_t p = 0; p < g_table.size(); p++)
            if (T[C_PARSER0 + p] == 0 && g_table[p].typeChecked) {
                std::string key = "C01:valid-document-rejected:" + fam(g_table[p].name);
                if (!keyInMode(key)) continue;
                printf("O FAIL %s\tparser=%s admitted none of %zu documents (corpus, sub-elements, hand-written seeds), e.g. for QXmppHashUsed <hash-used xmlns='urn:xmpp:hashes:2' algo='sha-256'/>\n", key.c_str(), g_table[p].name.c_str(), g_docs.size());
                failCount[key]++;
            }
    for (auto &kv : failCount) vh::stat("failcount:" + kv.first, kv.second);
    if (pool.crashStorms) printf("O FAIL C02:harness:crash-storm\t%d batches abandoned after too many child crashes\n", pool.crashStorms);
    if (crashes == 0) {   // crashed batches keep their output for diagnosis
        std::string cmd = "rm -rf '" + pool.workDir + "'";
        if (system(cmd.c_str()) != 0) { /* best effort */ }
    }
    vh::finish();
    return 0;
}
