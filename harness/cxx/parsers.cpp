// C02 (runtime half) + C01 (own-output-form half): model-independent exploration of every XML parser of the library.
//
// For every corpus document (corpus/c02_regress.txt first, then corpus/test_xml.txt) x structural mutations x every parser of
// codec_table.h whose own type check admits the element (parsers without a type check get every document):
//     o1 = serialize(parse(d)),  o2 = serialize(parse(o1)),  o3 = serialize(parse(o2))
// oracles (keys):
//     C02:crash:<parser>:<what>            sanitizer report / signal / exit / timeout inside a library call (what = asan:<type> |
//                                          ubsan:<file>:<line> | signal-N | exit-N | timeout)
//     C02:output-not-wellformed:<parser>   o1 (or o2, o3) is not well-formed XML for QDomDocument
//     C02:not-fixpoint:<parser>            tree(o2) != tree(o3)   (namespace-resolved trees; when only sibling order differs the
//                                          case is counted under fixpoint_up_to_sibling_order and passes)
//     C01:own-form-roundtrip:<parser>      tree(o1) != tree(o2) up to sibling order (o1 is a document in the library's own form)
//     C01:markup-injection:<parser>        an element {urn:canary}canary appears in an output although the input tree had none
//     C02:harness:<what>                   the harness's own code failed (never a finding; makes the check fail visibly)
// Work is cut into batches executed by forked children (c02_common.h Pool): a crash only kills the child; the parent reports
// it with the culprit taken from a shared-memory status block and resumes the batch behind it.
//
// usage: parsers --tier quick|thorough --seed N [--workers N] [--depth N] [--only <parser substring>] [--docs <id substring>]
//                [--per-doc K] [--no-mutations] [--list]
#include "c02_common.h"
#include "codec_table.h"
#include "xmlcanon.h"

#include "QXmppClient.h"

#include <QCoreApplication>
#include <QElapsedTimer>
#include <set>

using namespace c02;

class TestClient   // friend of QXmppStanza: deterministic generated ids
{
public:
    static void resetIds() { QXmppStanza::s_uniqeIdNo = 0; }
};

// shared counter slots (0..7 fold by max, others by sum)
enum {
    C_MAX_CALL_MS = 0, C_MAX_DEPTH_OK = 1,
    C_ITEMS = 8, C_ADMIT_CALLS, C_ADMITTED, C_ADMITTED_TYPED, C_RUNS, C_OUT_CHECKED, C_BYTES_IN, C_BYTES_OUT, C_EMPTY_OUT, C_PARSEONLY_RUNS,
    C_FIX_ORDER_ONLY, C_OWN_ORDER_ONLY, C_OWN_NOT_ADMITTED, C_MUT_NOT_WF, C_MUT_NOT_APPLICABLE, C_PASS, C_FAIL, C_NSDECL_ONLY, C_XCHECK,
    C_KIND0 = 40,      // + mutation kind (M_KINDS <= 40); C_KIND0-1 = unmutated
    C_PARSER0 = 100,   // + parser index: admitted pairs per parser
    C_NOTADM0 = 300,   // + parser index: own output not admitted by the parser's own type check
};

struct Work { int doc; int mut; int kind; };   // mut < 0: unmutated

struct Cfg {
    std::string tier = "quick";
    uint64_t seed = 1;
    int workers = 8;
    int depth = 0;
    int perDoc = -1;
    bool mutations = true;
    std::string only, docs;
    bool list = false;
    bool showNotAdmitted = false;
};

static std::vector<vt::Codec> g_table;
static std::vector<Doc> g_docs;          // regress + corpus
static std::vector<Node> g_nodes;        // parsed corpus (same index)
static size_t g_nRegress = 0, g_nTop = 0;
static Cfg g_cfg;

static void failLine(const std::string &key, const std::string &parser, const Doc &d, const std::string &mut, const QByteArray &in,
                     const QByteArray &o1, const QByteArray &o2, const QByteArray &o3, const std::string &note)
{
    std::string rep = "parser=" + parser + " doc=" + d.id + " mut=" + (mut.empty() ? "none" : mut) + (note.empty() ? "" : " note=" + note) +
        " in=" + escLine(in, 1500) + " o1=" + escLine(o1, 900) + " o2=" + escLine(o2, 900);
    if (!o3.isEmpty()) rep += " o3=" + escLine(o3, 900);
    printf("O FAIL %s\t%s\n", key.c_str(), rep.c_str());
    fflush(stdout);
}

template<typename F>
static auto timed(Status *st, F &&f)
{
    QElapsedTimer t; t.start();
    armBudget(g_cfg.tier == "quick" ? 30 : 60);
    auto r = f();
    disarmBudget();
    long long ms = t.elapsed();
    if (ms > st->counters[C_MAX_CALL_MS]) st->counters[C_MAX_CALL_MS] = ms;
    return r;
}

static void runItem(const Work &w, int itemIdx, int resumeParser, Status *st, int &samplesLeft)
{
    st->item = itemIdx; st->parser = -1; st->phase = PH_PREP;
    const Doc &d = g_docs[w.doc];
    vh::Rng rng(g_cfg.seed * 1000003ull + uint64_t(w.doc) * 7919ull + uint64_t(w.mut + 1) * 104729ull);
    QByteArray in;
    std::string mutDesc;
    if (w.mut < 0) {
        in = d.xml;
        st->counters[C_KIND0 - 1]++;
    } else {
        Node n = g_nodes[w.doc];
        int deep = g_cfg.depth;
        bool bigLong = g_cfg.tier != "quick" || rng.below(4) == 0;
        MutCtx ctx { rng, &g_nodes, deep, g_cfg.tier == "quick" ? 3000 : 20000, bigLong ? (1 << 20) : (1 << 16) };
        int kind = w.kind;
        for (int tries = 0; tries < M_KINDS && mutDesc.empty(); tries++, kind = (kind + 1) % M_KINDS) {
            mutDesc = mutate(n, kind, ctx);
            if (mutDesc.empty()) st->counters[C_MUT_NOT_APPLICABLE]++;
            else st->counters[C_KIND0 + kind]++;
        }
        if (mutDesc.empty()) return;
        in = render(n);
    }
    QDomDocument inDoc;
    armBudget(60);
    bool ok = inDoc.setContent(in, true) && !inDoc.documentElement().isNull();
    disarmBudget();
    if (!ok) {
        st->counters[C_MUT_NOT_WF]++;
        if (w.mut >= 0) { printf("O FAIL C02:harness:mutant-not-wellformed\tdoc=%s mut=%s in=%s\n", d.id.c_str(), mutDesc.c_str(), escLine(in, 600).c_str()); fflush(stdout); }
        return;
    }
    st->counters[C_ITEMS]++;
    QDomElement root = inDoc.documentElement();
    Summary sin = summarizeElement(root);
    const QString ctxNs = root.namespaceURI();

    for (size_t p = 0; p < g_table.size(); p++) {
        if (int(p) <= resumeParser) continue;
        const vt::Codec &c = g_table[p];
        if (!g_cfg.only.empty() && c.name.find(g_cfg.only) == std::string::npos) continue;
        st->parser = int(p);
        st->phase = PH_ADMIT;
        st->counters[C_ADMIT_CALLS]++;
        bool admitted = timed(st, [&] { return c.admits(root); });
        if (!admitted) continue;
        st->counters[C_ADMITTED]++;
        if (c.typeChecked) st->counters[C_ADMITTED_TYPED]++;
        st->counters[C_PARSER0 + p]++;
        st->counters[C_BYTES_IN] += in.size();

        TestClient::resetIds();
        st->phase = PH_RUN1;
        QByteArray o1 = timed(st, [&] { return c.parseAndSerialize(root); });
        st->counters[C_RUNS]++;
        st->counters[C_BYTES_OUT] += o1.size();
        if (c.parseOnly) { st->counters[C_PARSEONLY_RUNS]++; st->counters[C_PASS]++; continue; }
        if (o1.isEmpty()) { st->counters[C_EMPTY_OUT]++; st->counters[C_PASS]++; continue; }

        st->phase = PH_ORACLE;
        armBudget(120);
        QDomDocument d1, d2;
        QDomElement r1, r2;
        Summary s1 = summarizeXml(o1, ctxNs, &d1, &r1);
        disarmBudget();
        st->counters[C_OUT_CHECKED]++;
        bool failed = false;
        QByteArray o2, o3;
        Summary s2, s3;
        if (!s1.wellFormed) {
            failLine("C02:output-not-wellformed:" + c.name, c.name, d, mutDesc, in, o1, {}, {}, "o1");
            failed = true;
        } else {
            if (s1.canaries > sin.canaries) { failLine("C01:markup-injection:" + c.name, c.name, d, mutDesc, in, o1, {}, {}, "canary element in o1"); failed = true; }
            if (c.typeChecked) {
                st->phase = PH_ADMIT;
                bool again = timed(st, [&] { return c.admits(r1); });
                if (!again) {
                    st->counters[C_OWN_NOT_ADMITTED]++; st->counters[C_NOTADM0 + p]++;
                    if (g_cfg.showNotAdmitted) printf("X own output not admitted: %s doc=%s mut=%s in=%s o1=%s\n", c.name.c_str(), d.id.c_str(), mutDesc.c_str(), escLine(in, 500).c_str(), escLine(o1, 500).c_str());
                }
            }
            TestClient::resetIds();
            st->phase = PH_RUN2;
            o2 = timed(st, [&] { return c.parseAndSerialize(r1); });
            st->counters[C_RUNS]++; st->counters[C_BYTES_OUT] += o2.size();
            st->phase = PH_ORACLE;
            armBudget(120);
            if (!o2.isEmpty()) s2 = summarizeXml(o2, ctxNs, &d2, &r2);
            disarmBudget();
            st->counters[C_OUT_CHECKED]++;
            if (o2.isEmpty()) {
                failLine("C01:own-form-roundtrip:" + c.name, c.name, d, mutDesc, in, o1, o2, {}, "own output parsed to an object that serializes to nothing (rejected by the parser)");
                failed = true;
            } else if (!s2.wellFormed) {
                failLine("C02:output-not-wellformed:" + c.name, c.name, d, mutDesc, in, o1, o2, {}, "o2");
                failed = true;
            } else {
                if (s2.canaries > sin.canaries && !failed) { failLine("C01:markup-injection:" + c.name, c.name, d, mutDesc, in, o1, o2, {}, "canary element in o2"); failed = true; }
                if (s1.ordered != s2.ordered) {
                    if (s1.sorted == s2.sorted) st->counters[C_OWN_ORDER_ONLY]++;
                    else { failLine("C01:own-form-roundtrip:" + c.name, c.name, d, mutDesc, in, o1, o2, {}, ""); failed = true; }
                }
                TestClient::resetIds();
                st->phase = PH_RUN3;
                o3 = timed(st, [&] { return c.parseAndSerialize(r2); });
                st->counters[C_RUNS]++; st->counters[C_BYTES_OUT] += o3.size();
                st->phase = PH_ORACLE;
                armBudget(120);
                if (!o3.isEmpty()) s3 = summarizeXml(o3, ctxNs);
                st->counters[C_OUT_CHECKED]++;
                if (o3.isEmpty() || !s3.wellFormed) {
                    failLine(o3.isEmpty() ? "C02:not-fixpoint:" + c.name : "C02:output-not-wellformed:" + c.name, c.name, d, mutDesc, in, o1, o2, o3, "o3");
                    failed = true;
                } else if (s2.ordered != s3.ordered) {
                    if (s2.sorted == s3.sorted) st->counters[C_FIX_ORDER_ONLY]++;
                    else { failLine("C02:not-fixpoint:" + c.name, c.name, d, mutDesc, in, o1, o2, o3, ""); failed = true; }
                } else if (o2.size() < 20000 && s2.maxDepth < 200) {
                    // cross-check the hashed comparison with the declaration-level canonical form shared with the Lean side
                    st->counters[C_XCHECK]++;
                    if (vh::canonOfXml(o2) != vh::canonOfXml(o3)) st->counters[C_NSDECL_ONLY]++;
                }
                disarmBudget();
            }
        }
        if (failed) st->counters[C_FAIL]++;
        else {
            st->counters[C_PASS]++;
            if (samplesLeft > 0 && w.mut >= 0 && c.typeChecked && o1.size() < 400) {
                samplesLeft--;
                printf("X %s doc=%s mut=%s in=%s -> o1=%s (o2,o3 same tree)\n", c.name.c_str(), d.id.c_str(), mutDesc.c_str(), escLine(in, 300).c_str(), escLine(o1, 300).c_str());
            }
        }
        long dep = std::max(std::max(s1.maxDepth, s2.maxDepth), sin.maxDepth);
        if (!failed && dep > st->counters[C_MAX_DEPTH_OK]) st->counters[C_MAX_DEPTH_OK] = dep;
        st->phase = PH_ORACLE;
        safeClear(d1, s1.maxDepth); safeClear(d2, s2.maxDepth);
    }
    st->parser = int(g_table.size());
    st->phase = PH_ORACLE;
    safeClear(inDoc, sin.maxDepth);
}

int main(int argc, char **argv)
{
    QCoreApplication app(argc, argv);
    vh::Args a = vh::parseArgs(argc, argv);
    g_cfg.tier = a.tier; g_cfg.seed = a.seed;
    if (const char *e = getenv("VERIF_WORKERS")) g_cfg.workers = atoi(e);
    for (int i = 1; i < argc; i++) {
        std::string s = argv[i];
        auto next = [&]() -> std::string { return i + 1 < argc ? argv[++i] : ""; };
        if (s == "--workers") g_cfg.workers = atoi(next().c_str());
        else if (s == "--depth") g_cfg.depth = atoi(next().c_str());
        else if (s == "--only") g_cfg.only = next();
        else if (s == "--docs") g_cfg.docs = next();
        else if (s == "--per-doc") g_cfg.perDoc = atoi(next().c_str());
        else if (s == "--no-mutations") g_cfg.mutations = false;
        else if (s == "--list") g_cfg.list = true;
        else if (s == "--show-not-admitted") g_cfg.showNotAdmitted = true;
    }
    if (g_cfg.workers < 1) g_cfg.workers = 1;
    if (g_cfg.workers > 32) g_cfg.workers = 32;
    bool quick = g_cfg.tier == "quick";
    if (g_cfg.depth <= 0) g_cfg.depth = quick ? 1000 : 5000;
    if (g_cfg.perDoc < 0) g_cfg.perDoc = quick ? 6 : 56;

    {   // registers the QXmppExportData extension parsers (roster, vcard) as a real client does
        QXmppClient registrar;
    }
    g_table = vt::buildTable();
    if (g_cfg.list) {
        for (auto &c : g_table) {
            printf("%s\t%s\t%s\t", c.name.c_str(), c.typeChecked ? "typed" : "untyped", c.parseOnly ? "parse-only" : "codec");
            for (auto &x : c.covers) printf("%s;", x.c_str());
            printf("\n");
        }
        for (auto &x : vt::serializeOnly()) printf("-\tserialize-only\t-\t%s;\n", x.c_str());
        return 0;
    }

    std::string root = verifRoot();
    auto regress = loadCorpusFile(root + "/corpus/c02_regress.txt");
    auto corpus = loadCorpusFile(root + "/corpus/test_xml.txt");
    if (corpus.empty()) { fprintf(stderr, "corpus %s/corpus/test_xml.txt missing or empty (run tools/extract_corpus.py)\n", root.c_str()); return 3; }
    long rejected = 0;
    auto add = [&](const std::vector<Doc> &v) {
        for (auto &d : v) {
            if (!g_cfg.docs.empty() && d.id.find(g_cfg.docs) == std::string::npos) continue;
            QDomDocument doc;
            if (!doc.setContent(d.xml, true) || doc.documentElement().isNull()) { rejected++; continue; }
            g_docs.push_back(d);
            g_nodes.push_back(nodeFromDom(doc.documentElement()));
        }
    };
    add(regress); g_nRegress = g_docs.size();
    add(corpus);
    // every distinct descendant element of a corpus document is a document of its own (id <doc>/<path>): this is what feeds the
    // parsers of embedded elements (hash, thumbnail, file share, affiliation, ...) that never occur as a root in the test-suite
    size_t nTop = g_docs.size();
    {
        std::set<std::pair<uint64_t, uint64_t>> seen;
        for (size_t i = 0; i < nTop; i++) { Summary s = summarizeXml(g_docs[i].xml, QString()); seen.insert({ s.ordered.a, s.ordered.b }); }
        std::function<void(const Node &, const std::string &, const std::string &)> rec = [&](const Node &n, const std::string &id, const std::string &path) {
            int k = 0;
            for (auto &c : n.kids) {
                if (c.isText) continue;
                std::string cp = path + "/" + std::to_string(k++);
                QByteArray xml = render(c);
                Summary s = summarizeXml(xml, QString());
                if (s.wellFormed && seen.insert({ s.ordered.a, s.ordered.b }).second) {
                    g_docs.push_back({ id + cp, xml });
                    g_nodes.push_back(c);
                }
                rec(c, id, cp);
            }
        };
        for (size_t i = g_nRegress; i < nTop; i++) { Node copy = g_nodes[i]; std::string id = g_docs[i].id; rec(copy, id, ""); }
    }
    g_nTop = nTop;

    // ---- work list: regress + every document unmutated, then the mutations (kinds dealt round-robin so every kind gets an equal share)
    std::vector<Work> work;
    for (size_t i = 0; i < g_docs.size(); i++) work.push_back({ int(i), -1, -1 });
    if (g_cfg.mutations) {
        int g = int(g_cfg.seed % M_KINDS);
        // top-level documents get perDoc mutants each, extracted sub-elements perDoc/6 (at least 1)
        int perSub = std::max(1, g_cfg.perDoc / 6);
        for (int m = 0; m < g_cfg.perDoc; m++)
            for (size_t i = g_nRegress; i < g_docs.size(); i++)
                if (i < g_nTop || m < perSub) work.push_back({ int(i), m, (g++) % M_KINDS });
    }
    const int batchSize = 24;
    int nBatches = int((work.size() + batchSize - 1) / batchSize);

    Pool pool;
    pool.workers = g_cfg.workers;
    pool.workDir = root + "/.build/harness/parsers.work";
    pool.tag = "p";
    pool.init();

    std::map<std::string, long> failCount;
    long suppressed = 0, crashes = 0;
    int xLeft = g_cfg.showNotAdmitted ? 200 : 6;
    QElapsedTimer wall; wall.start();

    auto childFn = [&](int batch, int resumeItem, int resumeParser, Status *st) {
        int samplesLeft = batch % 7 == 3 ? 1 : 0;
        size_t lo = size_t(batch) * batchSize, hi = std::min(work.size(), lo + batchSize);
        for (size_t k = lo; k < hi; k++) {
            int idx = int(k - lo);
            if (idx < resumeItem) continue;
            int rp = -1;
            if (idx == resumeItem) { if (resumeParser < 0) continue; rp = resumeParser; }
            runItem(work[k], idx, rp, st, samplesLeft);
        }
    };
    auto onResult = [&](const ChildResult &r, const QByteArray &out) {
        for (const QByteArray &line : out.split('\n')) {
            if (line.startsWith("O FAIL ")) {
                int t = line.indexOf('\t');
                std::string key = line.mid(7, t < 0 ? -1 : t - 7).toStdString();
                if (++failCount[key] <= 3) { fwrite(line.constData(), 1, line.size(), stdout); fputc('\n', stdout); }
                else suppressed++;
            } else if (line.startsWith("X ")) {
                if (xLeft > 0) { xLeft--; fwrite(line.constData(), 1, line.size(), stdout); fputc('\n', stdout); }
            }
        }
        if (r.crashed) {
            crashes++;
            size_t k = size_t(r.batch) * batchSize + size_t(std::max(0, r.item));
            std::string what = classifyCrash(r);
            std::string parser = r.parser >= 0 && r.parser < int(g_table.size()) ? g_table[r.parser].name : "-";
            bool inLibrary = r.phase == PH_ADMIT || r.phase == PH_RUN1 || r.phase == PH_RUN2 || r.phase == PH_RUN3;
            std::string docId = k < work.size() ? g_docs[work[k].doc].id : "?";
            std::string key = inLibrary ? "C02:crash:" + parser + ":" + what : "C02:harness:" + std::string(phaseName(r.phase)) + ":" + what;
            // name the input the way the line protocol asks for, then the failure itself
            printf("I %s %s work=%zu kind=%s phase=%s\n", parser.c_str(), docId.c_str(), k, k < work.size() && work[k].mut >= 0 ? mutName(work[k].kind) : "none", phaseName(r.phase));
            std::string tail = r.errText;
            auto sp = tail.find("SUMMARY:");
            std::string summary = sp == std::string::npos ? "" : tail.substr(sp, tail.find('\n', sp) - sp);
            auto ep = tail.find("ERROR: ");
            std::string first = ep == std::string::npos ? "" : tail.substr(ep, tail.find('\n', ep) - ep);
            if (++failCount[key] <= 3) {
                printf("O FAIL %s\tparser=%s doc=%s work=%zu seed=%llu mutation-kind=%s phase=%s exit=%d signal=%d %s | %s | xml-of-unmutated-doc=%s | child-output=%s\n",
                       key.c_str(), parser.c_str(), docId.c_str(), k, (unsigned long long)g_cfg.seed,
                       k < work.size() && work[k].mut >= 0 ? mutName(work[k].kind) : "none", phaseName(r.phase), r.exitCode, r.signal,
                       escLine(QByteArray::fromStdString(first), 300).c_str(), escLine(QByteArray::fromStdString(summary), 300).c_str(),
                       k < work.size() ? escLine(g_docs[work[k].doc].xml, 700).c_str() : "", r.outPath.c_str());
            } else suppressed++;
        }
        fflush(stdout);
    };
    pool.run(nBatches, childFn, onResult);

    // ---- totals
    long long *T = pool.totals;
    vh::oraclePass() = T[C_PASS];
    vh::stat("parsers", long(g_table.size()));
    long typed = 0, parseOnly = 0;
    for (auto &c : g_table) { typed += c.typeChecked; parseOnly += c.parseOnly; }
    vh::stat("parsers_with_type_check", typed);
    vh::stat("parsers_parse_only", parseOnly);
    vh::stat("documents", long(g_docs.size()));
    vh::stat("documents_regress", long(g_nRegress));
    vh::stat("documents_top_level", long(g_nTop));
    vh::stat("documents_sub_elements", long(g_docs.size() - g_nTop));
    vh::stat("corpus_rejected_by_qdom", rejected);
    vh::stat("work_items", long(work.size()));
    vh::stat("items_run", T[C_ITEMS]);
    vh::stat("mutation_kinds", M_KINDS);
    vh::stat("admits_calls", T[C_ADMIT_CALLS]);
    vh::stat("admitted_pairs", T[C_ADMITTED]);
    vh::stat("admitted_pairs_typed_parsers", T[C_ADMITTED_TYPED]);
    vh::stat("parse_serialize_runs", T[C_RUNS]);
    vh::stat("outputs_checked", T[C_OUT_CHECKED]);
    vh::stat("bytes_in", T[C_BYTES_IN]);
    vh::stat("bytes_out", T[C_BYTES_OUT]);
    vh::stat("empty_outputs", T[C_EMPTY_OUT]);
    vh::stat("parse_only_runs", T[C_PARSEONLY_RUNS]);
    vh::stat("fixpoint_up_to_sibling_order", T[C_FIX_ORDER_ONLY]);
    vh::stat("ownform_up_to_sibling_order", T[C_OWN_ORDER_ONLY]);
    vh::stat("own_output_not_admitted_by_own_type_check", T[C_OWN_NOT_ADMITTED]);
    vh::stat("mutants_not_wellformed", T[C_MUT_NOT_WF]);
    vh::stat("mutation_kind_not_applicable", T[C_MUT_NOT_APPLICABLE]);
    vh::stat("canon_crosschecks", T[C_XCHECK]);
    vh::stat("canon_differs_only_in_ns_declarations", T[C_NSDECL_ONLY]);
    vh::stat("oracle_failures", T[C_FAIL]);
    vh::stat("child_crashes", crashes);
    vh::stat("crash_storms", pool.crashStorms);
    vh::stat("fail_lines_suppressed", suppressed);
    vh::stat("max_call_ms", T[C_MAX_CALL_MS]);
    vh::stat("max_depth_passed", T[C_MAX_DEPTH_OK]);
    vh::stat("nest_depth", g_cfg.depth);
    vh::stat("workers", g_cfg.workers);
    vh::stat("wall_ms", wall.elapsed());
    vh::stat("kind:unmutated", T[C_KIND0 - 1]);
    for (int k = 0; k < M_KINDS; k++) vh::stat(std::string("kind:") + mutName(k), T[C_KIND0 + k]);
    long never = 0;
    std::string neverNames;
    for (size_t p = 0; p < g_table.size(); p++) {
        vh::stat("admitted:" + g_table[p].name, T[C_PARSER0 + p]);
        if (T[C_NOTADM0 + p]) vh::stat("own_output_not_admitted:" + g_table[p].name, T[C_NOTADM0 + p]);
        if (T[C_PARSER0 + p] == 0 && (g_cfg.only.empty() || g_table[p].name.find(g_cfg.only) != std::string::npos)) { never++; neverNames += g_table[p].name + " "; }
    }
    vh::stat("parsers_never_admitting", never);
    if (never) printf("X parsers that admitted no document this run: %s\n", neverNames.c_str());
    for (auto &kv : failCount) vh::stat("failcount:" + kv.first, kv.second);
    if (pool.crashStorms) printf("O FAIL C02:harness:crash-storm\t%d batches abandoned after too many child crashes\n", pool.crashStorms);
    vh::finish();
    return 0;
}
