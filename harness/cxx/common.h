// Shared helpers for the correspondence harnesses.
// Output protocol (stdout), one record per line:
//   C <op>\t<observation>     correspondence: <op> is fed to the Lean driver, which must print <observation>
//   O FAIL <key>\t<replay>    property oracle (model independent) failed on the implementation
//   O PASS <n>                number of oracle evaluations that passed (may appear several times, summed)
//   S <key> <value>           statistics for the evidence file (summed per key when numeric)
//   X <text>                  sample case for the evidence file
#pragma once
#include <cstdint>
#include <cstdio>
#include <cstdlib>
#include <cstring>
#include <string>
#include <vector>
#include <map>

namespace vh {

struct Rng {  // splitmix64: every random choice derives from VERIF_SEED
    uint64_t s;
    // the seed is hashed first: otherwise the stream of seed n+1 is the stream of seed n shifted by one draw
    explicit Rng(uint64_t seed) : s(0) {
        uint64_t z = seed + 0x1234567ull;
        z = (z ^ (z >> 33)) * 0xFF51AFD7ED558CCDull;
        z = (z ^ (z >> 33)) * 0xC4CEB9FE1A85EC53ull;
        s = z ^ (z >> 33);
    }
    uint64_t next() {
        uint64_t z = (s += 0x9E3779B97F4A7C15ull);
        z = (z ^ (z >> 30)) * 0xBF58476D1CE4E5B9ull;
        z = (z ^ (z >> 27)) * 0x94D049BB133111EBull;
        return z ^ (z >> 31);
    }
    uint32_t below(uint32_t n) { return n ? uint32_t(next() % n) : 0; }
    bool coin() { return next() & 1; }
};

struct Args {
    std::string tier = "quick";
    uint64_t seed = 1;
    std::string replay;
    std::string mode;
};

inline Args parseArgs(int argc, char **argv) {
    Args a;
    for (int i = 1; i < argc; i++) {
        std::string s = argv[i];
        if (s == "--tier" && i + 1 < argc) a.tier = argv[++i];
        else if (s == "--seed" && i + 1 < argc) a.seed = strtoull(argv[++i], nullptr, 10);
        else if (s == "--replay" && i + 1 < argc) a.replay = argv[++i];
        else if (s == "--mode" && i + 1 < argc) a.mode = argv[++i];
    }
    return a;
}

inline std::map<std::string, long long> &stats() { static std::map<std::string, long long> m; return m; }
inline void stat(const std::string &k, long long v = 1) { stats()[k] += v; }
inline long long &oraclePass() { static long long n = 0; return n; }
inline int &samplesLeft() { static int n = 6; return n; }

inline void corr(const std::string &op, const std::string &obs) { printf("C %s\t%s\n", op.c_str(), obs.c_str()); }
inline void oracleFail(const std::string &key, const std::string &replay) { printf("O FAIL %s\t%s\n", key.c_str(), replay.c_str()); }
inline void sample(const std::string &s) { if (samplesLeft() > 0) { samplesLeft()--; printf("X %s\n", s.c_str()); } }
inline void finish() {
    printf("O PASS %lld\n", oraclePass());
    for (auto &kv : stats()) printf("S %s %lld\n", kv.first.c_str(), kv.second);
    fflush(stdout);
}

inline std::string hex(const unsigned char *p, size_t n) {
    static const char *d = "0123456789abcdef";
    std::string s; s.reserve(n * 2);
    for (size_t i = 0; i < n; i++) { s += d[p[i] >> 4]; s += d[p[i] & 15]; }
    return s;
}

}  // namespace vh
