// C20 harness: the XEP-0115 verification string.
//
// Part 1 (correspondence + oracle): QXmppDiscoveryIq objects built from generated info sets (identities, features
//   with duplicates, optional XEP-0128 form with QString / QStringList / bool fields; strings over characters of every
//   UTF-8 length class incl. non-BMP).  `verificationString()` is printed for the Lean model (`ver` lines); an
//   independent implementation of XEP-0115 §5.1 (octet collation, written from the XEP text, working on what the object
//   puts on the wire) is compared with the real code and with the Lean spec (`spec` lines); permutation invariance,
//   duplicate-feature invariance and "changes when altered" are evaluated directly on the real code.
// Part 2 (correspondence + oracle): a real QXmppClient on a loopback connection with QXmppDiscoveryManager, bundled managers and generated
//   extensions.  First publication, then a history: reconfigurations through the API, and every site that emits a presence —
//   setClientPresence / connectToServer + session start (caps recomputed), and the sites that send the STORED presence: session start
//   after an automatic reconnection or after a reconfiguration, QXmppMucRoom::join, disconnectFromServer.  After EVERY emitted presence
//   its <c node ver> is compared with the XEP-0115 hash (independent implementation) of the XML the client answers to disco#info at that
//   moment; node#ver and the plain node must be answered.  The Lean model (stored presence + emission sites) is fed the same history.
//   Out of scope: verifying the caps of OTHER entities (no such code in qxmpp), XEP-0390 (not emitted).
//
// `class TestClient` is declared a friend by QXmppClient / QXmppOutgoingClient / QXmppStanza.
#include "common.h"
#include "xmlcanon.h"

#include "QXmppArchiveManager.h"
#include "QXmppAttentionManager.h"
#include "QXmppBlockingManager.h"
#include "QXmppCarbonManager.h"
#include "QXmppClient.h"
#include "QXmppClientExtension.h"
#include "QXmppClient_p.h"
#include "QXmppDataForm.h"
#include "QXmppDiscoveryIq.h"
#include "QXmppDiscoveryManager.h"
#include "QXmppEntityTimeManager.h"
#include "QXmppLogger.h"
#include "QXmppMamManager.h"
#include "QXmppMessageReceiptManager.h"
#include "QXmppMucManager.h"
#include "QXmppOutgoingClient.h"
#include "QXmppOutgoingClient_p.h"
#include "QXmppPresence.h"
#include "QXmppPubSubManager.h"
#include "QXmppRosterManager.h"
#include "QXmppRpcManager.h"
#include "QXmppTransferManager.h"
#include "QXmppUserTuneManager.h"
#include "QXmppVCardManager.h"
#include "QXmppVersionManager.h"

#include <QCoreApplication>
#include <QCryptographicHash>
#include <QDomDocument>
#include <QTcpServer>
#include <QSslSocket>
#include <QTcpSocket>
#include <QXmlStreamReader>
#include <QXmlStreamWriter>
#include <algorithm>
#include <array>
#include <functional>
#include <memory>
#include <set>

#define QL(s) QStringLiteral(s)
using namespace vh;

// replays may contain the XML really written, i.e. raw line breaks / tabs from generated values: keep the line protocol intact
static std::string oneLine(const std::string &r)
{
    std::string o; o.reserve(r.size());
    for (unsigned char ch : r) {
        if (ch == '\n') o += "\\n"; else if (ch == '\r') o += "\\r"; else if (ch == '\t') o += "\\t"; else o += char(ch);
    }
    if (o.size() > 6000) o = o.substr(0, 6000) + "...";
    return o;
}
static void failLine(const std::string &key, const std::string &replay) { vh::oracleFail(key, oneLine(replay)); }
#define oracleFail failLine

// ----------------------------------------------------------------------------------------------- info sets
struct Id { QString cat, type, lang, name; };
struct Fld { QString key; char kind; QStringList vals; };   // 't' QString (1 value, possibly the empty non-null string; 0 values = null QString) | 'l' QStringList | 'b' bool ("1"/"0")
struct InfoSet {
    QList<Id> ids; QStringList feats; bool hasForm = false; QList<Fld> fields;
};

static const QString FORM_TYPE = QL("FORM_TYPE");

static std::string encForm(bool hasForm, const QList<Fld> &fields)
{
    if (!hasForm) return "X-";
    std::string o = "X" + std::to_string(fields.size());
    for (const auto &f : fields) {
        o += " " + hexOf(f.key) + " " + std::string(1, f.kind) + " " + std::to_string(f.vals.size());
        for (const auto &v : f.vals) o += " " + hexOf(v);
    }
    return o;
}
static std::string encIds(const QList<Id> &ids)
{
    std::string o = "I" + std::to_string(ids.size());
    for (const auto &d : ids) o += " " + hexOf(d.cat) + " " + hexOf(d.type) + " " + hexOf(d.lang) + " " + hexOf(d.name);
    return o;
}
static std::string encFeats(char tag, const QStringList &fs)
{
    std::string o = std::string(1, tag) + std::to_string(fs.size());
    for (const auto &f : fs) o += " " + hexOf(f);
    return o;
}
static std::string encInfo(const InfoSet &i) { return encIds(i.ids) + " " + encFeats('F', i.feats) + " " + encForm(i.hasForm, i.fields); }

// the real objects
static QXmppDataForm makeForm(const QList<Fld> &fields, int variant)
{
    QXmppDataForm form;
    form.setType(variant % 2 ? QXmppDataForm::Form : QXmppDataForm::Result);
    QList<QXmppDataForm::Field> fs;
    for (const auto &f : fields) {
        QXmppDataForm::Field fld;
        fld.setKey(f.key);
        switch (f.kind) {
        case 't': {
            static const QXmppDataForm::Field::Type single[] = { QXmppDataForm::Field::TextSingleField, QXmppDataForm::Field::ListSingleField,
                                                                 QXmppDataForm::Field::JidSingleField, QXmppDataForm::Field::TextPrivateField,
                                                                 QXmppDataForm::Field::FixedField };
            fld.setType(f.key == FORM_TYPE ? QXmppDataForm::Field::HiddenField : single[(variant + f.key.size()) % 5]);
            // no value = null QString (no <value/> on the wire); an empty value = empty NON-NULL QString (<value/> since repo commit 06b3045)
            if (f.vals.isEmpty()) fld.setValue(QString()); else { QString v = f.vals[0]; if (v.isNull()) v = QLatin1String(""); fld.setValue(v); }
            break;
        }
        case 'l': {
            static const QXmppDataForm::Field::Type multi[] = { QXmppDataForm::Field::ListMultiField, QXmppDataForm::Field::TextMultiField,
                                                                QXmppDataForm::Field::JidMultiField };
            fld.setType(multi[(variant + f.key.size()) % 3]);
            fld.setValue(f.vals);
            break;
        }
        default:
            fld.setType(QXmppDataForm::Field::BooleanField);
            fld.setValue(f.vals.value(0) == QL("1"));
        }
        fs << fld;
    }
    form.setFields(fs);
    return form;
}
static QList<QXmppDiscoveryIq::Identity> makeIdentities(const QList<Id> &ids)
{
    QList<QXmppDiscoveryIq::Identity> out;
    for (const auto &d : ids) {
        QXmppDiscoveryIq::Identity x;
        x.setCategory(d.cat); x.setType(d.type); x.setLanguage(d.lang); x.setName(d.name);
        out << x;
    }
    return out;
}
static QXmppDiscoveryIq makeIq(const InfoSet &i, int variant = 0)
{
    QXmppDiscoveryIq iq;
    iq.setType(QXmppIq::Result);
    iq.setQueryType(QXmppDiscoveryIq::InfoQuery);
    iq.setIdentities(makeIdentities(i.ids));
    iq.setFeatures(i.feats);
    if (i.hasForm) iq.setForm(makeForm(i.fields, variant));
    return iq;
}
static std::string realVer(const InfoSet &i, int variant = 0) { return makeIq(i, variant).verificationString().toBase64().toStdString(); }

// ----------------------------------------------------------------------------------------------- independent XEP-0115 §5.1
// Works on the information a peer sees in the disco#info result (octet strings).
struct WField { std::string var; std::vector<std::string> values; bool isBool = false; bool isSingle = false; };
struct WForm { std::vector<WField> fields; };
struct Wire {
    std::vector<std::array<std::string, 4>> ids;   // category, type, xml:lang, name
    std::vector<std::string> feats;
    std::vector<WForm> forms;
    std::vector<WForm> rawForms;   // only for classifying a mismatch: the form values before a conforming reader normalises their line ends
    bool operator==(const Wire &o) const
    {
        if (ids != o.ids || feats != o.feats || forms.size() != o.forms.size()) return false;
        for (size_t i = 0; i < forms.size(); i++) {
            if (forms[i].fields.size() != o.forms[i].fields.size()) return false;
            for (size_t j = 0; j < forms[i].fields.size(); j++) {
                auto &a = forms[i].fields[j]; auto &b = o.forms[i].fields[j];
                if (a.var != b.var || a.values != b.values || a.isBool != b.isBool || a.isSingle != b.isSingle) return false;
            }
        }
        return true;
    }
};

struct Quirks { bool utf16 = false, boolText = false, emptySep = false, emptyDropped = false, crKept = false; };

// RFC 4790 i;octet: octet by octet, unsigned; a proper prefix sorts first
static bool octetLess(const std::string &a, const std::string &b)
{
    size_t n = std::min(a.size(), b.size());
    for (size_t i = 0; i < n; i++) {
        unsigned char x = (unsigned char)a[i], y = (unsigned char)b[i];
        if (x != y) return x < y;
    }
    return a.size() < b.size();
}
// only used to *classify* a disagreement: comparison by UTF-16 code units
static bool utf16Less(const std::string &a, const std::string &b)
{
    std::u16string x = QString::fromUtf8(a.data(), int(a.size())).toStdU16String();
    std::u16string y = QString::fromUtf8(b.data(), int(b.size())).toStdU16String();
    size_t n = std::min(x.size(), y.size());
    for (size_t i = 0; i < n; i++) if (x[i] != y[i]) return x[i] < y[i];
    return x.size() < y.size();
}

static std::string xmlLineEnds(const std::string &t);
// the raw forms may only be used to explain a mismatch when they differ from what was read off the wire by nothing but the
// line-end normalisation of the reader (same fields, same number of values, each value = normalised raw value)
static bool rawIsCrVariant(const Wire &w)
{
    if (w.rawForms.size() != w.forms.size() || w.forms.empty()) return false;
    for (size_t i = 0; i < w.forms.size(); i++) {
        auto &a = w.rawForms[i].fields; auto &b = w.forms[i].fields;
        if (a.size() != b.size()) return false;
        for (size_t j = 0; j < a.size(); j++) {
            if (a[j].var != b[j].var || a[j].values.size() != b[j].values.size()) return false;
            for (size_t k = 0; k < a[j].values.size(); k++) if (a[j].values[k] != xmlLineEnds(b[j].values[k]) && xmlLineEnds(a[j].values[k]) != b[j].values[k]) return false;
        }
    }
    return true;
}

// returns false when the info set is outside the XEP's domain (FORM_TYPE without exactly one value, repeated var)
static bool xepString(const Wire &w, Quirks q, std::string &S)
{
    auto less = q.utf16 ? utf16Less : octetLess;
    auto eq = [&](const std::string &a, const std::string &b) { return !less(a, b) && !less(b, a); };
    S.clear();
    // 2. sort the identities by category, then type, then xml:lang (name as the last key)
    auto ids = w.ids;
    std::sort(ids.begin(), ids.end(), [&](const auto &a, const auto &b) {
        for (int k = 0; k < 4; k++) { if (less(a[k], b[k])) return true; if (less(b[k], a[k])) return false; }
        return false;
    });
    // 3. category/type/lang/name<
    for (auto &d : ids) S += d[0] + "/" + d[1] + "/" + d[2] + "/" + d[3] + "<";
    // 4./5. sorted features (a set: §5.4 item 4), each followed by '<'
    auto feats = w.feats;
    std::sort(feats.begin(), feats.end(), less);
    feats.erase(std::unique(feats.begin(), feats.end(), eq), feats.end());
    for (auto &f : feats) S += f + "<";
    // 6. forms sorted by FORM_TYPE; a form without FORM_TYPE is ignored (§5.4 item 6)
    std::vector<std::pair<std::string, const WForm *>> forms;
    for (auto &f : (q.crKept && rawIsCrVariant(w) ? w.rawForms : w.forms)) {
        const WField *ft = nullptr; int n = 0;
        std::set<std::string> vars;
        for (auto &fl : f.fields) {
            if (fl.var == "FORM_TYPE") { ft = &fl; n++; }
            if (!vars.insert(fl.var).second) return false;
        }
        if (!ft) continue;
        if (n != 1 || ft->values.size() != 1) return false;
        forms.emplace_back(ft->values[0], &f);
    }
    std::sort(forms.begin(), forms.end(), [&](const auto &a, const auto &b) { return less(a.first, b.first); });
    // 7.
    for (auto &pf : forms) {
        S += pf.first + "<";
        std::vector<const WField *> fl;
        for (auto &f : pf.second->fields) if (f.var != "FORM_TYPE") fl.push_back(&f);
        std::sort(fl.begin(), fl.end(), [&](const WField *a, const WField *b) { return less(a->var, b->var); });
        for (auto *f : fl) {
            S += f->var + "<";
            auto vals = f->values;
            if (q.boolText && f->isBool) for (auto &v : vals) v = (v == "1" || v == "true") ? "true" : "false";
            if (q.emptyDropped && f->isSingle && vals.size() == 1 && vals[0].empty()) vals.clear();
            std::sort(vals.begin(), vals.end(), less);
            for (auto &v : vals) S += v + "<";
            if (q.emptySep && vals.empty()) S += "<";
        }
    }
    return true;
}
static std::string sha1b64(const std::string &s)
{
    return QCryptographicHash::hash(QByteArray::fromStdString(s), QCryptographicHash::Sha1).toBase64().toStdString();
}
static bool xepVer(const Wire &w, Quirks q, std::string &out)
{
    std::string S;
    if (!xepString(w, q, S)) return false;
    out = sha1b64(S);
    return true;
}

static const char *K_UTF16 = "C20:utf16-vs-octet-order";
static const char *K_BOOL = "C20:boolean-field-hashed-as-true-false";
static const char *K_EMPTY = "C20:valueless-field-extra-separator";
static const char *K_EMPTYVAL = "C20:empty-value-not-hashed";
static const char *K_CR = "C20:cr-in-form-value-read-as-lf";
static std::vector<int> makeQuirkOrder()   // fewest deviations first
{
    std::vector<int> o;
    for (int pc = 1; pc <= 5; pc++) for (int b = 1; b < 32; b++) if (__builtin_popcount(b) == pc) o.push_back(b);
    return o;
}
static const std::vector<int> quirkOrder = makeQuirkOrder();
static Quirks quirksOf(int b) { Quirks q; q.utf16 = b & 1; q.boolText = b & 2; q.emptySep = b & 4; q.emptyDropped = b & 8; q.crKept = b & 16; return q; }
static std::vector<std::string> keysOf(const Quirks &q)
{
    std::vector<std::string> ks;
    if (q.utf16) ks.push_back(K_UTF16);
    if (q.boolText) ks.push_back(K_BOOL);
    if (q.emptySep) ks.push_back(K_EMPTY);
    if (q.emptyDropped) ks.push_back(K_EMPTYVAL);
    if (q.crKept) ks.push_back(K_CR);
    return ks;
}

// which known deviation(s) turn the XEP value into `got`?  empty result = unexplained
static std::vector<std::string> explain(const Wire &w, const std::string &got)
{
    for (int b : quirkOrder) {
        Quirks q = quirksOf(b);
        std::string v;
        if (xepVer(w, q, v) && v == got) return keysOf(q);
    }
    return {};
}

// XML 1.0 2.11: a conforming parser reads CR LF and a lone CR in element text as LF
static std::string xmlLineEnds(const std::string &t)
{
    std::string o;
    for (size_t k = 0; k < t.size(); k++) {
        if (t[k] == '\r') { o += '\n'; if (k + 1 < t.size() && t[k + 1] == '\n') k++; } else o += t[k];
    }
    return o;
}

// what QXmppDataForm::toXml / QXmppDiscoveryIq::toXml put on the wire AS A PEER READS IT, by rule (checked against the real XML below):
// one <value/> per list element, its text the element, unchanged; attributes unchanged
static Wire wireByRule(const InfoSet &i)
{
    Wire w;
    for (auto &d : i.ids) w.ids.push_back({ d.cat.toStdString(), d.type.toStdString(), d.lang.toStdString(), d.name.toStdString() });
    for (auto &f : i.feats) w.feats.push_back(f.toStdString());
    if (i.hasForm) {
        WForm wf;
        for (auto &f : i.fields) {
            WField x; x.var = f.key.toStdString();
            if (f.kind == 't') { x.isSingle = true; if (!f.vals.isEmpty()) x.values.push_back(f.vals[0].toStdString()); }
            else if (f.kind == 'l') { for (auto &v : f.vals) x.values.push_back(v.toStdString()); }
            else { x.isBool = true; x.values.push_back(f.vals.value(0) == QL("1") ? "1" : "0"); }
            wf.fields.push_back(x);
        }
        // a CR in a value is written as &#13; (repo commit "a carriage return in element text is written as a character reference"), so the
        // reader gets every value unchanged; rawForms = the values had the CR been written literally and normalised by the reader (only used
        // to classify a regression under the old key C20:cr-in-form-value-read-as-lf)
        w.forms.push_back(wf);
        for (auto &x : wf.fields) for (auto &v : x.values) v = xmlLineEnds(v);
        w.rawForms.push_back(wf);
    }
    return w;
}

// Read a disco#info result the way a peer would: from the XML text really written, with a conforming XML parser
// (QXmlStreamReader: keeps whitespace-only text, normalises line ends per XML 1.0 2.11; QDom would drop blank text), no qxmpp parsing.
// Every <value/> element is one value, its text the value.
static Wire wireFromXml(const QString &xml)
{
    Wire w;
    QXmlStreamReader r(xml);
    bool inQuery = false, inForm = false;
    WForm wf; WField fld; bool inField = false;
    while (!r.atEnd()) {
        auto t = r.readNext();
        if (t == QXmlStreamReader::StartElement) {
            const auto name = r.name(); const auto ns = r.namespaceUri(); const auto a = r.attributes();
            if (!inQuery) { if (name == QL("query") && ns == QL("http://jabber.org/protocol/disco#info")) inQuery = true; continue; }
            if (!inForm) {
                if (name == QL("identity")) {
                    w.ids.push_back({ a.value(QL("category")).toString().toStdString(), a.value(QL("type")).toString().toStdString(),
                                      a.value(QL("http://www.w3.org/XML/1998/namespace"), QL("lang")).toString().toStdString(), a.value(QL("name")).toString().toStdString() });
                } else if (name == QL("feature")) {
                    w.feats.push_back(a.value(QL("var")).toString().toStdString());
                } else if (name == QL("x") && ns == QL("jabber:x:data")) { inForm = true; wf = WForm(); }
                continue;
            }
            if (!inField) {
                if (name == QL("field")) {
                    inField = true; fld = WField();
                    fld.var = a.value(QL("var")).toString().toStdString();
                    QString ty = a.value(QL("type")).toString();
                    fld.isBool = ty == QL("boolean");
                    fld.isSingle = !fld.isBool && ty != QL("list-multi") && ty != QL("jid-multi") && ty != QL("text-multi");
                } else r.skipCurrentElement();
                continue;
            }
            if (name == QL("value")) fld.values.push_back(r.readElementText(QXmlStreamReader::IncludeChildElements).toStdString());
            else r.skipCurrentElement();
        } else if (t == QXmlStreamReader::EndElement) {
            if (inField && r.name() == QL("field")) { wf.fields.push_back(fld); inField = false; }
            else if (inForm && !inField && r.name() == QL("x")) { w.forms.push_back(wf); inForm = false; }
            else if (inQuery && !inForm && r.name() == QL("query")) inQuery = false;
        }
    }
    if (r.hasError()) { fprintf(stderr, "harness: XML written by the library is not well-formed: %s\n%s\n", qPrintable(r.errorString()), qPrintable(xml)); exit(3); }
    return w;
}
static QDomElement domOf(const QString &xml)
{
    QDomDocument doc; QString err;
    if (!doc.setContent(xml, true, &err)) { fprintf(stderr, "harness: XML written by the library does not parse: %s\n%s\n", qPrintable(err), qPrintable(xml)); exit(3); }
    return doc.documentElement();
}
static Wire wireFromIq(const QXmppDiscoveryIq &iq)
{
    QString xml; QXmlStreamWriter w(&xml); iq.toXml(&w);
    return wireFromXml(xml);
}

// ----------------------------------------------------------------------------------------------- generators
struct Gen {
    Rng &rng;
    bool ambiguous = false;   // allow '<' and '/' everywhere
    bool astral = true;
    explicit Gen(Rng &r) : rng(r) {}

    QString ch()
    {
        static const char32_t ascii[] = { 'a', 'b', 'c', 'B', '-', '.', '0', ':', '~', ' ' };
        static const char32_t two[] = { 0x80, 0xE9, 0x7FF };
        static const char32_t three[] = { 0x800, 0x20AC, 0xD7FF, 0xE000, 0xFF5E, 0xFFFD };
        static const char32_t four[] = { 0x10000, 0x1F600, 0x10FFFD };
        uint32_t r = rng.below(100);
        char32_t c;
        if (ambiguous && r < 12) c = rng.coin() ? '<' : '/';
        else if (r < 55) c = ascii[rng.below(10)];
        else if (r < 65) c = two[rng.below(3)];
        else if (r < 85 || !astral) c = three[rng.below(6)];
        else c = four[rng.below(3)];
        return QString::fromUcs4(&c, 1);
    }
    // attribute-safe short string (may be empty)
    QString str(int maxLen = 3)
    {
        int n = rng.below(maxLen + 1);
        QString s;
        for (int k = 0; k < n; k++) s += ch();
        return s;
    }
    // element text (form values, also used for keys): opaque strings, including what a serializer could treat specially
    bool special = true;
    QString text(int maxLen = 3)
    {
        QString s = str(maxLen);
        if (!special || rng.below(4)) return s;
        static const char *sp[] = { "\n", "\r", "\r\n", "\t", " ", "  ", "<", "&", "\"", "'", ">", "]]>", "&amp;", "\xE2\x80\xA8", "\xC2\xA0" };
        switch (rng.below(8)) {
        case 0: return s + QString::fromUtf8(sp[rng.below(15)]) + str(2);                 // inside
        case 1: return QString::fromUtf8(sp[rng.below(15)]) + s;                          // leading
        case 2: return s + QString::fromUtf8(sp[rng.below(15)]);                          // trailing
        case 3: { static const char *blank[] = { " ", "\n", "\t", " \n ", "\r\n", "   " }; return QString::fromUtf8(blank[rng.below(6)]); }   // only blanks
        case 4: return QL("line 1\nline 2") + (rng.coin() ? QL("\n") : QString()) + s;   // several lines
        case 5: return QString(int(200 + rng.below(1800)), QLatin1Char('x')) + s;          // very long
        case 6: return s + QL("\n\n") + s;
        default: return QL(" ") + s + QL(" ");
        }
    }
    QString token()   // identity category / type / lang: realistic or generated; no '/' unless ambiguous
    {
        static const char *pool[] = { "client", "pc", "en", "en-US", "de", "pubsub", "pep", "a", "a-b", "a.b", "", "phone", "bot" };
        if (rng.below(3)) return QString::fromLatin1(pool[rng.below(13)]);
        return str(2);
    }
    QString feature()
    {
        static const char *pool[] = { "http://jabber.org/protocol/caps", "http://jabber.org/protocol/disco#info", "urn:xmpp:ping", "jabber:iq:version",
                                      "urn:xmpp:time", "http://jabber.org/protocol/muc" };
        uint32_t r = rng.below(10);
        if (r < 3) return QString::fromLatin1(pool[rng.below(6)]);
        if (r < 5 && !ambiguous) return QL("urn:x:") + str(2);
        return str(3);
    }
    Id identity() { return { token(), token(), rng.below(3) ? QString() : token(), str(3) }; }

    // regular = inside the part of the domain where today's code is expected to agree with the XEP but for collation
    InfoSet info(int maxIds, int maxFeats, bool weirdForm)
    {
        InfoSet i;
        int n = rng.below(maxIds + 1);
        for (int k = 0; k < n; k++) {
            uint32_t r = k ? rng.below(10) : 9;
            if (r < 2) i.ids << i.ids[rng.below(k)];                      // the same identity again
            else if (r < 5) {                                             // differs from an earlier one in a single attribute
                Id d = i.ids[rng.below(k)];
                QString *c[] = { &d.lang, &d.name, &d.type, &d.cat };
                QString nv = rng.below(3) ? str(2) : token();
                *c[rng.below(rng.below(3) ? 2 : 4)] = nv;
                i.ids << d;
            } else i.ids << identity();
        }
        int m = rng.below(maxFeats + 1);
        for (int k = 0; k < m; k++) i.feats << (k && rng.below(4) == 0 ? i.feats[rng.below(k)] : feature());
        if (rng.below(2)) {
            i.hasForm = true;
            bool noFormType = weirdForm && rng.below(4) == 0;
            if (!noFormType) {
                Fld ft { FORM_TYPE, 't', { text(3) } };
                if (ft.vals[0].isEmpty() && !weirdForm) ft.vals[0] = QL("urn:t");
                if (ft.vals[0].isEmpty() && rng.coin()) ft.vals.clear();
                if (weirdForm && rng.below(4) == 0) { ft.kind = 'l'; int c = rng.below(3); ft.vals.clear(); for (int k = 0; k < c; k++) ft.vals << text(2); }
                i.fields << ft;
            }
            int k = rng.below(4);
            for (int j = 0; j < k; j++) {
                Fld f; f.key = text(2);
                if (f.key == FORM_TYPE) f.key += QL("x");
                uint32_t r = rng.below(20);
                if (r < 8) {
                    f.kind = 't'; f.vals << text(3);
                    if (f.vals[0].isEmpty()) { uint32_t e = rng.below(8); if (e < 5) f.vals[0] = QL("v"); else if (e < 7) f.vals.clear(); /* null: no value */ else f.vals[0] = QLatin1String(""); /* empty non-null */ }
                }
                else if (r < 19) { f.kind = 'l'; int c = rng.below(8) ? 1 + rng.below(3) : 0; for (int q = 0; q < c; q++) f.vals << (q && rng.below(4) == 0 ? f.vals[rng.below(q)] : text(2)); }
                else { f.kind = 'b'; f.vals << (rng.coin() ? QL("1") : QL("0")); }
                bool dupKey = false;
                for (auto &g : i.fields) if (g.key == f.key) dupKey = true;
                if (dupKey && !(weirdForm && rng.below(2))) f.key += QL("k") + QString::number(j);
                i.fields << f;
            }
            // FORM_TYPE is not always the first field
            if (!i.fields.isEmpty() && rng.below(3) == 0) i.fields.move(0, rng.below(i.fields.size()));
        }
        return i;
    }
};

static bool uniqueKeys(const InfoSet &i)
{
    std::set<QString> ks;
    for (auto &f : i.fields) if (!ks.insert(f.key).second) return false;
    return true;
}
static bool hasChar(const InfoSet &i, QChar c, bool onlyIdTokens = false)
{
    for (auto &d : i.ids) { if (d.cat.contains(c) || d.type.contains(c) || d.lang.contains(c)) return true; if (!onlyIdTokens && d.name.contains(c)) return true; }
    if (onlyIdTokens) return false;
    for (auto &f : i.feats) if (f.contains(c)) return true;
    for (auto &f : i.fields) { if (f.key.contains(c)) return true; for (auto &v : f.vals) if (v.contains(c)) return true; }
    return false;
}
static bool hasAstral(const InfoSet &i)
{
    auto a = [](const QString &s) { for (QChar c : s) if (c.isSurrogate()) return true; return false; };
    for (auto &d : i.ids) if (a(d.cat) || a(d.type) || a(d.lang) || a(d.name)) return true;
    for (auto &f : i.feats) if (a(f)) return true;
    for (auto &f : i.fields) { if (a(f.key)) return true; for (auto &v : f.vals) if (a(v)) return true; }
    return false;
}

template<typename T> static void shuffle(QList<T> &l, Rng &rng)
{
    for (int k = l.size() - 1; k > 0; k--) { int j = rng.below(k + 1); if (j != k) l.swapItemsAt(k, j); }
}
static InfoSet permuted(const InfoSet &b, Rng &rng)
{
    InfoSet p = b;
    shuffle(p.ids, rng); shuffle(p.feats, rng); shuffle(p.fields, rng);
    for (auto &f : p.fields) if (f.kind == 'l') shuffle(f.vals, rng);
    return p;
}

// one alteration of one component; returns a description, or "" when not applicable
static std::string mutate(InfoSet &m, Rng &rng, Gen &g)
{
    switch (rng.below(13)) {
    case 0: if (m.ids.isEmpty()) return ""; { auto &d = m.ids[rng.below(m.ids.size())]; QString *c[] = { &d.cat, &d.type, &d.lang, &d.name }; *c[rng.below(4)] += QL("x"); } return "alter-identity";
    case 1: if (m.ids.isEmpty()) return ""; m.ids.removeAt(rng.below(m.ids.size())); return "remove-identity";
    case 2: m.ids.insert(rng.below(m.ids.size() + 1), g.identity()); return "add-identity";
    case 3: { QString f = g.feature(); while (m.feats.contains(f)) f += QL("y"); m.feats.insert(rng.below(m.feats.size() + 1), f); } return "add-feature";
    case 4: if (m.feats.isEmpty()) return ""; m.feats.removeAll(QString(m.feats[rng.below(m.feats.size())])); return "remove-feature";
    case 5: if (m.feats.isEmpty()) return ""; { QString f = m.feats[rng.below(m.feats.size())]; for (auto &x : m.feats) if (x == f) x = f + QL("x"); } return "alter-feature";
    default: break;
    }
    if (!m.hasForm || m.fields.isEmpty()) return "";
    int j = rng.below(m.fields.size());
    Fld &f = m.fields[j];
    bool isFt = f.key == FORM_TYPE;
    switch (rng.below(6)) {
    case 0:  // alter a value
        if (f.kind == 'b') { f.vals[0] = f.vals[0] == QL("1") ? QL("0") : QL("1"); return "flip-bool"; }
        if (f.vals.isEmpty()) return "";
        f.vals[rng.below(f.vals.size())] += QL("x");
        return isFt ? "alter-form-type" : "alter-value";
    case 1:  // add a value
        if (f.kind != 'l' || isFt) return "";
        f.vals.insert(rng.below(f.vals.size() + 1), rng.below(4) ? g.text(2) : QString());
        return "add-value";
    case 2:  // remove a value
        if (f.kind != 'l' || isFt || f.vals.isEmpty()) return "";
        f.vals.removeAt(rng.below(f.vals.size()));
        return "remove-value";
    case 3:  // alter a key
        if (isFt) return "";
        { QString k = f.key + QL("x"); for (auto &o : m.fields) if (o.key == k) return ""; f.key = k; }
        return "alter-key";
    case 4:  // remove a field
        if (isFt) return "";
        m.fields.removeAt(j);
        return "remove-field";
    default: {  // add a field
        Fld n; n.key = g.text(2) + QL("n"); n.kind = 'l'; n.vals << g.text(2) << g.text(1);
        for (auto &o : m.fields) if (o.key == n.key) return "";
        m.fields.insert(rng.below(m.fields.size() + 1), n);
        return "add-field";
    }
    }
}

static long long g_cases = 0;

static void emitFailKeys(const std::vector<std::string> &keys, const std::string &fallback, const std::string &replay)
{
    if (keys.empty()) oracleFail(fallback, replay);
    else for (auto &k : keys) { oracleFail(k, replay); stat("oracle_fail:" + k); }
}

// all permutations of one section: every one must give the hash of the base
template<typename T> static bool allPerms(QList<T> &l, const std::function<bool()> &same)
{
    if (l.size() > 5) return true;
    QList<int> idx; for (int k = 0; k < l.size(); k++) idx << k;
    QList<T> orig = l;
    bool ok = true;
    do {
        for (int k = 0; k < idx.size(); k++) l[k] = orig[idx[k]];
        if (!same()) ok = false;
        stat("perms_checked");
    } while (ok && std::next_permutation(idx.begin(), idx.end()));
    l = orig;
    return ok;
}

// One base info set: correspondence lines + every oracle.
static void runCase(const InfoSet &base, Rng &rng, Gen &g, int nPerm, int nMut, bool exhaustivePerms)
{
    g_cases++;
    std::string enc = encInfo(base);
    printf("I %s\n", enc.c_str());
    corr("reset", "ok");
    std::string real = realVer(base, int(g_cases));
    corr("ver " + enc, real);
    if (g_cases <= 4) sample("ver " + enc + " => " + real);
    stat("cases");
    if (base.hasForm) stat("cases_with_form");
    if (hasAstral(base)) stat("cases_with_non_bmp");

    // the same QVariant contents under another field type / form type give the same hash (the code looks at the variant only)
    if (base.hasForm && realVer(base, int(g_cases) + 1) != real) oracleFail("C20:depends-on-field-type", enc); else oraclePass()++;

    Wire w = wireByRule(base);
    bool keysOk = uniqueKeys(base);
    // the wire rule is what the library really writes (checked on a share of the cases, always when there is a form)
    if (base.hasForm || g_cases % 4 == 0) {
        Wire wx = wireFromIq(makeIq(base, int(g_cases)));
        if (!(wx == w)) oracleFail("C20:wire-values-differ-from-hashed-values", enc); else oraclePass()++;
        stat("wire_rule_checked_against_xml");
    }

    std::string xep;
    bool inDomain = xepVer(w, Quirks(), xep);
    if (inDomain) {
        // Lean spec == independent C++ implementation of the XEP
        corr("spec " + enc, xep);
        // real code == XEP ?
        if (real == xep) oraclePass()++;
        else emitFailKeys(explain(w, real), "C20:differs-from-xep-0115", enc);
        stat("xep_compared");
    } else stat("outside_xep_domain");

    // permutation invariance, directly on the real code (needs distinct keys: XEP-0004 §3.2; otherwise the last one wins)
    if (keysOk) {
        for (int k = 0; k < nPerm; k++) {
            InfoSet p = permuted(base, rng);
            std::string v = realVer(p, int(g_cases));
            corr("ver " + encInfo(p), v);
            if (v == real) oraclePass()++; else oracleFail("C20:changes-under-reordering", enc + " -> " + encInfo(p));
        }
        if (exhaustivePerms) {
            InfoSet p = base;
            auto same = [&]() { return realVer(p, 0) == real; };
            bool ok = allPerms(p.ids, same) && allPerms(p.feats, same) && allPerms(p.fields, same);
            for (auto &f : p.fields) if (ok && f.kind == 'l') ok = allPerms(f.vals, same);
            if (ok) oraclePass()++; else oracleFail("C20:changes-under-reordering", enc + " (exhaustive)");
        }
    } else stat("duplicate_keys");

    // repeating a feature
    if (!base.feats.isEmpty()) {
        InfoSet d = base;
        int reps = 1 + rng.below(2);
        for (int k = 0; k < reps; k++) d.feats.insert(rng.below(d.feats.size() + 1), base.feats[rng.below(base.feats.size())]);
        std::string v = realVer(d, int(g_cases));
        corr("ver " + encInfo(d), v);
        if (v == real) oraclePass()++; else oracleFail("C20:changes-when-feature-repeated", enc + " -> " + encInfo(d));
        stat("dup_feature_checked");
    }

    // changes when altered
    if (inDomain) for (int k = 0; k < nMut; k++) {
        InfoSet m = base;
        std::string what = mutate(m, rng, g);
        if (what.empty()) continue;
        Wire wm = wireByRule(m);
        std::string xm;
        if (!xepVer(wm, Quirks(), xm)) continue;
        std::string vm = realVer(m, int(g_cases));
        std::string encm = encInfo(m);
        corr("ver " + encm, vm);
        stat("mutation:" + what);
        bool clean = !hasChar(base, QLatin1Char('<')) && !hasChar(m, QLatin1Char('<')) && !hasChar(base, QLatin1Char('/'), true) && !hasChar(m, QLatin1Char('/'), true);
        if (xm == xep) {
            // the XEP string itself does not distinguish the two info sets: separator characters inside components, or the
            // alteration is inside a form that is ignored because it has no FORM_TYPE (§5.4 item 6)
            bool ignoredForm = base.hasForm && std::none_of(base.fields.begin(), base.fields.end(), [](const Fld &f) { return f.key == FORM_TYPE; });
            stat(ignoredForm ? "mutation_inside_ignored_form" : "mutation_not_visible_in_xep_string");
            if (clean && !ignoredForm) oracleFail("C20:xep-string-ambiguous-without-separators", enc + " -> " + encm);
            continue;
        }
        if (vm != real) { oraclePass()++; continue; }
        // unchanged although the XEP value changes: one of the known deviations, or something new
        std::vector<std::string> keys;
        for (int b : quirkOrder) {
            Quirks q = quirksOf(b);
            std::string a1, a2;
            if (xepVer(w, q, a1) && xepVer(wm, q, a2) && a1 == a2 && a1 == real) { keys = keysOf(q); break; }
        }
        emitFailKeys(keys, "C20:unchanged-after-alteration", what + ": " + enc + " -> " + encm);
    }
}

// ----------------------------------------------------------------------------------------------- part 2: the client
class GenExtension : public QXmppClientExtension
{
public:
    QStringList feats; QList<QXmppDiscoveryIq::Identity> ids;
    QStringList discoveryFeatures() const override { return feats; }
    QList<QXmppDiscoveryIq::Identity> discoveryIdentities() const override { return ids; }
    bool handleStanza(const QDomElement &) override { return false; }
};

class TestClient : public QXmppClient
{
public:
    QStringList sent;
    TestClient() : QXmppClient(QXmppClient::NoExtensions)
    {
        configuration().setJid(QL("me@example.org/res"));
        connect(this, &QXmppLoggable::logMessage, this, [this](QXmppLogger::MessageType type, const QString &text) {
            if (type == QXmppLogger::SentMessage && !text.startsWith(QL("<r "))) sent << text;
        });
        QXmppStanza::s_uniqeIdNo = 0;
    }
    bool connectLoopback(quint16 port)
    {
        auto *s = d->stream->socket();
        s->connectToHost(QL("127.0.0.1"), port);
        if (!s->waitForConnected(2000)) return false;
        d->stream->d->sessionStarted = true;
        d->stream->d->isAuthenticated = true;
        return true;
    }
    void inject(const QString &xml) { d->stream->handlePacketReceived(domOf(xml)); }
    // connectToServer(config, presence) driven offline: drop the connection, let the client connect to the loopback server again
    // (caps are recomputed and stored here) ...
    bool connectOnly(const QXmppPresence &p, quint16 port)
    {
        d->stream->socket()->abort();
        QCoreApplication::processEvents();
        QXmppConfiguration cfg = configuration();
        cfg.setHost(QL("127.0.0.1"));
        cfg.setPort(port);
        connectToServer(cfg, p);
        if (!d->stream->socket()->waitForConnected(2000)) return false;
        QCoreApplication::processEvents();
        return true;
    }
    // ... then start the session the way the stream does after authentication/binding: the initial presence is the STORED one,
    // sent from _q_streamConnected
    void startSession()
    {
        d->stream->d->sessionStarted = true;
        d->stream->d->isAuthenticated = true;
        _q_streamConnected(QXmpp::Private::SessionBegin {});
    }
    // connection loss followed by the automatic reconnection (_q_reconnect -> connectToHost with the stored configuration) and a new session
    bool restartSession(quint16 port)
    {
        d->stream->socket()->abort();
        QCoreApplication::processEvents();
        configuration().setHost(QL("127.0.0.1"));
        configuration().setPort(port);
        _q_reconnect();
        if (!d->stream->socket()->waitForConnected(2000)) return false;
        QCoreApplication::processEvents();
        startSession();
        return true;
    }
    static QStringList baseFeatures() { return QXmppClientPrivate::discoveryFeatures(); }
};

static QString xmlAttr(const QString &s)
{
    QString o = s;
    o.replace(QL("&"), QL("&amp;")).replace(QL("<"), QL("&lt;")).replace(QL(">"), QL("&gt;")).replace(QL("'"), QL("&apos;")).replace(QL("\""), QL("&quot;"));
    return o;
}

static QTcpServer *g_server = nullptr;

// observation "ver of the answered info set": the independent hash of the answer as a conforming peer reads it from the wire
// (not QXmppDiscoveryIq::parse + verificationString: QDom drops blank-only text, which is the reader's doing, not the answer's)
static std::string wireHash(const QString &xml)
{
    std::string v;
    return xepVer(wireFromXml(xml), Quirks(), v) ? v : std::string("outside-xep-domain");
}

// capabilities node URIs: ordinary ones and adversarial ones ('#' inside / repeated / at the end, XML-special and non-ASCII characters,
// nodes that are prefixes / extensions of each other, a bare '#'); `allowEmpty`: the empty node (nothing is advertised then)
static QString genNode(Rng &rng, Gen &g, bool allowEmpty)
{
    static const char *pool[] = {
        "http://example.org/products#demo", "urn:x#a#b", "https://example.org/c#", "#", "##", "https://example.org/n", "https://example.org/n2",
        "https://example.org/n#", "https://example.org/a<b&c\"d'e>", "https://example.org/caf\xC3\xA9#\xF0\x9F\x98\x80", "https://github.com/qxmpp-project/qxmppx",
        "https://github.com/qxmpp-project/qxmpp#fork", "urn:other", "u", " node with spaces ",
    };
    uint32_t r = rng.below(allowEmpty ? 22 : 21);
    if (r < 15) return QString::fromUtf8(pool[r]);
    if (r < 18) { bool amb = g.ambiguous; g.ambiguous = true; QString s = QL("urn:n:") + g.str(3) + (rng.coin() ? QL("#") + g.str(2) : QString()); g.ambiguous = amb; return s; }
    if (r < 21) return QL("https://example.org/") + g.str(2);
    return QString();
}

static void runClientCase(Rng &rng, Gen &g, long long n)
{
    TestClient c;
    if (!c.connectLoopback(g_server->serverPort())) { fprintf(stderr, "loopback connect failed\n"); exit(3); }
    g_server->waitForNewConnection(1000);
    while (g_server->hasPendingConnections()) g_server->nextPendingConnection()->setParent(&c);

    auto *disco = c.addNewExtension<QXmppDiscoveryManager>();
    // bundled managers in a random subset and order
    std::vector<std::function<void()>> adders = {
        [&] { c.addNewExtension<QXmppVersionManager>(); }, [&] { c.addNewExtension<QXmppEntityTimeManager>(); },
        [&] { c.addNewExtension<QXmppRosterManager>(&c); }, [&] { c.addNewExtension<QXmppVCardManager>(); },
        [&] { c.addNewExtension<QXmppMucManager>(); }, [&] { c.addNewExtension<QXmppRpcManager>(); },
        [&] { c.addNewExtension<QXmppTransferManager>(); }, [&] { c.addNewExtension<QXmppMessageReceiptManager>(); },
        [&] { c.addNewExtension<QXmppAttentionManager>(); }, [&] { c.addNewExtension<QXmppArchiveManager>(); },
        [&] { c.addNewExtension<QXmppCarbonManager>(); }, [&] { c.addNewExtension<QXmppMamManager>(); },
        [&] { c.addNewExtension<QXmppBlockingManager>(); }, [&] { c.addNewExtension<QXmppPubSubManager>(); },
    };
    for (int k = int(adders.size()) - 1; k > 0; k--) std::swap(adders[k], adders[rng.below(k + 1)]);
    int nm = n == 0 ? 0 : (n == 1 ? int(adders.size()) : rng.below(uint32_t(adders.size()) + 1));
    for (int k = 0; k < nm; k++) adders[k]();
    if (nm > 8 && n > 1) c.addNewExtension<QXmppUserTuneManager>();
    // generated extensions: arbitrary features (duplicates of existing ones included) and identities
    int ng = n < 2 ? 0 : rng.below(3);
    for (int k = 0; k < ng; k++) {
        auto *e = new GenExtension;
        int nf = rng.below(4);
        for (int j = 0; j < nf; j++) e->feats << (rng.below(4) == 0 ? QL("urn:xmpp:ping") : g.feature());
        int ni = rng.below(3);
        QList<Id> ids; for (int j = 0; j < ni; j++) ids << g.identity();
        e->ids = makeIdentities(ids);
        c.addExtension(e);
    }
    // configuration through the manager's API
    if (n >= 2 && rng.below(3)) disco->setClientCategory(g.token());
    if (n >= 2 && rng.below(3)) disco->setClientType(g.token());
    if (n >= 2 && rng.below(3)) disco->setClientName(g.str(3));
    QString node = disco->clientCapabilitiesNode();
    if (n == 1) { node = QL("http://example.org/products#demo"); disco->setClientCapabilitiesNode(node); }
    else if (n >= 2 && rng.below(2) == 0) { node = genNode(rng, g, false); disco->setClientCapabilitiesNode(node); }
    InfoSet formHolder;
    if (n >= 2 && rng.below(2)) {
        do { formHolder = g.info(0, 0, false); } while (!formHolder.hasForm);
        disco->setClientInfoForm(makeForm(formHolder.fields, int(n)));
    }

    // advertise
    c.sent.clear();
    QXmppPresence pres(QXmppPresence::Available);
    c.setClientPresence(pres);
    QString presXml;
    for (auto &s : c.sent) if (s.startsWith(QL("<presence"))) presXml = s;
    std::string replay = "client-case " + std::to_string(n);
    if (presXml.isEmpty()) { oracleFail("C20:no-presence-emitted", replay); return; }
    QDomElement capsEl;
    { auto p = domOf(presXml); for (auto e = p.firstChildElement(QL("c")); !e.isNull(); e = e.nextSiblingElement(QL("c"))) if (e.namespaceURI() == QL("http://jabber.org/protocol/caps")) capsEl = e; }
    if (capsEl.isNull()) { oracleFail("C20:presence-without-caps", replay + " " + presXml.toStdString()); return; }
    QString ver = capsEl.attribute(QL("ver")), advNode = capsEl.attribute(QL("node"));
    replay += " presence=" + presXml.toStdString();
    if (capsEl.attribute(QL("hash")) != QL("sha-1") || advNode != node) oracleFail("C20:caps-element-attributes", replay); else oraclePass()++;

    // ask
    auto ask = [&](const QString &qnode, QDomElement &reply) {
        c.sent.clear();
        c.inject(QL("<iq xmlns='jabber:client' type='get' id='q%1' from='peer@example.org/r' to='me@example.org/res'><query xmlns='http://jabber.org/protocol/disco#info'%2/></iq>")
                     .arg(n).arg(qnode.isNull() ? QString() : QL(" node='") + xmlAttr(qnode) + QL("'")));
        QCoreApplication::processEvents();
        for (auto &s : c.sent) if (s.startsWith(QL("<iq"))) { reply = domOf(s); return s; }
        return QString();
    };
    QString qnode = advNode + QL("#") + ver;
    QDomElement reply;
    QString replyXml = ask(qnode, reply);
    replay += " reply=" + replyXml.toStdString();
    if (replyXml.isEmpty() || reply.attribute(QL("type")) != QL("result")) { oracleFail("C20:no-result-for-advertised-node", replay); return; }
    QDomElement query = reply.firstChildElement(QL("query"));
    if (query.attribute(QL("node")) != qnode) oracleFail("C20:reply-node-differs", replay); else oraclePass()++;
    Wire w = wireFromXml(replyXml);
    if (formHolder.hasForm) w.rawForms = wireByRule(formHolder).rawForms;
    std::string xep;
    if (!xepVer(w, Quirks(), xep)) { oracleFail("C20:reply-outside-xep-domain", replay); return; }
    // THE property: advertised == hash of what is answered
    if (xep == ver.toStdString()) oraclePass()++;
    else emitFailKeys(explain(w, ver.toStdString()), "C20:advertised-ne-answered", replay);
    // a peer verifying per §5.4 item 4 treats a reply with a repeated feature as ill-formed, i.e. cannot validate the advertised hash
    // (fixed by repo commit eee8133; case 1 = all bundled managers, MUC manager + client both contribute jabber:x:conference, stays the witness)
    {
        std::set<std::string> fs; std::string dup;
        for (auto &f : w.feats) if (!fs.insert(f).second) dup = f;
        if (!dup.empty()) { oracleFail("C20:reply-repeats-feature", "repeated: " + dup + " ; " + replay); stat("client_replies_with_repeated_feature"); }
        else oraclePass()++;
    }
    stat("client_cases");
    stat("client_reply_features", (long long)w.feats.size());
    stat("client_reply_identities", (long long)w.ids.size());
    if (!w.forms.empty()) stat("client_cases_with_form");

    // correspondence: model of capabilities()/addProperCapability()/handleIq() from the configuration the API reports
    std::string answered = wireHash(replyXml);
    auto cfgTail = [&]() {
        std::string op = hexOf(disco->clientCategory()) + " " + hexOf(disco->clientType()) + " " + hexOf(disco->clientName()) +
            " " + encFeats('B', TestClient::baseFeatures());
        auto exts = c.extensions();
        op += " E" + std::to_string(exts.size());
        for (auto *e : exts) {
            QList<Id> ids;
            for (auto &x : e->discoveryIdentities()) ids << Id { x.category(), x.type(), x.language(), x.name() };
            op += " " + encFeats('F', e->discoveryFeatures()) + " " + encIds(ids);
        }
        op += " " + encForm(formHolder.hasForm, formHolder.fields);
        return op;
    };
    auto capsOp = [&](const QString &q) { return "caps " + hexOf(disco->clientCapabilitiesNode()) + " " + hexOf(q) + " " + cfgTail(); };
    corr("reset", "ok");
    corr(capsOp(qnode), ver.toStdString() + "|" + answered);
    if (samplesLeft() > 0) sample("client: <c ver='" + ver.toStdString() + "' node='" + advNode.toStdString() + "'/> ; reply to " + qnode.toStdString() + " has " +
                                  std::to_string(w.feats.size()) + " features, " + std::to_string(w.ids.size()) + " identities; XEP hash of reply " + xep);
    // plain query without node: same info set
    {
        QDomElement r2; QString x2 = ask(QString(), r2);
        if (x2.isEmpty() || r2.attribute(QL("type")) != QL("result")) oracleFail("C20:no-result-for-plain-query", replay);
        else {
            Wire w2 = wireFromXml(x2);
            if (w2 == w) oraclePass()++; else oracleFail("C20:plain-query-answers-differently", replay);
            corr(capsOp(QString()), ver.toStdString() + "|" + wireHash(x2));
        }
    }
    // the advertised node without "#ver": same info set, never an error
    {
        QDomElement r2; QString x2 = ask(advNode, r2);
        if (x2.isEmpty() || r2.attribute(QL("type")) != QL("result")) oracleFail("C20:no-result-for-advertised-node", "plain node " + advNode.toStdString() + " ; " + replay);
        else {
            Wire w2 = wireFromXml(x2);
            if (w2 == w) oraclePass()++; else oracleFail("C20:plain-query-answers-differently", replay);
            corr(capsOp(advNode), ver.toStdString() + "|" + wireHash(x2));
        }
    }
    // other nodes (foreign; an extension of the own node; a proper prefix of it): correspondence with the prefix rule only
    for (const QString &other : { QL("urn:other#") + ver, advNode + QL("x#") + ver, advNode.left(advNode.size() - 1) + QL("#") + ver }) {
        QDomElement r3; QString x3 = ask(other, r3);
        if (x3.isEmpty()) continue;
        bool err = r3.attribute(QL("type")) == QL("error");
        std::string obs = "not-found";
        if (!err) { obs = wireHash(x3); stat("foreign_node_answered_by_prefix_rule"); }
        corr(capsOp(other), ver.toStdString() + "|" + obs);
    }
    std::vector<std::pair<std::string, std::string>> pendingQueries;
    // ---- history on the same client.  The client keeps a STORED presence; its caps are recomputed by setClientPresence / connectToServer
    //      and (since repo commit 032336b) at every site that sends or hands out the stored copy: session start incl. automatic
    //      reconnection, MUC join (clientPresence()), disconnectFromServer.  The stale-caps witnesses of the former findings
    //      C20:stale-ver:* are cases 0 and 1 and must pass now.
    //      After EVERY emitted presence its <c node ver> is compared with the independently computed XEP-0115 hash of what the client
    //      answers to disco#info at that moment.
    corr("config " + hexOf(disco->clientCapabilitiesNode()) + " " + cfgTail(), "ok");
    corr("publish fresh", hexOf(advNode) + "|" + ver.toStdString());   // the publication checked above, for the model's stored presence
    std::string history = "setClientPresence(fresh)";
    QList<GenExtension *> added;
    bool dirty = false;   // reconfigured since the caps of the stored presence were last recomputed
    QString lastQnode = qnode; std::string lastXep = xep;
    auto acceptPending = [&]() {
        if (!g_server->hasPendingConnections()) g_server->waitForNewConnection(1000);
        while (g_server->hasPendingConnections()) g_server->nextPendingConnection()->setParent(&c);
    };
    auto lastPresence = [&]() { QString px; for (auto &x : c.sent) if (x.startsWith(QL("<presence"))) px = x; return px; };
    auto reconfigure = [&](int way, int k) {
        switch (way) {
        case 0: disco->setClientName(disco->clientName() + QL("+")); history += "; setClientName"; break;
        case 1: {
            auto *e = new GenExtension; e->feats << QL("urn:step:%1:%2").arg(k).arg(added.size());
            if (rng.coin()) e->ids = makeIdentities({ g.identity() });
            c.addExtension(e); added << e; history += "; addExtension";
            break;
        }
        case 2:
            if (formHolder.hasForm && rng.coin()) { formHolder = InfoSet(); disco->setClientInfoForm(QXmppDataForm()); history += "; setClientInfoForm(none)"; }
            else { do { formHolder = g.info(0, 0, false); } while (!formHolder.hasForm); disco->setClientInfoForm(makeForm(formHolder.fields, int(n) + k)); history += "; setClientInfoForm"; }
            break;
        case 3: if (rng.coin()) disco->setClientType(g.token() + QL("t")); else disco->setClientCategory(g.token() + QL("c")); history += "; setClientType/Category"; break;
        case 4:
            if (!added.isEmpty()) { c.removeExtension(added.takeLast()); history += "; removeExtension"; }
            else { c.addNewExtension<QXmppUserTuneManager>(); history += "; addExtension(bundled)"; }
            break;
        case 5: { QString nn = n < 2 ? (k % 2 ? QL("urn:x#a#b") : QL("https://example.org/c#")) : genNode(rng, g, true); disco->setClientCapabilitiesNode(nn); history += "; setClientCapabilitiesNode(" + nn.toStdString() + ")"; break; }
        case 6: if (!c.findExtension<QXmppVersionManager>()) { c.addNewExtension<QXmppVersionManager>(); history += "; addExtension(version)"; } else { history += "; (no change)"; return; } break;
        default: history += "; (no change)"; return;
        }
        dirty = true;
        corr("config " + hexOf(disco->clientCapabilitiesNode()) + " " + cfgTail(), "ok");
    };
    // judge one emitted presence; `recomputed`: the site is one that recomputes the caps (setClientPresence, or a session start right
    // after connectToServer without reconfiguration in between).  Returns the observation for the correspondence line.
    auto judge = [&](const QString &px, const std::string &site, bool recomputed) -> std::string {
        std::string rp = "client-case " + std::to_string(n) + " history: " + history;
        if (px.isEmpty()) { oracleFail("C20:no-presence-emitted", rp); return "none"; }
        rp += " presence=" + px.toStdString();
        QDomElement ce;
        { auto pd = domOf(px); for (auto e = pd.firstChildElement(QL("c")); !e.isNull(); e = e.nextSiblingElement(QL("c"))) if (e.namespaceURI() == QL("http://jabber.org/protocol/caps")) ce = e; }
        QString v2 = ce.attribute(QL("ver")), n2 = ce.attribute(QL("node"));
        std::string obs = ce.isNull() ? std::string("no-caps") : hexOf(n2) + "|" + v2.toStdString();
        // what the client answers at this moment (query without node), hashed independently
        QDomElement r0; QString x0 = ask(QString(), r0);
        if (x0.isEmpty() || r0.attribute(QL("type")) != QL("result")) { oracleFail("C20:no-result-for-plain-query", rp); return obs; }
        Wire w0 = wireFromXml(x0);
        if (formHolder.hasForm) w0.rawForms = wireByRule(formHolder).rawForms;
        std::string xep0;
        if (!xepVer(w0, Quirks(), xep0)) { oracleFail("C20:reply-outside-xep-domain", rp); return obs; }
        QString curNode = disco->clientCapabilitiesNode();
        stat("client_presences_judged:" + site);
        bool ok = curNode.isEmpty() ? ce.isNull()
                                    : (!ce.isNull() && n2 == curNode && ce.attribute(QL("hash")) == QL("sha-1") && v2.toStdString() == xep0);
        if (!ok) {
            rp += " answer-now=" + x0.toStdString();
            std::vector<std::string> keys;
            if (!ce.isNull() && n2 == curNode) keys = explain(w0, v2.toStdString());
            if (!keys.empty()) emitFailKeys(keys, "", rp);
            else if (dirty && !recomputed) { oracleFail("C20:stale-ver:" + site, rp); stat("stale_caps_emitted:" + site); }
            else if (!ce.isNull() && n2 == curNode && ce.attribute(QL("hash")) == QL("sha-1")) oracleFail("C20:advertised-ne-answered:after-republish", site + " ; " + rp);
            else oracleFail("C20:caps-element-attributes", site + " ; " + rp);
            return obs;
        }
        oraclePass()++;
        if (ce.isNull()) { stat("empty_node_nothing_advertised"); lastQnode = QString(); return obs; }
        // the advertised node#ver, the plain node: answered, never an error, the same info set
        QString q2 = n2 + QL("#") + v2;
        for (const QString &pq : { q2, n2 }) {
            QDomElement r5; QString x5 = ask(pq, r5);
            if (x5.isEmpty() || r5.attribute(QL("type")) != QL("result")) { oracleFail("C20:no-result-for-advertised-node", "query " + pq.toStdString() + " ; " + rp); continue; }
            if (r5.firstChildElement(QL("query")).attribute(QL("node")) != pq) oracleFail("C20:reply-node-differs", rp); else oraclePass()++;
            Wire w5 = wireFromXml(x5);
            if (w5 == w0) oraclePass()++; else oracleFail("C20:plain-query-answers-differently", rp);
            { std::set<std::string> fs; std::string dup; for (auto &f : w5.feats) if (!fs.insert(f).second) dup = f;
              if (!dup.empty()) oracleFail("C20:reply-repeats-feature", "repeated: " + dup + " ; " + rp); else oraclePass()++; }
            pendingQueries.push_back({ "query " + hexOf(pq), wireHash(x5) });
        }
        pendingQueries.push_back({ "query -", wireHash(x0) });
        // an extension of the own node / a foreign node: correspondence with the prefix rule
        for (const QString &other : { n2 + QL("x#") + v2, QL("urn:other#") + v2 }) {
            QDomElement r6; QString x6 = ask(other, r6);
            if (x6.isEmpty()) continue;
            std::string o = "not-found";
            if (r6.attribute(QL("type")) != QL("error")) { o = wireHash(x6); stat("foreign_node_answered_by_prefix_rule"); }
            pendingQueries.push_back({ "query " + hexOf(other), o });
        }
        if (n2.contains(QLatin1Char('#'))) stat("client_presences_node_with_hash_sign");
        lastQnode = q2; lastXep = xep0;
        return obs;
    };
    auto flushQueries = [&]() { for (auto &q : pendingQueries) corr(q.first, q.second); pendingQueries.clear(); };
    // an application slot on QXmppClient::connected() that changes the discovery set (runs inside _q_streamConnected, before the
    // initial presence is sent): the initial presence must already advertise the changed set
    bool hookArmed = false;
    QObject::connect(&c, &QXmppClient::connected, &c, [&]() {
        if (!hookArmed) return;
        hookArmed = false;
        history += "; [slot on connected():";
        reconfigure(int(rng.below(2)), 300);
        history += "]";
        stat("reconfigured_in_connected_slot");
    });

    int steps = n < 2 ? 4 : 2 + int(rng.below(4));
    for (int k = 0; k < steps; k++) {
        reconfigure(n < 2 ? (n == 0 ? k : 3 - k) : int(rng.below(8)), k);
        // observation only (no presence emitted yet, so nothing is claimed): the old node#ver is answered with the new info set
        if (dirty && !lastQnode.isNull()) {
            QDomElement r4; QString x4 = ask(lastQnode, r4);
            if (!x4.isEmpty() && r4.attribute(QL("type")) == QL("result")) {
                std::string x; Wire w4 = wireFromXml(x4);
                if (xepVer(w4, Quirks(), x) && x != lastXep) stat("stale_ver_answered_with_new_info_before_any_new_presence");
            }
        }
        // sites that send the STORED presence: automatic reconnection + session start, MUC join
        int em = n < 2 ? (k == 0 ? 0 : k == 1 ? 1 : 2) : int(rng.below(5));
        if (em == 0) {
            c.sent.clear();
            hookArmed = n < 2 ? n == 0 : rng.below(3) == 0;
            if (!c.restartSession(g_server->serverPort())) { fprintf(stderr, "loopback reconnect failed\n"); exit(3); }
            acceptPending();
            history += "; connection lost, automatic reconnection, session start";
            corr("emit session", judge(lastPresence(), "session-start", false)); flushQueries();
        } else if (em == 1) {
            auto *muc = c.findExtension<QXmppMucManager>();
            if (!muc) { muc = c.addNewExtension<QXmppMucManager>(); history += "; addExtension(QXmppMucManager)"; dirty = true; corr("config " + hexOf(disco->clientCapabilitiesNode()) + " " + cfgTail(), "ok"); }
            auto *room = muc->addRoom(QL("room%1@conference.example.org").arg(k));
            room->setNickName(QL("nick"));
            c.sent.clear();
            room->join();
            history += "; QXmppMucRoom::join";
            corr("emit muc", judge(lastPresence(), "muc-join", false)); flushQueries();
            // presences built from scratch (MUC leave, roster subscription management): no caps element, nothing advertised
            c.sent.clear();
            room->leave(QL("bye"));
            if (auto *roster = c.findExtension<QXmppRosterManager>()) { roster->subscribe(QL("friend@example.org")); roster->unsubscribe(QL("friend@example.org")); roster->acceptSubscription(QL("friend@example.org")); }
            QCoreApplication::processEvents();
            for (auto &x : c.sent) if (x.startsWith(QL("<presence"))) {
                bool hasCaps = false;
                auto pd = domOf(x); for (auto e = pd.firstChildElement(QL("c")); !e.isNull(); e = e.nextSiblingElement(QL("c"))) if (e.namespaceURI() == QL("http://jabber.org/protocol/caps")) hasCaps = true;
                stat("scratch_built_presences");
                if (hasCaps) oracleFail("C20:advertised-ne-answered:unexpected-site", "presence built from scratch carries caps: " + x.toStdString()); else oraclePass()++;
            }
        }
        // publish again: setClientPresence / connectToServer, with a fresh presence or one derived from clientPresence()
        int how = n < 2 ? (k + int(n)) % 4 : int(rng.below(4));
        bool derived = how == 1 || how == 2;
        QXmppPresence p(QXmppPresence::Available);
        if (derived) { p = c.clientPresence(); p.setStatusText(QL("status %1").arg(k)); if (rng.coin()) p.setPriority(k + 1); }
        else if (rng.coin()) p.setStatusText(QL("new %1").arg(k));
        c.sent.clear();
        stat(std::string("republish:") + (derived ? "derived" : "fresh") + (how >= 2 ? ":connectToServer" : ":setClientPresence"));
        if (how >= 2) {
            if (!c.connectOnly(p, g_server->serverPort())) { fprintf(stderr, "loopback reconnect failed\n"); exit(3); }
            acceptPending();
            dirty = false;
            history += derived ? "; connectToServer(derived from clientPresence())" : "; connectToServer(fresh)";
            corr(std::string("connect ") + (derived ? "derived" : "fresh"), "-");
            // the application may still change its extensions / identity before the session is established
            if (n < 2 ? (n == 1 && k == 1) : rng.below(3) == 0) reconfigure(n < 2 ? 1 : int(rng.below(6)), k + 100);
            c.sent.clear();
            hookArmed = n < 2 ? (n == 1 && k == 0) : rng.below(3) == 0;
            c.startSession();
            history += "; session start";
            corr("emit session", judge(lastPresence(), "session-start", !dirty)); flushQueries();
        } else {
            c.setClientPresence(p);
            dirty = false;
            history += derived ? "; setClientPresence(derived from clientPresence())" : "; setClientPresence(fresh)";
            corr(std::string("publish ") + (derived ? "derived" : "fresh"), judge(lastPresence(), "setClientPresence", true)); flushQueries();
        }
        stat("client_republications");
    }
    // leaving: disconnectFromServer sends the stored presence as unavailable
    if (n < 2 || rng.coin()) {
        if (n < 2 || rng.coin()) reconfigure(n < 2 ? 0 : int(rng.below(6)), 200);
        c.sent.clear();
        c.disconnectFromServer();
        history += "; disconnectFromServer";
        corr("emit disconnect", judge(lastPresence(), "disconnect", false)); flushQueries();
    }
}

// ----------------------------------------------------------------------------------------------- main
static Id mkId(const char *c, const char *t, const char *l, const QString &n) { return { QString::fromUtf8(c), QString::fromUtf8(t), QString::fromUtf8(l), n }; }

int main(int argc, char **argv)
{
    QCoreApplication app(argc, argv);
    Args a = parseArgs(argc, argv);
    bool thorough = a.tier == "thorough";
    // (vh::Rng hashes the seed itself by now; the extra scrambling only decorrelates this harness from the others)
    auto scramble = [](uint64_t z) { z += 0x9E3779B97F4A7C15ull; z = (z ^ (z >> 30)) * 0xBF58476D1CE4E5B9ull; z = (z ^ (z >> 27)) * 0x94D049BB133111EBull; return z ^ (z >> 31); };
    Rng rng(scramble(scramble(a.seed) ^ 0xC20C20C20ull));
    Gen g(rng);

    // ---- corpus: XEP-0115 examples, the collation witness, minimized quirks
    {
        InfoSet x1; x1.ids << mkId("client", "pc", "", QL("Exodus 0.9.1"));
        x1.feats << QL("http://jabber.org/protocol/caps") << QL("http://jabber.org/protocol/disco#info") << QL("http://jabber.org/protocol/disco#items") << QL("http://jabber.org/protocol/muc");
        std::string v = realVer(x1);
        if (v == "QgayPKawpkPSDYmwT/WM94uAlu0=") oraclePass()++; else oracleFail("C20:xep-example-5.2", v);
        runCase(x1, rng, g, 3, 6, true);
        InfoSet x2; x2.ids << mkId("client", "pc", "en", QL("Psi 0.11")) << mkId("client", "pc", "el", QString::fromUtf8("\xCE\xA8 0.11"));
        x2.feats = x1.feats; x2.hasForm = true;
        x2.fields << Fld { FORM_TYPE, 't', { QL("urn:xmpp:dataforms:softwareinfo") } } << Fld { QL("ip_version"), 'l', { QL("ipv4"), QL("ipv6") } }
                  << Fld { QL("os"), 't', { QL("Mac") } } << Fld { QL("os_version"), 't', { QL("10.5.1") } } << Fld { QL("software"), 't', { QL("Psi") } }
                  << Fld { QL("software_version"), 't', { QL("0.11") } };
        v = realVer(x2);
        if (v == "q07IKJEyjvHSyhy//CH0CxmKi8w=") oraclePass()++; else oracleFail("C20:xep-example-5.3", v);
        runCase(x2, rng, g, 3, 6, true);
        // DESIGN §6 row 19 (fixed by repo commit 0beac74, kept as regression witness): U+1F600 sorts before U+FF5E by UTF-16 code units,
        // after it by octets
        char32_t smile = 0x1F600, tilde = 0xFF5E;
        InfoSet w1; w1.ids << mkId("client", "pc", "", QString::fromUcs4(&smile, 1)) << mkId("client", "pc", "", QString::fromUcs4(&tilde, 1));
        runCase(w1, rng, g, 2, 4, true);
        InfoSet w2; w2.feats << QString::fromUcs4(&smile, 1) << QString::fromUcs4(&tilde, 1);
        runCase(w2, rng, g, 2, 4, true);
        InfoSet w3; w3.hasForm = true; w3.fields << Fld { FORM_TYPE, 't', { QL("urn:t") } } << Fld { QL("k"), 'l', { QString::fromUcs4(&tilde, 1), QString::fromUcs4(&smile, 1) } };
        runCase(w3, rng, g, 2, 4, true);
        InfoSet b1; b1.hasForm = true; b1.fields << Fld { FORM_TYPE, 't', { QL("urn:t") } } << Fld { QL("b"), 'b', { QL("1") } };
        runCase(b1, rng, g, 2, 4, true);
        InfoSet e1; e1.hasForm = true; e1.fields << Fld { FORM_TYPE, 't', { QL("urn:t") } } << Fld { QL("b"), 't', {} };
        runCase(e1, rng, g, 2, 4, true);
        // a CR inside a value (former finding C20:cr-in-form-value-read-as-lf): written as &#13;, read back as CR
        InfoSet c1; c1.hasForm = true; c1.fields << Fld { FORM_TYPE, 't', { QL("urn:t") } } << Fld { QL("b"), 'l', { QL("x\ry"), QL("line 1\r\nline 2"), QL("\r") } } << Fld { QL("c"), 't', { QL("a\rb") } };
        runCase(c1, rng, g, 2, 4, true);
        // the empty NON-NULL string: written as <value/> since repo commit 06b3045
        InfoSet e3; e3.hasForm = true; e3.fields << Fld { FORM_TYPE, 't', { QL("urn:t") } } << Fld { QL("b"), 't', { QLatin1String("") } };
        runCase(e3, rng, g, 2, 4, true);
        InfoSet e2; e2.hasForm = true; e2.fields << Fld { FORM_TYPE, 't', { QL("urn:t") } } << Fld { QL("b"), 'l', {} };
        runCase(e2, rng, g, 2, 8, true);
        // tuple order vs order of the formatted string: '-' (2D) < '/' (2F)
        InfoSet t1; t1.ids << mkId("a", "x", "", QL("n")) << mkId("a-b", "x", "", QL("n")) << mkId("client", "pc", "en", QL("n")) << mkId("client", "pc", "en-US", QL("n"));
        runCase(t1, rng, g, 3, 4, true);
        // duplicate keys: the last one wins in the QMap
        InfoSet d1; d1.hasForm = true; d1.fields << Fld { FORM_TYPE, 't', { QL("urn:t") } } << Fld { QL("k"), 't', { QL("1") } } << Fld { QL("k"), 't', { QL("2") } } << Fld { FORM_TYPE, 't', { QL("urn:u") } };
        runCase(d1, rng, g, 0, 0, false);
    }

    // ---- small sets, every permutation of every section
    int nSmall = thorough ? 18000 : 600;
    for (int k = 0; k < nSmall; k++) {
        g.ambiguous = false; g.astral = k % 3 != 0;
        InfoSet b = g.info(3, 4, false);
        runCase(b, rng, g, 1, 3, true);
    }
    stat("small_sets_all_permutations", nSmall);

    // ---- the property's stated sizes: ≤ 4 identities, ≤ 6 features with duplicates, optional form
    int nRand = thorough ? 180000 : 5000;
    for (int k = 0; k < nRand; k++) {
        g.ambiguous = false; g.astral = k % 4 != 0;
        InfoSet b = g.info(4, 6, false);
        runCase(b, rng, g, 2, 4, k % 16 == 0);
    }
    stat("random_sets", nRand);

    // ---- forms outside the XEP's domain (repeated var, FORM_TYPE missing / multi-valued): correspondence only
    int nWeird = thorough ? 30000 : 1200;
    for (int k = 0; k < nWeird; k++) {
        g.ambiguous = false; g.astral = true;
        InfoSet b = g.info(2, 3, true);
        runCase(b, rng, g, 1, 2, false);
    }
    stat("irregular_form_sets", nWeird);

    // ---- separator characters inside components: the XEP string is ambiguous there (XEP-0115 §5.4 rejects '<' on receipt);
    //      equality with the XEP value and with the model is still checked
    int nAmb = thorough ? 30000 : 1200;
    for (int k = 0; k < nAmb; k++) {
        g.ambiguous = true; g.astral = true;
        InfoSet b = g.info(3, 4, false);
        runCase(b, rng, g, 1, 3, false);
    }
    g.ambiguous = false;
    stat("separator_sets", nAmb);

    // ---- part 2
    QTcpServer server; g_server = &server;
    if (!server.listen(QHostAddress::LocalHost)) { fprintf(stderr, "cannot listen on loopback\n"); return 3; }
    int nClient = thorough ? 4000 : 200;
    for (int k = 0; k < nClient; k++) {
        printf("I client-case %d\n", k); fflush(stdout);
        runClientCase(rng, g, k);
    }
    finish();
    return 0;
}
