// C13 harness: drives the real QXmppPromise<T>/QXmppTask<T> for T = void, a tracked copyable
// value and the move-only std::unique_ptr<Val>; prints op/observation lines for the Lean model and evaluates
// the property itself (oracle) independently of the model.
#include "common.h"
#include "QXmppPromise.h"
#include "QXmppTask.h"
#include <QCoreApplication>
#include <QObject>
#include <functional>
#include <memory>
#include <set>
#include <sstream>

using namespace vh;

static long liveValues = 0;    // tracked copyable values alive
static long liveClosures = 0;  // continuation closures alive

struct KSrc { int v; };   // conversion source for the converting finish(U&&) overload whose conversion has a side effect
struct Val {
    int v = -1; bool moved = false;
    explicit Val(int x) : v(x) { liveValues++; }
    explicit Val(KSrc s);
    Val(const Val &o) : v(o.v), moved(o.moved) { liveValues++; }
    Val(Val &&o) noexcept : v(o.v), moved(o.moved) { o.moved = true; liveValues++; }
    Val &operator=(Val &&o) noexcept { v = o.v; moved = o.moved; o.moved = true; return *this; }
    virtual ~Val() { liveValues--; }
};
// conversion sources for the converting finish(U&&) overload whose conversion has a side effect (destroys a context)
static std::function<void()> onConvert;
struct DVal : Val { explicit DVal(int x) : Val(x) {} };   // for the converting finish(U&&) overload
struct KPtr { int v; operator std::unique_ptr<Val>() && { if (onConvert) onConvert(); return std::make_unique<Val>(v); } };
inline Val::Val(KSrc s) : v(s.v) { liveValues++; if (onConvert) onConvert(); }
struct Token { Token() { liveClosures++; } ~Token() { liveClosures--; } };

struct Inner { char kind; int arg; };  // 't' thenI ctx | 'd' destroyCtx c | 'x' drop every handle

// Conv: finish through the converting overload finish(U&&) with U != T (int -> Val, unique_ptr<DVal> -> unique_ptr<Val>)
template<typename T, bool Conv = false> struct Env {
    // every handle lives in its own heap object: dropping one really frees its memory (a use of a destroyed handle is a sanitizer report)
    std::vector<std::unique_ptr<QXmppPromise<T>>> promises;
    std::vector<std::unique_ptr<QXmppTask<T>>> tasks;
    std::map<int, QObject *> ctx;
    std::set<int> destroyed;
    std::map<int, int> ctxOfK;      // continuation id -> context id passed (0 = nullptr)
    std::map<int, int> ranCount;
    std::vector<std::string> evs;   // events of the current step
    int nextId = 0;
    bool copyToggle = false;
    bool finished = false; int finishedWith = -1;
    std::string history;
    bool inBody = false;
    int pendingK = -1, pendingCtx = 0;   // last continuation attached before finish (the one that must run)
    bool delivered = false;              // a value task's result was handed to some continuation

    size_t refs() const { return promises.size() + tasks.size(); }
    QObject *ctxPtr(int c, int &eff) {
        if (c == 0 || destroyed.count(c)) { eff = 0; return nullptr; }
        eff = c;
        auto it = ctx.find(c);
        if (it == ctx.end()) it = ctx.emplace(c, new QObject()).first;
        return it->second;
    }
    void destroy(int c) {
        if (c == 0) return;
        destroyed.insert(c);
        auto it = ctx.find(c);
        if (it != ctx.end()) { delete it->second; ctx.erase(it); }
    }
    QXmppTask<T> aTask() { return tasks.empty() ? promises.front()->task() : *tasks.front(); }

    void oracleRan(int k, int eff, const std::string &val, bool reentrant) {
        ranCount[k]++;
        if (ranCount[k] > 1) oracleFail("C13:ran-twice", history);
        else if (eff != 0 && destroyed.count(eff)) oracleFail("C13:ran-after-context-death", history);
        else if constexpr (!std::is_void_v<T>) {
            if (val != std::to_string(finishedWith)) {
                // known: re-entrant late attach sees the moved-from value
                oracleFail(reentrant && val == "moved" ? "C13:reentrant-late-attach-moved-from" : "C13:wrong-value", history);
            } else oraclePass()++;
        } else oraclePass()++;
    }

    void attach(int c, std::vector<Inner> body, bool reentrant) {
        int k = nextId++;
        int eff; QObject *p = ctxPtr(c, eff);
        ctxOfK[k] = eff;
        auto tok = std::make_shared<Token>();
        auto run = [this, k, eff, body, tok, reentrant](const std::string &val) {
            evs.push_back("ran " + std::to_string(k) + " " + std::to_string(eff) + " " + val);
            delivered = true;
            oracleRan(k, eff, val, reentrant);
            bool saved = inBody; inBody = true;
            for (auto &i : body) {
                if (i.kind == 't') { if (refs() > 0) attach(i.arg, {}, true); }
                else if (i.kind == 'x') { tasks.clear(); promises.clear(); }   // the owner deletes itself from inside its continuation
                else destroy(i.arg);
            }
            inBody = saved;
        };
        auto t = aTask();
        bool wasFinished = finished;
        // property (at least once): attached after finish => runs now (void: always; value: iff the value is still there)
        // ("still there" is the documented hasResult(): a value is not stored when a continuation was registered at finish)
        bool mustRunNow = wasFinished;
        if constexpr (!std::is_void_v<T>) mustRunNow = wasFinished && t.hasResult();
        if (!wasFinished) { pendingK = k; pendingCtx = eff; }
        struct AfterAttach { Env *e; int k; bool must; ~AfterAttach() {
            if (must) { if (e->ranCount[k] != 1) oracleFail("C13:continuation-not-run", e->history); else oraclePass()++; } } } after{this, k, mustRunNow};
        if constexpr (std::is_void_v<T>) {
            t.then(p, [run]() { run("-"); });
        } else if constexpr (std::is_same_v<T, Val>) {
            t.then(p, [run](Val &&v) { Val mine = std::move(v); run(mine.moved ? "moved" : std::to_string(mine.v)); });
        } else {
            t.then(p, [run](std::unique_ptr<Val> &&v) { auto mine = std::move(v); run(mine ? std::to_string(mine->v) : "moved"); });
        }
    }

    // the op as this environment executes it: without a converting finish there is no conversion and nothing is destroyed
    static std::string effectiveOp(const std::string &op) {
        if (op.rfind("finishk ", 0) == 0) {
            if constexpr (!Conv || std::is_void_v<T>) { std::istringstream is(op); std::string w; int c, v; is >> w >> c >> v; return "finish " + std::to_string(v); }
        }
        return op;
    }
    std::string apply(const std::string &op) {
        evs.clear();
        const size_t refsBefore = refs();
        history += op + ";";
        std::istringstream is(op); std::string w; is >> w;
        if (w == "then") {
            int c; std::string b; is >> c >> b;
            std::vector<Inner> body;
            if (b != "-") { std::istringstream bs(b); std::string item; while (std::getline(bs, item, ',')) body.push_back({item[0], item.size() > 1 ? atoi(item.c_str() + 1) : 0}); }
            if (refs() > 0) {
                const long closuresBefore = liveClosures; const bool wasFinished = finished;
                attach(c, body, false);
                // released: a then() on a finished task runs its continuation or drops it — either way the closure is gone when then() returns
                if (wasFinished) { if (liveClosures > closuresBefore) oracleFail("C13:closure-retained-by-late-then", history); else oraclePass()++; }
            }
        } else if (w == "finish") {
            int v; is >> v;
            if (refs() > 0 && !finished) {
                finished = true; finishedWith = v;
                bool destroyedAtFinish = pendingCtx != 0 && destroyed.count(pendingCtx);
                // finish needs a promise: promises are dropped last, so one exists
                if constexpr (std::is_void_v<T>) promises.front()->finish();
                else if constexpr (std::is_same_v<T, Val>) { if constexpr (Conv) promises.front()->finish(int(v)); else promises.front()->finish(Val(v)); }
                else { if constexpr (Conv) promises.front()->finish(std::make_unique<DVal>(v)); else promises.front()->finish(std::make_unique<Val>(v)); }
                // property (at least once): the continuation attached last before finish runs at finish if its context is alive
                if (pendingK >= 0 && pendingCtx != 0 && !destroyedAtFinish) {
                    if (ranCount[pendingK] != 1) oracleFail("C13:continuation-not-run", history); else oraclePass()++;
                }
            }
        } else if (w == "finishk") {
            // converting finish whose conversion destroys context c (only reached in Conv environments, see effectiveOp)
            int c, v; is >> c >> v;
            if (refs() > 0 && !finished) {
                finished = true; finishedWith = v;
                onConvert = [this, c]() { destroy(c); };
                if constexpr (std::is_same_v<T, Val>) promises.front()->finish(KSrc{v});
                else if constexpr (!std::is_void_v<T>) promises.front()->finish(KPtr{v});
                onConvert = nullptr;
                // the conversion may have destroyed the pending continuation's context: then it must NOT have run (checked by oracleRan)
                if (pendingK >= 0 && pendingCtx != 0 && !destroyed.count(pendingCtx)) {
                    if (ranCount[pendingK] != 1) oracleFail("C13:continuation-not-run", history); else oraclePass()++;
                }
            }
        } else if (w == "take") {
            std::string took = "took -";
            if constexpr (!std::is_void_v<T>) {
                if (refs() > 0 && finished) {
                    auto t = aTask();
                    if (t.hasResult()) {
                        auto val = t.takeResult();
                        if constexpr (std::is_same_v<T, Val>) took = "took " + (val.moved ? std::string("moved") : std::to_string(val.v));
                        else took = "took " + (val ? std::to_string(val->v) : std::string("moved"));
                        if (took != "took " + std::to_string(finishedWith)) oracleFail("C13:wrong-value", history); else oraclePass()++;
                        // released: the value was handed out, nothing may stay stored
                        if (t.hasResult()) oracleFail("C13:value-retained-after-takeResult", history); else oraclePass()++;
                    }
                }
            }
            evs.push_back(took);
        } else if (w == "destroy") {
            int c; is >> c; destroy(c);
        } else if (w == "copy") {
            if (refs() > 0) {
                copyToggle = !copyToggle;
                if (copyToggle) tasks.push_back(std::make_unique<QXmppTask<T>>(aTask())); else promises.push_back(std::make_unique<QXmppPromise<T>>(*promises.front()));
            }
        } else if (w == "drop") {
            if (refs() > 0) {
                if (!tasks.empty()) tasks.pop_back(); else promises.pop_back();
            }
        }
        if (refsBefore > 0 && refs() == 0) {
            // last handle gone during this step: value and continuation must be released by now
            evs.push_back("released");
            if (liveValues != 0 || liveClosures != 0) oracleFail("C13:not-released", history); else oraclePass()++;
        }
        std::string e;
        for (size_t i = 0; i < evs.size(); i++) { if (i) e += ";"; e += evs[i]; }
        if (e.empty()) e = "-";
        bool fin = finished, res = false;
        if (refs() > 0) {
            auto t = aTask();
            fin = t.isFinished();
            if constexpr (!std::is_void_v<T>) res = t.hasResult();
        }
        return e + "|f=" + (fin ? "1" : "0") + " r=" + (res ? "1" : "0") + " refs=" + std::to_string(refs()) + " cl=" + std::to_string(liveClosures);
    }
    ~Env() { tasks.clear(); promises.clear(); for (auto &kv : ctx) delete kv.second; }
};

template<typename T, bool Conv = false> static void runSeq(const char *kind, const std::vector<std::string> &ops) {
    {
        Env<T, Conv> env;
        env.promises.push_back(std::make_unique<QXmppPromise<T>>());
        corr(std::string("reset ") + kind, "ok");
        for (auto &op : ops) { const std::string eff = Env<T, Conv>::effectiveOp(op); corr(eff, env.apply(eff)); }
    }
    if (liveValues != 0 || liveClosures != 0) { oracleFail("C13:leak-after-teardown", "see previous sequence"); liveValues = 0; liveClosures = 0; }
    stat("sequences");
}

static void runAllKinds(const std::vector<std::string> &ops) {
    runSeq<void>("void", ops);
    runSeq<Val>("value", ops);
    runSeq<std::unique_ptr<Val>>("value", ops);
    runSeq<Val, true>("value", ops);
    runSeq<std::unique_ptr<Val>, true>("value", ops);
}

static void enumerate(const std::vector<std::string> &alpha, int depth, std::vector<std::string> &cur) {
    if ((int)cur.size() == depth) { runAllKinds(cur); return; }
    for (auto &a : alpha) { cur.push_back(a); enumerate(alpha, depth, cur); cur.pop_back(); }
}

int main(int argc, char **argv) {
    QCoreApplication app(argc, argv);
    Args a = parseArgs(argc, argv);
    std::vector<std::string> small = { "then 1 -", "then 2 t1", "then 0 -", "then 1 t2,d1", "then 2 d2", "then 1 x", "then 2 x,t1", "finish 7",
                                       "destroy 1", "destroy 2", "copy", "drop" };
    // second exhaustive block: conversion side effects inside finish() and takeResult()
    std::vector<std::string> small2 = { "then 1 -", "then 2 t1", "then 1 d2", "finish 7", "finishk 1 7", "finishk 2 7", "take", "destroy 1", "copy", "drop" };
    std::vector<std::string> bodies = { "-", "t1", "t2", "t0", "d1", "d2", "t1,d1", "d1,t1", "t2,t1", "d2,t2,t1", "x", "x,t1", "t1,x", "d1,x" };
    std::vector<std::string> full;
    for (int c = 0; c < 3; c++) for (auto &b : bodies) full.push_back("then " + std::to_string(c) + " " + b);
    for (auto s : { "finish 7", "finish 0", "destroy 1", "destroy 2", "copy", "drop", "finishk 1 7", "finishk 2 0", "take" }) full.push_back(s);
    bool thorough = a.tier == "thorough";
    std::vector<std::string> cur;
    // corpus first: minimized past findings
    runAllKinds({ "finish 7", "then 1 t1" });
    runAllKinds({ "then 1 x", "finish 7" });            // owner deletes itself inside its continuation (use after free before the fix)
    runAllKinds({ "copy", "finish 7", "then 1 x,t1" });
    runAllKinds({ "then 1 -", "destroy 1", "finish 7", "drop" });
    runAllKinds({ "then 1 -", "finishk 1 7", "then 1 -" });        // the conversion inside finish() destroys the context
    runAllKinds({ "finish 7", "take", "then 1 -", "drop" });        // takeResult() then a late then
    runAllKinds({ "then 1 -", "then 2 t2", "finish 3", "then 1 -", "then 1 -" });
    int depth = thorough ? 6 : 4;
    for (int d = 1; d <= depth; d++) enumerate(small, d, cur);
    stat("exhaustive_depth", depth); stat("alphabet", (long long)small.size());
    int depth2 = thorough ? 5 : 4;
    for (int d = 1; d <= depth2; d++) enumerate(small2, d, cur);
    stat("exhaustive_depth_conversion_take", depth2); stat("alphabet_conversion_take", (long long)small2.size());
    Rng rng(a.seed);
    int nrand = thorough ? 40000 : 3000;
    for (int i = 0; i < nrand; i++) {
        int len = 3 + rng.below(thorough ? 24 : 12);
        std::vector<std::string> ops;
        for (int j = 0; j < len; j++) ops.push_back(full[rng.below(full.size())]);
        if (i < 4) { std::string s; for (auto &o : ops) s += o + "; "; sample(s); }
        runAllKinds(ops);
    }
    stat("random_sequences", nrand);
    finish();
    return 0;
}
