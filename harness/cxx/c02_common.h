// Shared machinery of the two C02 runtime-exploration harnesses (parsers.cpp, clientfeed.cpp):
//   * corpus loader (corpus/test_xml.txt, corpus/c02_regress.txt)
//   * an own XML tree (Node) with a namespace-complete renderer, so mutated documents are replayable byte strings
//   * the structural mutation engine (all choices from the seeded vh::Rng)
//   * namespace-resolved canonical tree hashes over QDom (ordered and sorted-children variants) + canary counting
//   * a fork pool: work is cut into batches run in child processes (a crash/sanitizer abort/hang only kills the child; the
//     parent attributes it through a shared-memory status block, reports it, and resumes the batch after the culprit).
#pragma once
#include "common.h"

#include <QByteArray>
#include <QDomDocument>
#include <QDomElement>
#include <QFile>
#include <QString>
#include <QStringList>

#include <algorithm>
#include <cerrno>
#include <csignal>
#include <fcntl.h>
#include <functional>
#include <string>
#include <sys/mman.h>
#include <sys/stat.h>
#include <sys/time.h>
#include <sys/wait.h>
#include <unistd.h>
#include <vector>

namespace c02 {

// ------------------------------------------------------------------------------------------------ text helpers
inline std::string escLine(const QByteArray &b, int maxLen = -1)
{
    std::string o;
    int n = (maxLen >= 0 && b.size() > maxLen) ? maxLen : b.size();
    o.reserve(n + 16);
    for (int i = 0; i < n; i++) {
        char c = b[i];
        if (c == '\\') o += "\\\\";
        else if (c == '\n') o += "\\n";
        else if (c == '\r') o += "\\r";
        else if (c == '\t') o += "\\t";
        else o += c;
    }
    if (n < b.size()) o += "...[" + std::to_string(b.size()) + " bytes]";
    return o;
}
inline QByteArray unescLine(const QByteArray &s)
{
    QByteArray o;
    o.reserve(s.size());
    for (int i = 0; i < s.size(); i++) {
        if (s[i] == '\\' && i + 1 < s.size()) {
            char c = s[++i];
            o += c == 'n' ? '\n' : c == 'r' ? '\r' : c == 't' ? '\t' : c;
        } else o += s[i];
    }
    return o;
}

// ------------------------------------------------------------------------------------------------ corpus
struct Doc { std::string id; QByteArray xml; };

inline std::string verifRoot()
{
    if (const char *e = getenv("VERIF_ROOT")) return e;
    // the framework runs harnesses with cwd=/verif/.build
    char buf[4096];
    std::string exe;
    ssize_t n = readlink("/proc/self/exe", buf, sizeof buf - 1);
    if (n > 0) { buf[n] = 0; exe = buf; }
    auto p = exe.find("/.build/harness/");
    if (p != std::string::npos) return exe.substr(0, p);
    return "/verif";
}

inline std::vector<Doc> loadCorpusFile(const std::string &path)
{
    std::vector<Doc> out;
    QFile f(QString::fromStdString(path));
    if (!f.open(QIODevice::ReadOnly)) return out;
    while (!f.atEnd()) {
        QByteArray line = f.readLine();
        while (line.endsWith('\n') || line.endsWith('\r')) line.chop(1);
        if (line.isEmpty() || line.startsWith('#')) continue;
        int t = line.indexOf('\t');
        if (t <= 0) continue;
        QByteArray rest = line.mid(t + 1);
        int t2 = rest.indexOf('\t');           // optional third column: free comment
        if (t2 >= 0) rest = rest.left(t2);
        out.push_back({ line.left(t).toStdString(), unescLine(rest) });
    }
    return out;
}

// ------------------------------------------------------------------------------------------------ own tree
struct Attr { QString prefix, local, ns, value; };
struct Node {
    bool isText = false;
    QString text;                 // text nodes
    QString prefix, local, ns;    // elements
    std::vector<Attr> attrs;
    std::vector<Node> kids;
    int wrap = 0;                 // render this element nested inside <wrap> extra copies of its own start tag (deep nesting)
    int repeat = 1;               // render this node <repeat> times in a row (very wide parents)
    bool mark = false;            // transient marker used by re-parent
};

static const QString NS_XMLNS = QStringLiteral("http://www.w3.org/2000/xmlns/");
static const QString NS_XML = QStringLiteral("http://www.w3.org/XML/1998/namespace");

inline Node nodeFromDom(const QDomElement &e)
{
    Node n;
    n.prefix = e.prefix(); n.ns = e.namespaceURI();
    n.local = e.localName().isEmpty() ? e.tagName() : e.localName();
    auto am = e.attributes();
    for (int i = 0; i < am.count(); i++) {
        auto a = am.item(i).toAttr();
        if (a.namespaceURI() == NS_XMLNS || a.name() == u"xmlns" || a.name().startsWith(u"xmlns:")) continue;
        Attr at;
        at.prefix = a.prefix(); at.ns = a.namespaceURI();
        at.local = a.localName().isEmpty() ? a.name() : a.localName();
        at.value = a.value();
        n.attrs.push_back(at);
    }
    for (auto c = e.firstChild(); !c.isNull(); c = c.nextSibling()) {
        if (c.isElement()) n.kids.push_back(nodeFromDom(c.toElement()));
        else if (c.isText() || c.isCDATASection()) {
            if (!n.kids.empty() && n.kids.back().isText) n.kids.back().text += c.nodeValue();
            else { Node t; t.isText = true; t.text = c.nodeValue(); n.kids.push_back(t); }
        }
    }
    return n;
}

inline void escTo(QByteArray &out, const QString &s, bool attr)
{
    for (QChar qc : s) {
        ushort c = qc.unicode();
        switch (c) {
        case '<': out += "&lt;"; break;
        case '>': out += "&gt;"; break;
        case '&': out += "&amp;"; break;
        case '"': if (attr) out += "&quot;"; else out += '"'; break;
        case '\n': if (attr) out += "&#10;"; else out += '\n'; break;
        case '\r': out += "&#13;"; break;   // a literal CR would be normalised to LF by any XML parser
        case '\t': if (attr) out += "&#9;"; else out += '\t'; break;
        default:
            if (c < 0x80) out += char(c);
            else out += QString(qc).toUtf8();   // surrogate halves are handled below by the caller passing pairs intact
        }
    }
}
inline void escText(QByteArray &out, const QString &s, bool attr)
{
    // keep surrogate pairs together: split into runs
    bool hasSur = false;
    for (QChar c : s) if (c.isSurrogate()) { hasSur = true; break; }
    if (!hasSur) { escTo(out, s, attr); return; }
    int i = 0;
    while (i < s.size()) {
        if (s[i].isHighSurrogate() && i + 1 < s.size() && s[i + 1].isLowSurrogate()) { out += s.mid(i, 2).toUtf8(); i += 2; }
        else if (s[i].isSurrogate()) { i++; }  // lone surrogate: not XML-legal, drop
        else { escTo(out, s.mid(i, 1), attr); i++; }
    }
}

// Iterative renderer (documents may be 10^4 deep). Default namespace is re-declared whenever it differs from the parent's;
// prefixed names always carry their own declaration.
inline QByteArray render(const Node &root)
{
    QByteArray out;
    struct Fr { const Node *n; size_t kid; int rep; QString parentNs; QByteArray closeTag; };
    std::vector<Fr> st;
    auto openTag = [&](const Node &n, const QString &parentNs, QByteArray &closeTag, bool selfClose) {
        QByteArray q = n.prefix.isEmpty() ? n.local.toUtf8() : (n.prefix + u':' + n.local).toUtf8();
        QByteArray start = "<" + q;
        if (n.prefix.isEmpty()) {
            if (n.ns != parentNs) { start += " xmlns=\""; escText(start, n.ns, true); start += "\""; }
        } else if (n.prefix != u"xml") {
            start += " xmlns:" + n.prefix.toUtf8() + "=\""; escText(start, n.ns, true); start += "\"";
        }
        QStringList declared;
        for (const auto &a : n.attrs) {
            if (!a.prefix.isEmpty() && a.prefix != u"xml" && a.prefix != n.prefix && !declared.contains(a.prefix)) {
                start += " xmlns:" + a.prefix.toUtf8() + "=\""; escText(start, a.ns, true); start += "\"";
                declared << a.prefix;
            }
            start += " " + (a.prefix.isEmpty() ? a.local.toUtf8() : (a.prefix + u':' + a.local).toUtf8()) + "=\"";
            escText(start, a.value, true);
            start += "\"";
        }
        closeTag = "</" + q + ">";
        for (int w = 0; w < n.wrap; w++) {
            // nested copies: inner copies need no xmlns re-declaration for the default namespace
            out += start; out += ">";
            if (w == 0 && n.prefix.isEmpty()) {
                start = "<" + q;
                for (const auto &a : n.attrs) {
                    if (!a.prefix.isEmpty() && a.prefix != u"xml") continue;
                    start += " " + (a.prefix.isEmpty() ? a.local.toUtf8() : (a.prefix + u':' + a.local).toUtf8()) + "=\"";
                    escText(start, a.value, true);
                    start += "\"";
                }
            }
        }
        out += start;
        out += selfClose ? "/>" : ">";
    };
    auto closeWraps = [&](const Node &n, const QByteArray &closeTag) { for (int w = 0; w < n.wrap; w++) out += closeTag; };

    st.push_back({ &root, 0, 0, QString(), QByteArray() });
    bool entering = true;
    while (!st.empty()) {
        Fr &f = st.back();
        const Node &n = *f.n;
        if (n.isText) { for (int r = 0; r < std::max(1, n.repeat); r++) escText(out, n.text, false); st.pop_back(); entering = false; continue; }
        if (entering) {
            if (n.kids.empty()) {
                openTag(n, f.parentNs, f.closeTag, true);
                closeWraps(n, f.closeTag);
                f.rep++;
                if (f.rep < std::max(1, n.repeat)) { entering = true; continue; }
                st.pop_back(); entering = false; continue;
            }
            openTag(n, f.parentNs, f.closeTag, false);
            f.kid = 0;
        }
        if (f.kid < n.kids.size()) {
            const Node *k = &n.kids[f.kid++];
            QString pns = n.prefix.isEmpty() ? n.ns : f.parentNs;
            st.push_back({ k, 0, 0, pns, QByteArray() });
            entering = true;
            continue;
        }
        out += f.closeTag;
        closeWraps(n, f.closeTag);
        f.rep++;
        if (f.rep < std::max(1, n.repeat)) { entering = true; continue; }
        st.pop_back(); entering = false;
    }
    return out;
}

// ------------------------------------------------------------------------------------------------ canonical hashes over QDom
struct H128 {
    uint64_t a = 0x243F6A8885A308D3ull, b = 0x13198A2E03707344ull;
    void mix(uint64_t v)
    {
        a ^= v + 0x9E3779B97F4A7C15ull + (a << 6) + (a >> 2);
        a *= 0xBF58476D1CE4E5B9ull; a ^= a >> 29;
        b = (b ^ v) * 0x100000001B3ull; b ^= b >> 31; b += a;
    }
    void mixStr(const QString &s)
    {
        mix(uint64_t(s.size()) ^ 0xABCDull);
        const ushort *p = s.utf16();
        int n = s.size(), i = 0;
        for (; i + 4 <= n; i += 4) mix(uint64_t(p[i]) | uint64_t(p[i + 1]) << 16 | uint64_t(p[i + 2]) << 32 | uint64_t(p[i + 3]) << 48);
        uint64_t r = 0; int sh = 0;
        for (; i < n; i++, sh += 16) r |= uint64_t(p[i]) << sh;
        mix(r ^ 0x55ull);
    }
    bool operator==(const H128 &o) const { return a == o.a && b == o.b; }
    bool operator!=(const H128 &o) const { return !(*this == o); }
    bool operator<(const H128 &o) const { return a != o.a ? a < o.a : b < o.b; }
};

struct Summary {
    bool wellFormed = false;
    H128 ordered, sorted;     // namespace-resolved tree, children in document order / sorted
    long canaries = 0;        // elements {urn:canary}canary
    long elements = 0;
    long maxDepth = 0;
    // features the library's own output form never has (used to scope the verbatim-container oracle)
    long emptyAttrs = 0;      // attributes with an empty value
    long mixed = 0;           // elements with both non-blank text and element children
    long nsUndeclared = 0;    // elements without namespace inside a parent that has one (xmlns="")
    long prefixed = 0;        // prefixed element or attribute names other than xml:
};

inline Summary summarizeElement(const QDomElement &root)
{
    Summary s;
    s.wellFormed = true;
    struct Fr { QDomElement e; QDomNode next; std::vector<H128> ko, ks; QString pendingText; long depth; bool hasText = false, hasElem = false; };
    std::vector<Fr> st;
    auto push = [&](const QDomElement &e, long depth) {
        Fr f; f.e = e; f.next = e.firstChild(); f.depth = depth;
        st.push_back(std::move(f));
        s.elements++;
        if (depth > s.maxDepth) s.maxDepth = depth;
        QString ln = e.localName().isEmpty() ? e.tagName() : e.localName();
        if (ln == u"canary" && e.namespaceURI() == u"urn:canary") s.canaries++;
        if (!e.prefix().isEmpty()) s.prefixed++;
        if (e.namespaceURI().isEmpty() && e.parentNode().isElement() && !e.parentNode().namespaceURI().isEmpty()) s.nsUndeclared++;
    };
    auto flushText = [](Fr &f) {
        if (f.pendingText.isEmpty()) return;
        if (!f.pendingText.trimmed().isEmpty()) f.hasText = true;
        H128 h; h.mix(0x7e47ull); h.mixStr(f.pendingText);
        f.ko.push_back(h); f.ks.push_back(h);
        f.pendingText.clear();
    };
    push(root, 1);
    H128 resO, resS;
    while (!st.empty()) {
        Fr &f = st.back();
        if (!f.next.isNull()) {
            QDomNode c = f.next;
            f.next = c.nextSibling();
            if (c.isElement()) { flushText(f); f.hasElem = true; long d = f.depth + 1; push(c.toElement(), d); }
            else if (c.isText() || c.isCDATASection()) f.pendingText += c.nodeValue();
            continue;
        }
        flushText(f);
        if (f.hasText && f.hasElem) s.mixed++;
        // close element
        const QDomElement &e = f.e;
        H128 head; head.mix(0xE1ull);
        head.mixStr(e.localName().isEmpty() ? e.tagName() : e.localName());
        head.mixStr(e.namespaceURI());
        std::vector<H128> ah;
        auto am = e.attributes();
        for (int i = 0; i < am.count(); i++) {
            auto a = am.item(i).toAttr();
            if (a.namespaceURI() == NS_XMLNS || a.name() == u"xmlns" || a.name().startsWith(u"xmlns:")) continue;
            if (a.value().isEmpty()) s.emptyAttrs++;
            if (!a.prefix().isEmpty() && a.prefix() != u"xml") s.prefixed++;
            H128 h; h.mix(0xA7ull);
            h.mixStr(a.localName().isEmpty() ? a.name() : a.localName());
            h.mixStr(a.namespaceURI());
            h.mixStr(a.value());
            ah.push_back(h);
        }
        std::sort(ah.begin(), ah.end());
        for (auto &h : ah) { head.mix(h.a); head.mix(h.b); }
        H128 ho = head, hs = head;
        for (auto &k : f.ko) { ho.mix(k.a); ho.mix(k.b); }
        std::sort(f.ks.begin(), f.ks.end());
        for (auto &k : f.ks) { hs.mix(k.a); hs.mix(k.b); }
        ho.mix(f.ko.size()); hs.mix(f.ks.size());
        st.pop_back();
        if (st.empty()) { resO = ho; resS = hs; }
        else { st.back().ko.push_back(ho); st.back().ks.push_back(hs); }
    }
    s.ordered = resO; s.sorted = resS;
    return s;
}

// QDomDocument's destructor is recursive; for very deep trees unlink bottom-up first so the harness itself does not overflow.
inline void safeClear(QDomDocument &doc, long depthHint)
{
    if (depthHint < 2000) { doc = QDomDocument(); return; }
    QDomNode n = doc.documentElement();
    while (!n.isNull()) {               // descend to the deepest first-child chain and remove leaves upwards
        QDomNode c = n.firstChild();
        if (!c.isNull()) { n = c; continue; }
        QDomNode p = n.parentNode();
        if (p.isNull()) break;
        p.removeChild(n);
        n = p;
        if (n.isDocument()) break;
    }
    doc = QDomDocument();
}

// Parses one serialized element. Most toXml() of stanzas and of sub-elements do not declare a namespace of their own because in
// the library's real output they are always embedded in a parent (the stream: jabber:client and xmlns:stream declared;
// <authenticate xmlns='urn:xmpp:sasl:2'> for <user-agent/>, ...). When the output's root ends up without a namespace, the output
// is therefore parsed as the child of a context element that declares the stream prefix and, when ctxNs is not empty, carries
// ctxNs (the namespace the input element had) as default namespace. *rootOut receives the element.
inline Summary summarizeXml(const QByteArray &xml, const QString &ctxNs, QDomDocument *keep = nullptr, QDomElement *rootOut = nullptr)
{
    QDomDocument doc;
    Summary s;
    if (!doc.setContent(xml, true) || doc.documentElement().isNull()) return s;
    QDomElement root = doc.documentElement();
    if (root.namespaceURI().isEmpty()) {
        // (Qt 5.15's QDom accepts an unbound prefix such as <stream:features> and leaves it without a namespace.)
        QByteArray wrapped = "<verif-ctx xmlns:stream=\"http://etherx.jabber.org/streams\"";
        if (!ctxNs.isEmpty() && ctxNs != u"http://etherx.jabber.org/streams") { wrapped += " xmlns=\""; escText(wrapped, ctxNs, true); wrapped += "\""; }
        wrapped += ">" + xml + "</verif-ctx>";
        QDomDocument doc2;
        if (doc2.setContent(wrapped, true) && !doc2.documentElement().firstChildElement().isNull()) {
            safeClear(doc, 0);
            doc = doc2;
            root = doc.documentElement().firstChildElement();
        }
    }
    s = summarizeElement(root);
    if (rootOut) *rootOut = root;
    if (keep) *keep = doc;
    else safeClear(doc, s.maxDepth);
    return s;
}

// ------------------------------------------------------------------------------------------------ mutation engine
enum MutKind {
    M_DEL_CHILD, M_DUP_CHILD, M_REORDER, M_RENS, M_REPARENT, M_GRAFT, M_TRANSPLANT,
    M_ATTR_MISSING, M_ATTR_EMPTY, M_ATTR_LONG, M_ATTR_NEG, M_ATTR_NONNUM, M_ATTR_HUGE, M_ATTR_ENUM, M_ATTR_ADD, M_ATTR_CANARY, M_ATTR_META,
    M_TEXT_META, M_TEXT_CANARY, M_TEXT_EMPTY, M_TEXT_ADD, M_TEXT_LONG, M_TEXT_NUM,
    M_ELEM_RENAME, M_DEEP, M_WIDE, M_RETYPE_ROOT, M_COMBO,
    M_KINDS
};
inline const char *mutName(int k)
{
    static const char *n[] = { "del-child", "dup-child", "reorder", "re-namespace", "re-parent", "graft", "transplant",
                               "attr-missing", "attr-empty", "attr-long", "attr-negative", "attr-nonnumeric", "attr-huge", "attr-unknown-enum", "attr-add", "attr-canary", "attr-meta",
                               "text-meta", "text-canary", "text-empty", "text-add", "text-long", "text-number",
                               "elem-rename", "deep-nest", "wide", "retype-root", "combo" };
    return k >= 0 && k < M_KINDS ? n[k] : "?";
}

static const char *CANARY_TEXTS[] = {
    "</x><canary xmlns='urn:canary'/><x>",
    "<canary xmlns='urn:canary'/>",
    "\"><canary xmlns='urn:canary'/><x a=\"",
    "'/><canary xmlns='urn:canary'/><x a='",
    "]]><canary xmlns='urn:canary'/><![CDATA[",
    "&lt;canary xmlns='urn:canary'/&gt;",
    "--><canary xmlns='urn:canary'/><!--",
};
static const char *META_TEXTS[] = {
    "<>&\"'", "&amp;", "&#60;", "&lt;&gt;", "]]>", "<![CDATA[x]]>", "<!-- c -->", "<?pi x?>", "a\r\nb\tc", " \t\n ", "  lead and trail  ",
    "\xF0\x9F\x98\x80", "\xC3\xA9\xE2\x82\xAC", "\xE2\x80\xA8\xC2\x85", "%1 %2 %n %s", "\\", "/", "@", "a@b/c", "@/", "xmpp:a@b?message;body=x", "://", "\xEF\xBF\xBD",
};
static const char *NEG_TEXTS[] = { "-1", "-0", "-2147483648", "-2147483649", "-9223372036854775809", "- 1", "-1.5" };
static const char *NONNUM_TEXTS[] = { "abc", "12abc", " 12", "12 ", "1e9", "0x10", "NaN", "inf", "+5", "1,5", "1.5", "\xD9\xA1\xD9\xA2", "true1", "0.0.0", "" };
static const char *HUGE_TEXTS[] = { "127", "128", "255", "256", "32767", "32768", "65535", "65536", "2147483647", "2147483648", "4294967295", "4294967296",
                                    "9223372036854775807", "9223372036854775808", "18446744073709551615", "18446744073709551616",
                                    "99999999999999999999999999999999999999", "1e308", "1e309", "000000000000000000000000000000000001" };
static const char *ENUM_TEXTS[] = { "verif-unknown-enum", "GET", "Result", "none ", "both,to", "\xC3\xBCnknown", "0", "chat\n" };
static const char *ADD_ATTRS[][2] = { { "type", "verif-unknown-enum" }, { "id", "" }, { "xml:lang", "x-verif" }, { "from", "@" }, { "to", "a@b/c/d" }, { "jid", "/" },
                                      { "node", "<>" }, { "var", "FORM_TYPE" }, { "stamp", "9999-99-99T99:99:99Z" }, { "h", "-1" }, { "code", "99999999999" }, { "xmlns:q", "urn:q" } };

struct PathTo { std::vector<int> idx; };

inline Node *resolve(Node &root, const std::vector<int> &p)
{
    Node *n = &root;
    for (int i : p) { if (i < 0 || size_t(i) >= n->kids.size()) return nullptr; n = &n->kids[i]; }
    return n;
}
inline void collectElems(Node &n, std::vector<int> &cur, std::vector<std::vector<int>> &out, int limit = 4000)
{
    if (int(out.size()) >= limit) return;
    out.push_back(cur);
    for (size_t i = 0; i < n.kids.size(); i++) {
        if (n.kids[i].isText) continue;
        cur.push_back(int(i));
        collectElems(n.kids[i], cur, out, limit);
        cur.pop_back();
    }
}
inline std::string pathStr(const std::vector<int> &p)
{
    std::string s = "/";
    for (size_t i = 0; i < p.size(); i++) { if (i) s += "/"; s += std::to_string(p[i]); }
    return s;
}
template<size_t N> inline const char *pick(vh::Rng &r, const char *(&arr)[N]) { return arr[r.below(uint32_t(N))]; }

struct MutCtx {
    vh::Rng &rng;
    const std::vector<Node> *others;   // parsed corpus (for graft/transplant)
    int deepDepth;                     // nesting depth for M_DEEP
    int wideCount;                     // children for M_WIDE
    int longLen;                       // characters for *-long
};

// Applies one mutation of the given kind in place. Returns a description, or "" when the kind is not applicable to this tree.
inline std::string mutate(Node &root, int kind, MutCtx &c)
{
    vh::Rng &r = c.rng;
    std::vector<std::vector<int>> elems; std::vector<int> cur;
    collectElems(root, cur, elems);
    auto pickElem = [&](auto pred) -> std::vector<int> * {
        std::vector<std::vector<int> *> ok;
        for (auto &p : elems) { Node *n = resolve(root, p); if (n && pred(*n, p)) ok.push_back(&p); }
        if (ok.empty()) return nullptr;
        return ok[r.below(uint32_t(ok.size()))];
    };
    auto hasElemKid = [](const Node &n) { for (auto &k : n.kids) if (!k.isText) return true; return false; };
    auto elemKidIdx = [&](const Node &n) { std::vector<int> v; for (size_t i = 0; i < n.kids.size(); i++) if (!n.kids[i].isText) v.push_back(int(i)); return v[r.below(uint32_t(v.size()))]; };
    auto hasAttr = [](const Node &n, const std::vector<int> &) { return !n.attrs.empty(); };
    auto hasText = [](const Node &n, const std::vector<int> &) { for (auto &k : n.kids) if (k.isText) return true; return false; };
    auto setAttr = [&](const char *what, const QString &val) -> std::string {
        auto *p = pickElem(hasAttr); if (!p) return "";
        Node *n = resolve(root, *p);
        Attr &a = n->attrs[r.below(uint32_t(n->attrs.size()))];
        a.value = val;
        return std::string(what) + "@" + pathStr(*p) + ":@" + a.local.toStdString() + (val.size() <= 48 ? "=" + escLine(val.toUtf8()) : "=[" + std::to_string(val.size()) + " chars]");
    };
    auto setText = [&](const char *what, const QString &val, bool allowAdd) -> std::string {
        auto *p = pickElem(hasText);
        if (!p) {
            if (!allowAdd) return "";
            p = pickElem([](const Node &, const std::vector<int> &) { return true; });
            Node *n = resolve(root, *p);
            Node t; t.isText = true; t.text = val; n->kids.push_back(t);
            return std::string(what) + "+@" + pathStr(*p);
        }
        Node *n = resolve(root, *p);
        for (auto &k : n->kids) if (k.isText) { k.text = val; break; }
        return std::string(what) + "@" + pathStr(*p) + (val.size() <= 48 ? "=" + escLine(val.toUtf8()) : "=[" + std::to_string(val.size()) + " chars]");
    };

    switch (kind) {
    case M_DEL_CHILD: {
        auto *p = pickElem([&](const Node &n, const std::vector<int> &) { return hasElemKid(n); }); if (!p) return "";
        Node *n = resolve(root, *p); int i = elemKidIdx(*n);
        std::string d = "del-child@" + pathStr(*p) + "#" + std::to_string(i) + "<" + n->kids[i].local.toStdString() + ">";
        n->kids.erase(n->kids.begin() + i);
        return d;
    }
    case M_DUP_CHILD: {
        auto *p = pickElem([&](const Node &n, const std::vector<int> &) { return hasElemKid(n); }); if (!p) return "";
        Node *n = resolve(root, *p); int i = elemKidIdx(*n);
        Node copy = n->kids[i];
        int times = 1 + int(r.below(3));
        std::string d = "dup-child@" + pathStr(*p) + "#" + std::to_string(i) + "x" + std::to_string(times);
        for (int t = 0; t < times; t++) n->kids.insert(n->kids.begin() + (r.coin() ? i : int(n->kids.size())), copy);
        return d;
    }
    case M_REORDER: {
        auto *p = pickElem([&](const Node &n, const std::vector<int> &) { return n.kids.size() >= 2; }); if (!p) return "";
        Node *n = resolve(root, *p);
        if (r.coin()) std::reverse(n->kids.begin(), n->kids.end());
        else for (size_t i = n->kids.size() - 1; i > 0; i--) std::swap(n->kids[i], n->kids[r.below(uint32_t(i + 1))]);
        return "reorder@" + pathStr(*p);
    }
    case M_RENS: {
        auto *p = pickElem([](const Node &, const std::vector<int> &) { return true; });
        Node *n = resolve(root, *p);
        QString target;
        switch (r.below(5)) {
        case 0: target = QStringLiteral("urn:verif:other"); break;
        case 1: target = QString(); break;
        case 2: target = QStringLiteral("jabber:client"); break;
        case 3: target = root.ns; break;
        default: { auto &q = elems[r.below(uint32_t(elems.size()))]; target = resolve(root, q)->ns; }
        }
        bool subtree = r.coin();
        QString old = n->ns;
        std::function<void(Node &)> rec = [&](Node &x) { if (x.isText) return; if (x.ns == old && x.prefix.isEmpty()) { x.ns = target; } if (subtree) for (auto &k : x.kids) rec(k); };
        if (!n->prefix.isEmpty()) { n->prefix.clear(); }
        rec(*n); n->ns = target;
        return "re-namespace@" + pathStr(*p) + (subtree ? ":subtree->" : ":self->") + target.toStdString();
    }
    case M_REPARENT: {
        if (elems.size() < 3) return "";
        auto *p = pickElem([](const Node &, const std::vector<int> &q) { return !q.empty(); }); if (!p) return "";
        std::vector<int> src = *p;
        Node moved = *resolve(root, src);
        // destination: any element that is not inside src
        std::vector<std::vector<int> *> dst;
        for (auto &q : elems) {
            bool inside = q.size() >= src.size() && std::equal(src.begin(), src.end(), q.begin());
            if (!inside) dst.push_back(&q);
        }
        if (dst.empty()) return "";
        std::vector<int> d = *dst[r.below(uint32_t(dst.size()))];
        bool keepOriginal = r.below(3) == 0;
        if (!keepOriginal) resolve(root, src)->mark = true;
        Node *dn = resolve(root, d);
        dn->kids.insert(dn->kids.begin() + r.below(uint32_t(dn->kids.size() + 1)), moved);
        if (!keepOriginal) {
            std::function<bool(Node &)> drop = [&](Node &x) {
                for (size_t i = 0; i < x.kids.size(); i++) {
                    if (x.kids[i].mark) { x.kids.erase(x.kids.begin() + i); return true; }
                    if (!x.kids[i].isText && drop(x.kids[i])) return true;
                }
                return false;
            };
            drop(root);
        }
        return "re-parent@" + pathStr(src) + "->" + pathStr(d) + (keepOriginal ? ":copy" : ":move");
    }
    case M_GRAFT: {
        if (!c.others || c.others->empty()) return "";
        const Node &o = (*c.others)[r.below(uint32_t(c.others->size()))];
        if (o.local.isEmpty()) return "";   // placeholder of a verbatim regress document
        // take the other document's root or one of its element children
        const Node *g = &o;
        std::vector<const Node *> ek; for (auto &k : o.kids) if (!k.isText) ek.push_back(&k);
        if (!ek.empty() && r.below(3) != 0) g = ek[r.below(uint32_t(ek.size()))];
        auto *p = pickElem([](const Node &, const std::vector<int> &) { return true; });
        Node *n = resolve(root, *p);
        n->kids.insert(n->kids.begin() + r.below(uint32_t(n->kids.size() + 1)), *g);
        return "graft@" + pathStr(*p) + "<-{" + g->ns.toStdString() + "}" + g->local.toStdString();
    }
    case M_TRANSPLANT: {
        if (!c.others || c.others->empty()) return "";
        const Node &o = (*c.others)[r.below(uint32_t(c.others->size()))];
        if (o.local.isEmpty()) return "";
        const Node *g = &o;
        std::vector<const Node *> ek; for (auto &k : o.kids) if (!k.isText) ek.push_back(&k);
        if (!ek.empty() && r.coin()) g = ek[r.below(uint32_t(ek.size()))];
        auto *p = pickElem([](const Node &, const std::vector<int> &) { return true; });
        Node *n = resolve(root, *p);
        n->kids = g->kids;
        if (r.coin()) n->attrs = g->attrs;
        return "transplant@" + pathStr(*p) + "<-kids-of{" + g->ns.toStdString() + "}" + g->local.toStdString();
    }
    case M_ATTR_MISSING: {
        auto *p = pickElem(hasAttr); if (!p) return "";
        Node *n = resolve(root, *p);
        if (r.below(4) == 0) { std::string d = "attr-missing@" + pathStr(*p) + ":all"; n->attrs.clear(); return d; }
        int i = int(r.below(uint32_t(n->attrs.size())));
        std::string d = "attr-missing@" + pathStr(*p) + ":@" + n->attrs[i].local.toStdString();
        n->attrs.erase(n->attrs.begin() + i);
        return d;
    }
    case M_ATTR_EMPTY: return setAttr("attr-empty", QString());
    case M_ATTR_LONG: return setAttr("attr-long", QString(c.longLen, QChar(u'A')));
    case M_ATTR_NEG: return setAttr("attr-negative", QString::fromUtf8(pick(r, NEG_TEXTS)));
    case M_ATTR_NONNUM: return setAttr("attr-nonnumeric", QString::fromUtf8(pick(r, NONNUM_TEXTS)));
    case M_ATTR_HUGE: return setAttr("attr-huge", QString::fromUtf8(pick(r, HUGE_TEXTS)));
    case M_ATTR_ENUM: return setAttr("attr-unknown-enum", QString::fromUtf8(pick(r, ENUM_TEXTS)));
    case M_ATTR_CANARY: return setAttr("attr-canary", QString::fromUtf8(pick(r, CANARY_TEXTS)));
    case M_ATTR_META: return setAttr("attr-meta", QString::fromUtf8(pick(r, META_TEXTS)));
    case M_ATTR_ADD: {
        auto *p = pickElem([](const Node &, const std::vector<int> &) { return true; });
        Node *n = resolve(root, *p);
        auto &kv = ADD_ATTRS[r.below(uint32_t(sizeof ADD_ATTRS / sizeof ADD_ATTRS[0]))];
        QString name = QString::fromUtf8(kv[0]);
        for (auto &a : n->attrs) if ((a.prefix.isEmpty() ? a.local : a.prefix + u':' + a.local) == name) return "";
        Attr a;
        if (name.contains(u':')) {
            a.prefix = name.section(u':', 0, 0); a.local = name.section(u':', 1);
            if (a.prefix == u"xmlns") return "";   // declarations are the renderer's business
            a.ns = a.prefix == u"xml" ? NS_XML : QStringLiteral("urn:verif:attr");
        } else a.local = name;
        a.value = QString::fromUtf8(kv[1]);
        n->attrs.push_back(a);
        return "attr-add@" + pathStr(*p) + ":@" + kv[0];
    }
    case M_TEXT_META: return setText("text-meta", QString::fromUtf8(pick(r, META_TEXTS)), true);
    case M_TEXT_CANARY: return setText("text-canary", QString::fromUtf8(pick(r, CANARY_TEXTS)), true);
    case M_TEXT_EMPTY: {
        auto *p = pickElem(hasText); if (!p) return "";
        Node *n = resolve(root, *p);
        n->kids.erase(std::remove_if(n->kids.begin(), n->kids.end(), [](const Node &k) { return k.isText; }), n->kids.end());
        return "text-empty@" + pathStr(*p);
    }
    case M_TEXT_ADD: {
        auto *p = pickElem([&](const Node &n, const std::vector<int> &) { return hasElemKid(n); }); if (!p) return "";
        Node *n = resolve(root, *p);
        Node t; t.isText = true; t.text = QStringLiteral("verif mixed content");
        n->kids.insert(n->kids.begin() + r.below(uint32_t(n->kids.size() + 1)), t);
        return "text-add@" + pathStr(*p);
    }
    case M_TEXT_LONG: return setText("text-long", QString(c.longLen, QChar(u'B')), true);
    case M_TEXT_NUM: {
        const char *v = r.below(3) == 0 ? pick(r, NEG_TEXTS) : r.coin() ? pick(r, NONNUM_TEXTS) : pick(r, HUGE_TEXTS);
        return setText("text-number", QString::fromUtf8(v), false);
    }
    case M_ELEM_RENAME: {
        auto *p = pickElem([](const Node &, const std::vector<int> &) { return true; });
        Node *n = resolve(root, *p);
        QString nn;
        if (r.coin()) { auto &q = elems[r.below(uint32_t(elems.size()))]; nn = resolve(root, q)->local; }
        else { static const char *names[] = { "x", "query", "item", "error", "message", "iq", "presence", "verif-unknown" }; nn = QString::fromUtf8(pick(r, names)); }
        if (nn == n->local) nn = QStringLiteral("verif-renamed");
        std::string d = "elem-rename@" + pathStr(*p) + ":" + n->local.toStdString() + "->" + nn.toStdString();
        n->local = nn;
        return d;
    }
    case M_DEEP: {
        auto *p = pickElem([](const Node &, const std::vector<int> &) { return true; });
        Node *n = resolve(root, *p);
        n->wrap = c.deepDepth;
        return "deep-nest@" + pathStr(*p) + "<" + n->local.toStdString() + ">x" + std::to_string(c.deepDepth);
    }
    case M_WIDE: {
        auto *p = pickElem([](const Node &, const std::vector<int> &q) { return !q.empty(); }); if (!p) return "";
        Node *n = resolve(root, *p);
        n->repeat = c.wideCount;
        return "wide@" + pathStr(*p) + "<" + n->local.toStdString() + ">x" + std::to_string(c.wideCount);
    }
    case M_RETYPE_ROOT: {
        static const char *tags[] = { "message", "presence", "iq", "iq", "iq" };
        static const char *types[] = { "get", "set", "result", "error", "chat", "groupchat", "headline", "normal", "unavailable", "subscribe", "probe", "" };
        Node nr;
        nr.local = QString::fromUtf8(pick(r, tags)); nr.ns = QStringLiteral("jabber:client");
        const char *ty = pick(r, types);
        if (*ty) nr.attrs.push_back({ QString(), QStringLiteral("type"), QString(), QString::fromUtf8(ty) });
        nr.attrs.push_back({ QString(), QStringLiteral("id"), QString(), QStringLiteral("v1") });
        nr.attrs.push_back({ QString(), QStringLiteral("from"), QString(), QStringLiteral("juliet@capulet.example/balcony") });
        bool isStanza = root.ns == u"jabber:client" && (root.local == u"iq" || root.local == u"message" || root.local == u"presence");
        if (isStanza && r.coin()) { nr.kids = root.kids; }   // same payload under another stanza kind
        else nr.kids.push_back(root);                         // whole document as payload
        std::string d = "retype-root:" + nr.local.toStdString() + "/" + ty;
        root = nr;
        return d;
    }
    case M_COMBO: {
        int n = 2 + int(r.below(3));
        std::string d = "combo[";
        for (int i = 0; i < n; i++) {
            int k;
            do k = int(r.below(M_KINDS)); while (k == M_COMBO || k == M_DEEP || k == M_WIDE || k == M_ATTR_LONG || k == M_TEXT_LONG);
            std::string s = mutate(root, k, c);
            if (!s.empty()) { if (d.size() > 6) d += ";"; d += s; }
        }
        return d.size() > 6 ? d + "]" : "";
    }
    }
    return "";
}

// ------------------------------------------------------------------------------------------------ systematic single-point sweep
// Every single-point edit of a document, enumerated deterministically (no RNG): delete / duplicate each non-root element, remove /
// empty each attribute, remove each text, move each element out of its namespace.
enum SweepType { SW_DEL_ELEM, SW_DUP_ELEM, SW_ATTR_REMOVE, SW_ATTR_EMPTY, SW_TEXT_REMOVE, SW_NS_NONE, SW_NS_OTHER, SW_TYPES };
struct SweepOp { int type; std::vector<int> path; int idx; };
inline const char *sweepName(int t)
{
    static const char *n[] = { "sweep:del-element", "sweep:dup-element", "sweep:attr-remove", "sweep:attr-empty", "sweep:text-remove", "sweep:ns-none", "sweep:ns-other" };
    return t >= 0 && t < SW_TYPES ? n[t] : "?";
}
inline std::vector<SweepOp> enumerateSweep(Node &root)
{
    std::vector<SweepOp> ops;
    std::vector<std::vector<int>> elems; std::vector<int> cur;
    collectElems(root, cur, elems);
    for (auto &p : elems) {
        Node *n = resolve(root, p);
        if (!p.empty()) { ops.push_back({ SW_DEL_ELEM, p, 0 }); ops.push_back({ SW_DUP_ELEM, p, 0 }); ops.push_back({ SW_NS_NONE, p, 0 }); ops.push_back({ SW_NS_OTHER, p, 0 }); }
        for (size_t a = 0; a < n->attrs.size(); a++) { ops.push_back({ SW_ATTR_REMOVE, p, int(a) }); ops.push_back({ SW_ATTR_EMPTY, p, int(a) }); }
        for (size_t k = 0; k < n->kids.size(); k++) if (n->kids[k].isText) ops.push_back({ SW_TEXT_REMOVE, p, int(k) });
    }
    return ops;
}
inline std::string applySweep(Node &root, const SweepOp &op)
{
    Node *n = resolve(root, op.path);
    if (!n) return "";
    std::string d = std::string(sweepName(op.type)) + "@" + pathStr(op.path);
    switch (op.type) {
    case SW_DEL_ELEM: case SW_DUP_ELEM: {
        std::vector<int> pp(op.path.begin(), op.path.end() - 1);
        Node *par = resolve(root, pp);
        int i = op.path.back();
        d += "<" + par->kids[i].local.toStdString() + ">";
        if (op.type == SW_DEL_ELEM) par->kids.erase(par->kids.begin() + i);
        else { Node c = par->kids[i]; par->kids.insert(par->kids.begin() + i, c); }
        return d;
    }
    case SW_ATTR_REMOVE: d += ":@" + n->attrs[op.idx].local.toStdString(); n->attrs.erase(n->attrs.begin() + op.idx); return d;
    case SW_ATTR_EMPTY: d += ":@" + n->attrs[op.idx].local.toStdString(); if (n->attrs[op.idx].value.isEmpty()) return ""; n->attrs[op.idx].value.clear(); return d;
    case SW_TEXT_REMOVE: n->kids.erase(n->kids.begin() + op.idx); return d;
    case SW_NS_NONE: if (n->ns.isEmpty()) return ""; n->ns.clear(); n->prefix.clear(); return d;
    case SW_NS_OTHER: n->ns = QStringLiteral("urn:verif:other"); n->prefix.clear(); return d;
    }
    return "";
}

// ------------------------------------------------------------------------------------------------ repeated complex children
// Catalogue: for every element name occurring anywhere in the corpus, its richest distinct instances (most descendants first). It
// is the per-kind stock of realistic children (Jingle contents with description/payload-type/transport/candidate, pubsub items, data
// form fields with options, MIX/MAM/stanza-id elements, ...) from which documents with TWO OR THREE RICH SIBLINGS of one child kind
// are generated: every (parent element, child kind) of every document gets its children of that kind replaced by 2 and by 3
// catalogue instances, each with its own sub-children, re-namespaced into the namespace the replaced children had.
inline long countElems(const Node &n) { if (n.isText) return 0; long c = 1; for (auto &k : n.kids) c += countElems(k); return c; }
struct Catalogue {
    std::map<QString, std::vector<const Node *>> byName;
    void build(const std::vector<Node> &nodes, size_t perName = 5)
    {
        std::map<QString, std::vector<std::pair<long, const Node *>>> all;
        for (auto &n : nodes) if (!n.local.isEmpty()) { long c = countElems(n); if (c >= 2) all[n.local].push_back({ c, &n }); }
        for (auto &kv : all) {
            std::stable_sort(kv.second.begin(), kv.second.end(), [](auto &a, auto &b) { return a.first > b.first; });
            auto &out = byName[kv.first];
            long last = -1;
            for (auto &e : kv.second) { if (e.first == last) continue; last = e.first; out.push_back(e.second); if (out.size() >= perName) break; }
        }
    }
};
struct RichOp { std::vector<int> parent; QString child; int count; };
inline std::vector<RichOp> enumerateRich(Node &root, const Catalogue &cat)
{
    std::vector<RichOp> ops;
    std::vector<std::vector<int>> elems; std::vector<int> cur;
    collectElems(root, cur, elems);
    for (auto &p : elems) {
        Node *n = resolve(root, p);
        QStringList seen;
        for (auto &k : n->kids) {
            if (k.isText || seen.contains(k.local)) continue;
            seen << k.local;
            auto it = cat.byName.find(k.local);
            if (it == cat.byName.end() || it->second.empty()) continue;
            ops.push_back({ p, k.local, 2 });
            ops.push_back({ p, k.local, 3 });
        }
    }
    return ops;
}
inline void renamespace(Node &x, const QString &from, const QString &to)
{
    if (x.isText) return;
    if (x.ns == from && x.prefix.isEmpty()) x.ns = to;
    for (auto &k : x.kids) renamespace(k, from, to);
}
inline std::string applyRich(Node &root, const RichOp &op, const Catalogue &cat, unsigned rot = 0)
{
    Node *n = resolve(root, op.parent);
    auto it = cat.byName.find(op.child);
    if (!n || it == cat.byName.end() || it->second.empty()) return "";
    QString targetNs; int first = -1;
    for (size_t i = 0; i < n->kids.size(); i++) if (!n->kids[i].isText && n->kids[i].local == op.child) { if (first < 0) { first = int(i); targetNs = n->kids[i].ns; } }
    if (first < 0) return "";
    std::vector<Node> repl;
    for (int c = 0; c < op.count; c++) {
        Node g = *it->second[(rot + unsigned(c)) % it->second.size()];
        QString from = g.ns;
        renamespace(g, from, targetNs);
        g.ns = targetNs; g.prefix.clear();
        repl.push_back(g);
    }
    std::vector<Node> kids;
    for (size_t i = 0; i < n->kids.size(); i++) {
        if (int(i) == first) for (auto &g : repl) kids.push_back(g);
        if (!n->kids[i].isText && n->kids[i].local == op.child) continue;
        kids.push_back(n->kids[i]);
    }
    n->kids = kids;
    return "rich-siblings@" + pathStr(op.parent) + "<" + op.child.toStdString() + ">x" + std::to_string(op.count);
}

// ------------------------------------------------------------------------------------------------ fork pool
struct Status {               // one per worker slot, lives in MAP_SHARED memory: survives the death of the child
    volatile int item;        // index of the work item inside the batch
    volatile int parser;      // index of the parser / sub-step (-1 = none)
    volatile int phase;       // harness-defined phase code
    volatile int done;        // child finished the batch normally
    volatile long long counters[512];
};
enum { PH_NONE = 0, PH_PREP = 1, PH_ADMIT = 2, PH_RUN1 = 3, PH_RUN2 = 4, PH_RUN3 = 5, PH_ORACLE = 6, PH_FEED = 7, PH_EVENTS = 8 };
inline const char *phaseName(int p)
{
    static const char *n[] = { "none", "prepare", "admits", "parse+serialize(input)", "parse+serialize(own output 1)", "parse+serialize(own output 2)", "oracle(harness code)", "inject", "event-loop" };
    return p >= 0 && p <= 8 ? n[p] : "?";
}

struct ChildResult {
    int batch = 0;
    bool crashed = false;      // abnormal end
    bool timeout = false;
    int exitCode = 0, signal = 0;
    int item = -1, parser = -1, phase = 0;
    std::string errText;       // stderr of the child (tail)
    std::string outPath;
};

inline std::string classifyCrash(const ChildResult &r)
{
    if (r.timeout) return "timeout";
    const std::string &e = r.errText;
    auto p = e.find("ERROR: AddressSanitizer: ");
    if (p != std::string::npos) {
        size_t q = p + 25, z = q;
        while (z < e.size() && !isspace((unsigned char)e[z]) && e[z] != ':') z++;
        return "asan:" + e.substr(q, z - q);
    }
    p = e.find("runtime error: ");
    if (p != std::string::npos) {
        // "<file>:<line>:<col>: runtime error: <msg>"
        size_t ls = e.rfind('\n', p); ls = ls == std::string::npos ? 0 : ls + 1;
        std::string loc = e.substr(ls, p - ls);
        auto sl = loc.rfind('/'); if (sl != std::string::npos) loc = loc.substr(sl + 1);
        auto c1 = loc.find(':'); auto c2 = c1 == std::string::npos ? c1 : loc.find(':', c1 + 1);
        if (c2 != std::string::npos) loc = loc.substr(0, c2);
        return "ubsan:" + loc;
    }
    if (r.signal) return "signal-" + std::to_string(r.signal);
    return "exit-" + std::to_string(r.exitCode);
}

struct Pool {
    int workers = 8;
    std::string workDir;
    std::string tag;
    int budgetSec = 20;            // per risky call, enforced with alarm() in the child (SIGALRM kills it)

    std::vector<Status *> slotv;
    void init()
    {
        ::mkdir(workDir.c_str(), 0755);
        slotv.resize(workers);
        for (auto &s : slotv) {
            s = static_cast<Status *>(mmap(nullptr, sizeof(Status), PROT_READ | PROT_WRITE, MAP_SHARED | MAP_ANONYMOUS, -1, 0));
            memset((void *)s, 0, sizeof(Status));
        }
    }

    // childFn(batch, resumeItem, resumeParser, status): runs in the child with stdout redirected to the batch file.
    // onResult(result, outputText) is called in the parent in batch order; for a crashed child it is called with crashed=true and
    // the child is then re-forked to continue after (item, parser).
    using ChildFn = std::function<void(int, int, int, Status *)>;
    using ResultFn = std::function<void(const ChildResult &, const QByteArray &)>;

    void run(int nBatches, ChildFn childFn, ResultFn onResult, int maxResumes = 40)
    {
        struct Job { int batch; int resumeItem; int resumeParser; int resumes; pid_t pid; int slot; };
        std::vector<Job> running;
        std::map<int, std::vector<std::pair<ChildResult, QByteArray>>> finished;   // batch -> segments (in order)
        std::map<int, bool> complete;
        int nextBatch = 0, nextEmit = 0;
        std::vector<bool> slotBusy(workers, false);
        fflush(stdout);

        auto spawn = [&](Job j) {
            int slot = -1;
            for (int i = 0; i < workers; i++) if (!slotBusy[i]) { slot = i; break; }
            slotBusy[slot] = true; j.slot = slot;
            Status *st = slotv[slot];
            st->item = j.resumeItem; st->parser = j.resumeParser; st->phase = PH_NONE; st->done = 0;
            std::string base = workDir + "/" + tag + "_b" + std::to_string(j.batch) + "_r" + std::to_string(j.resumes);
            pid_t pid = fork();
            if (pid == 0) {
                int fo = open((base + ".out").c_str(), O_WRONLY | O_CREAT | O_TRUNC, 0644);
                int fe = open((base + ".err").c_str(), O_WRONLY | O_CREAT | O_TRUNC, 0644);
                dup2(fo, 1); dup2(fe, 2); close(fo); close(fe);
                signal(SIGALRM, SIG_DFL);
                childFn(j.batch, j.resumeItem, j.resumeParser, st);
                fflush(stdout);
                st->done = 1;
                _exit(0);
            }
            j.pid = pid;
            running.push_back(j);
        };
        auto readFile = [](const std::string &p, qint64 tailOnly = -1) {
            QFile f(QString::fromStdString(p));
            if (!f.open(QIODevice::ReadOnly)) return QByteArray();
            if (tailOnly > 0 && f.size() > tailOnly) f.seek(f.size() - tailOnly);
            return f.readAll();
        };

        while (nextEmit < nBatches) {
            while (int(running.size()) < workers && nextBatch < nBatches) spawn({ nextBatch++, -1, -1, 0, 0, 0 });
            if (running.empty()) break;
            int status = 0;
            pid_t pid = wait(&status);
            if (pid < 0) { if (errno == EINTR) continue; break; }
            auto it = std::find_if(running.begin(), running.end(), [&](const Job &j) { return j.pid == pid; });
            if (it == running.end()) continue;
            Job j = *it; running.erase(it);
            slotBusy[j.slot] = false;
            Status *st = slotv[j.slot];
            std::string base = workDir + "/" + tag + "_b" + std::to_string(j.batch) + "_r" + std::to_string(j.resumes);
            ChildResult r;
            r.batch = j.batch; r.outPath = base + ".out";
            bool normal = WIFEXITED(status) && WEXITSTATUS(status) == 0 && st->done;
            r.crashed = !normal;
            if (!normal) {
                r.exitCode = WIFEXITED(status) ? WEXITSTATUS(status) : 0;
                r.signal = WIFSIGNALED(status) ? WTERMSIG(status) : 0;
                r.timeout = r.signal == SIGALRM;
                r.item = st->item; r.parser = st->parser; r.phase = st->phase;
                // head (where the sanitizer puts its ERROR line) + tail (SUMMARY) of the child's stderr
                {
                    QFile ef(QString::fromStdString(base + ".err"));
                    if (ef.open(QIODevice::ReadOnly)) {
                        QByteArray all = ef.size() > 64 * 1024 * 1024 ? ef.read(64 * 1024 * 1024) : ef.readAll();
                        int ei = all.indexOf("ERROR: "); if (ei < 0) ei = all.indexOf("runtime error: ");
                        if (ei < 0) ei = 0;
                        ei = all.lastIndexOf('\n', ei) + 1;   // start of that line (UBSan puts file:line:col in front of the message)
                        QByteArray head = all.mid(ei, 3000);
                        r.errText = head.toStdString();
                        if (all.size() > ei + 3000) r.errText += "\n[...]\n" + all.right(std::min<int>(3000, all.size() - ei - 3000)).toStdString();
                    }
                }
            }
            // fold this child's shared counters into the parent-side totals
            for (int i = 0; i < 512; i++) { if (i < 8) { if (st->counters[i] > totals[i]) totals[i] = st->counters[i]; } else totals[i] += st->counters[i]; st->counters[i] = 0; }   // slotv 0..7 fold by max, the rest by sum
            finished[j.batch].emplace_back(r, readFile(base + ".out"));
            if (normal) {
                ::unlink((base + ".out").c_str()); ::unlink((base + ".err").c_str());
                complete[j.batch] = true;
            } else if (j.resumes + 1 > maxResumes) {
                complete[j.batch] = true;
                crashStorms++;
            } else {
                spawn({ j.batch, r.item, r.parser, j.resumes + 1, 0, 0 });
            }
            while (nextEmit < nBatches && complete.count(nextEmit)) {
                for (auto &seg : finished[nextEmit]) onResult(seg.first, seg.second);
                finished.erase(nextEmit);
                nextEmit++;
            }
        }
    }
    long long totals[512] = { 0 };
    int crashStorms = 0;
};

// alarm helpers for the child
inline void armBudget(int sec) { alarm(unsigned(sec)); }
inline void disarmBudget() { alarm(0); }

}  // namespace c02
