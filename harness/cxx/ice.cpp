// C15 harness: real QXmppIceConnection / QXmppIceComponent objects on loopback UDP.
//
// Part 1 (correspondence + safety oracle): ONE real component ("victim") bound to 127.0.0.1; the harness owns the sockets
//   of the honest peer (address ids 1, 2) and of an attacker (ids 8, 9) and feeds the victim an explicit sequence of
//   operations (credentials, remote candidates, connectToHost, timer ticks, transaction time-outs, datagrams forged with the
//   real QXmppStunMessage encoder, application datagrams).  After every operation everything the component did is collected
//   (datagrams written to our sockets, log lines, signals) and printed as one observation; the Lean model must predict it.
//   Real time plays no role here: the 500 ms timers are parked and driven explicitly (private slots through the meta-object
//   system), the zero-delay transmissions are flushed by processing events behind a marker datagram.
//   Oracle (model independent): a datagram without a valid MESSAGE-INTEGRITY for its class must not cause any reaction.
// Part 2 (liveness, real timers): two real connections, directly or through a relaying proxy socket that drops chosen first
//   transmissions, with an attacker injecting forged datagrams meanwhile; both must report connected, advertise RFC 5245
//   priorities and carry application datagrams unchanged in both directions.
#include "common.h"
#include "QXmppStun_p.h"
#include "QXmppUtils.h"
#include <QCoreApplication>
#include <QElapsedTimer>
#include <QRegularExpression>
#include <QThread>
#include <QTimer>
#include <QUdpSocket>
#include <functional>
#include <set>

using namespace vh;

static const char *LOOP = "127.0.0.1";
static const quint32 MAGIC = 0x2112A442;

// ---------------------------------------------------------------------------------------------- harness sockets
static const int NSOCK = 6;
static QUdpSocket *gSock[NSOCK];             // honest peer candidates (ids 1, 2), attacker (ids 8, 9), STUN servers (ids 5, 6)
static const int gSockId[NSOCK] = { 1, 2, 8, 9, 5, 6 };
static QUdpSocket *gMarker;

static int sockIndexOfId(int id) { for (int i = 0; i < NSOCK; i++) if (gSockId[i] == id) return i; return -1; }
static int idOfPort(quint16 port) { for (int i = 0; i < NSOCK; i++) if (gSock[i]->localPort() == port) return gSockId[i]; return 0; }
static quint16 portOfId(int id) { int i = sockIndexOfId(id); return i < 0 ? 0 : gSock[i]->localPort(); }

static QByteArray fakeTxid(unsigned long long n)
{
    QByteArray id(12, '\0');
    id[0] = 'F'; id[1] = 'K';
    for (int i = 0; i < 8; i++) id[11 - i] = char((n >> (8 * i)) & 0xff);
    return id;
}
static bool isFakeTxid(const QByteArray &id, unsigned long long &n)
{
    if (id.size() != 12 || id[0] != 'F' || id[1] != 'K' || id[2] != 0 || id[3] != 0) return false;
    n = 0;
    for (int i = 4; i < 12; i++) n = (n << 8) | (unsigned char)id[i];
    return true;
}

// independent computation of the RFC 5245 priorities (section 4.1.2.1 and 5.7.2)
static unsigned long long rfcCandidatePriority(int typePref, unsigned localPref, int component)
{
    return (1ull << 24) * typePref + (1ull << 8) * localPref + (256 - component);
}
static unsigned long long rfcPairPriority(unsigned long long G, unsigned long long D)
{
    return (1ull << 32) * std::min(G, D) + 2 * std::max(G, D) + (G > D ? 1 : 0);
}

// ---------------------------------------------------------------------------------------------- datagram description
struct Dg {
    int src = 8;
    bool app = false;
    QByteArray payload;              // app
    std::string cls = "req";         // req ind rsp err
    char method = 'b';               // b binding, o other (Allocate)
    unsigned long long txid = 1000;  // < 1000: the victim's own k-th transaction, otherwise a foreign id
    // integrity-relevant layout of the attribute list behind the ordinary attributes, wire order, tokens joined by '+' ("-" = none):
    //   loc rem bad trunc  MESSAGE-INTEGRITY (HMAC over the preceding bytes under the local / remote password, a wrong key; length != 20)
    //   fp fpbad           FINGERPRINT with the right / a wrong CRC over the preceding bytes
    //   u                  an unknown comprehension-optional attribute
    //   sw                 a USERNAME attribute whose length field runs past the end of the datagram (swallows what follows)
    //   uc  pr<N>          a USE-CANDIDATE / PRIORITY(N) attribute at this position (behind MESSAGE-INTEGRITY it is NOT covered by the HMAC)
    std::string mi = "-";
    bool uc = false;
    char role = 'n';                 // n none, g controlling, d controlled
    unsigned long long prio = 0;
    int user = 0;                    // 0 none, 1 the right "<local>:<remote>" name, 2 something else
    int mapped = 0;                  // > 0: XOR-MAPPED-ADDRESS of a response = synthetic address 10.0.0.<mapped> port 4000+<mapped>;
                                     // < 0: a fresh one is assigned when the scenario runs; 0: none (server-path ids) / the victim's own (peer path)
    std::string str() const
    {
        if (app) return "dg " + std::to_string(src) + " app " + (payload.isEmpty() ? std::string("-") : std::string(payload.toHex().constData()));
        return "dg " + std::to_string(src) + " " + cls + " " + method + " " + std::to_string(txid) + " " + mi + " " + (uc ? "1" : "0") + " " +
            role + " " + std::to_string(prio) + " " + std::to_string(user) + (mapped > 0 ? " m" + std::to_string(mapped) : std::string());
    }
    std::vector<std::string> tokens() const
    {
        std::vector<std::string> t;
        if (mi == "-") return t;
        size_t i = 0;
        while (i <= mi.size()) { size_t j = mi.find('+', i); if (j == std::string::npos) j = mi.size(); t.push_back(mi.substr(i, j - i)); i = j + 1; }
        return t;
    }
    // Independent of library and model: the integrity attribute that protects the message by RFC 5389 15.4/15.5 — the first
    // MESSAGE-INTEGRITY, provided neither a FINGERPRINT (last attribute of a message) nor the end of the data comes first.
    // "abs" = the message is not integrity protected at all.
    std::string integrity() const
    {
        for (const auto &t : tokens()) {
            if (t == "fp" || t == "fpbad" || t == "sw") return "abs";
            if (t == "loc" || t == "rem" || t == "bad" || t == "trunc" || t == "old") return t;
        }
        return "abs";
    }
    bool authentic() const { return !app && ((cls == "req" || cls == "ind") ? integrity() == "loc" : integrity() == "rem"); }
    bool plain() const { return mi == "-" || mi == "fp" || mi == integrity() || mi == integrity() + "+fp"; }   // layouts the real encoder produces
};

static void setLen(QByteArray &b, int body) { b[2] = char(body >> 8); b[3] = char(body & 0xff); }
static void putAttrHeader(QByteArray &b, int type, int len) { b.append(char(type >> 8)); b.append(char(type & 0xff)); b.append(char(len >> 8)); b.append(char(len & 0xff)); }

// ---- application payloads that look like STUN to a careless demultiplexer
// independent statement of the RFC 5389 rule: a datagram is STUN iff ≥ 20 bytes, length field (bytes 2..3) = size − 20,
// type (bytes 0..1) ≠ 0 and the magic cookie 0x2112A442 at offset 4
static bool isStunByRule(const QByteArray &b)
{
    if (b.size() < 20) return false;
    const auto *u = reinterpret_cast<const unsigned char *>(b.constData());
    return ((u[2] << 8) | u[3]) == b.size() - 20 && ((u[0] << 8) | u[1]) != 0 && u[4] == 0x21 && u[5] == 0x12 && u[6] == 0xa4 && u[7] == 0x42;
}
// cookie-less look-alike: bytes 2..3 = size − 20 (what peekType() tests), chosen first two bytes, no cookie
static QByteArray lookalike(int size, unsigned char b0, unsigned char b1, Rng &rng)
{
    QByteArray p(size, '\0');
    for (auto &c : p) c = char(rng.below(256));
    p[0] = char(b0); p[1] = char(b1); p[2] = char((size - 20) >> 8); p[3] = char((size - 20) & 0xff);
    if ((unsigned char)p[4] == 0x21) p[4] = 0x22;     // certainly not the cookie
    return p;
}
// RTP packet (version 2, payload type 0) of `size` bytes with this sequence number: bytes 2..3 carry the sequence number
static QByteArray rtpPacket(int size, unsigned seq, Rng &rng)
{
    QByteArray p(size, '\0');
    for (auto &c : p) c = char(rng.below(256));
    p[0] = char(0x80); p[1] = 0; p[2] = char((seq >> 8) & 0xff); p[3] = char(seq & 0xff);
    if ((unsigned char)p[4] == 0x21) p[4] = 0x22;
    return p;
}
// carries the cookie but is NOT a STUN message by the rule: wrong length field, or type 0
static QByteArray cookieButNotStun(int size, bool zeroType, Rng &rng)
{
    QByteArray p(size, '\0');
    for (auto &c : p) c = char(rng.below(256));
    p[4] = 0x21; p[5] = 0x12; p[6] = char(0xa4); p[7] = 0x42;
    if (zeroType) { p[0] = 0; p[1] = 0; p[2] = char((size - 20) >> 8); p[3] = char((size - 20) & 0xff); }
    else { p[0] = 0; p[1] = 1; const int wrong = size - 20 + 1 + int(rng.below(7)); p[2] = char(wrong >> 8); p[3] = char(wrong & 0xff); }
    return p;
}

struct Creds { QString localUser, localPw, remoteUser, remotePw, oldRemotePw = QStringLiteral("never-was-the-remote-password"); };

static QByteArray forge(const Dg &d, const Creds &c, const QList<QByteArray> &victimTx, const QHostAddress &vHost, quint16 vPort, Rng &rng,
                        const QList<QByteArray> &serverTx = QList<QByteArray>())
{
    if (d.app) return d.payload;
    QXmppStunMessage m;
    int cls = d.cls == "req" ? QXmppStunMessage::Request : d.cls == "ind" ? QXmppStunMessage::Indication
            : d.cls == "rsp" ? QXmppStunMessage::Response : QXmppStunMessage::Error;
    m.setType(quint16((d.method == 'b' ? int(QXmppStunMessage::Binding) : int(QXmppStunMessage::Allocate)) | cls));
    if (d.txid >= 500 && d.txid < 600 && (long long)(d.txid - 500) < serverTx.size() && !serverTx[int(d.txid - 500)].isEmpty()) m.setId(serverTx[int(d.txid - 500)]);
    else m.setId(d.txid < 500 && (long long)d.txid < victimTx.size() ? victimTx[int(d.txid)] : fakeTxid(d.txid));
    if (d.cls == "req" || d.cls == "ind") {
        m.setPriority(quint32(d.prio));
        m.useCandidate = d.uc;
        if (d.role == 'g') m.iceControlling = QByteArray::fromHex("0102030405060708");
        if (d.role == 'd') m.iceControlled = QByteArray::fromHex("1112131415161718");
    } else {
        if (d.mapped > 0) { m.xorMappedHost = QHostAddress(QStringLiteral("10.0.0.%1").arg(d.mapped)); m.xorMappedPort = quint16(4000 + d.mapped); }
        else if (!(d.txid >= 500 && d.txid < 600)) { m.xorMappedHost = vHost; m.xorMappedPort = vPort; }   // ids 500…: a server answer WITHOUT mapped address
        if (d.cls == "err") { m.errorCode = 487; m.errorPhrase = QStringLiteral("Role Conflict"); }
    }
    if (d.user == 1) m.setUsername(c.localUser + QLatin1Char(':') + c.remoteUser);
    if (d.user == 2) m.setUsername(QStringLiteral("mallory:eve"));
    // ordinary attributes from the real encoder, then the integrity-relevant trailer BY HAND in the order the layout says
    QByteArray b = m.encode(QByteArray(), false);
    for (const auto &t : d.tokens()) {
        if (t == "u") {
            putAttrHeader(b, 0x8030, 5); b.append("hello", 5); b.append(QByteArray(3, '\0'));
        } else if (t == "uc") {
            putAttrHeader(b, 0x0025, 0);
        } else if (t.rfind("pr", 0) == 0) {
            const quint32 v = quint32(strtoull(t.c_str() + 2, nullptr, 10));
            putAttrHeader(b, 0x0024, 4);
            for (int k = 3; k >= 0; k--) b.append(char((v >> (8 * k)) & 0xff));
        } else if (t == "sw") {
            putAttrHeader(b, 0x0006, 0x0400);     // USERNAME claiming 1024 bytes: whatever follows lies inside its value
        } else if (t == "fp" || t == "fpbad") {
            QByteArray copy = b; setLen(copy, b.size() - 20 + 8);
            quint32 crc = QXmppUtils::generateCrc32(copy) ^ 0x5354554eu;
            if (t == "fpbad") crc ^= 1u << rng.below(32);
            putAttrHeader(b, 0x8028, 4);
            for (int k = 3; k >= 0; k--) b.append(char((crc >> (8 * k)) & 0xff));
        } else {
            QByteArray key = t == "loc" ? c.localPw.toUtf8() : t == "rem" ? c.remotePw.toUtf8() : t == "old" ? c.oldRemotePw.toUtf8()
                           : (rng.coin() ? QByteArray("not-the-session-password") : c.localPw.toUtf8() + "x");
            if (t == "trunc") key = (d.cls == "req" || d.cls == "ind") ? c.localPw.toUtf8() : c.remotePw.toUtf8();   // right key, only the length is wrong
            QByteArray copy = b; setLen(copy, b.size() - 20 + 24);
            QByteArray mac = QXmppUtils::generateHmacSha1(key, copy);
            if (t == "trunc") {
                static const int lens[] = { 0, 12, 16, 19, 24 };
                const int n = lens[rng.below(5)];
                mac = (mac + QByteArray(8, '\x5a')).left(n);
                putAttrHeader(b, 0x0008, n); b.append(mac); b.append(QByteArray((4 - n % 4) % 4, '\0'));
            } else { putAttrHeader(b, 0x0008, 20); b.append(mac); }
        }
    }
    setLen(b, b.size() - 20);
    return b;
}

// ---------------------------------------------------------------------------------------------- one real agent
struct Agent {
    QXmppIceConnection *conn = nullptr;
    QXmppIceComponent *comp = nullptr;
    int compId = 1;
    bool ctl = false;
    QList<quint16> ports;
    // events since the last clear
    bool accepted = false;
    QStringList warns, ps, sel, otherLogs, localCands;
    bool gatheringComplete = false;
    int sig = 0;
    QList<QByteArray> app;
    long long markersSeen = 0;   // highest marker number that came back
    long long logCount = 0;
    std::function<int(quint16)> portToId = idOfPort;

    Agent(bool controlling, int component, const QList<QHostAddress> &addrs, int nStun = 0)
        : compId(component), ctl(controlling)
    {
        conn = new QXmppIceConnection;
        if (nStun > 0) {
            QList<QPair<QHostAddress, quint16>> servers;
            for (int k = 0; k < nStun; k++) servers.push_back({ QHostAddress(LOOP), gSock[4 + k]->localPort() });
            conn->setStunServers(servers);
        }
        QObject::connect(conn, &QXmppLoggable::logMessage, [this](QXmppLogger::MessageType t, const QString &s) { onLog(t, s); });
        conn->setIceControlling(controlling);
        conn->addComponent(component);
        comp = conn->component(component);
        QObject::connect(comp, &QXmppIceComponent::connected, [this]() { sig++; });
        QObject::connect(comp, &QXmppIceComponent::datagramReceived, [this](const QByteArray &b) {
            if (b.startsWith("\xffMK")) markersSeen = std::max(markersSeen, b.mid(3).toLongLong()); else app << b;
        });
        if (!conn->bind(addrs)) { fprintf(stderr, "bind failed\n"); exit(3); }
        for (const auto &c : comp->localCandidates()) ports << c.port();
    }
    ~Agent() { delete conn; }
    quint16 port() const { return ports.value(0); }
    void clear() { localCands.clear(); gatheringComplete = false; accepted = false; warns.clear(); ps.clear(); sel.clear(); otherLogs.clear(); sig = 0; app.clear(); }
    void onLog(QXmppLogger::MessageType t, const QString &s)
    {
        logCount++;
        static const QRegularExpression rePs(QStringLiteral("^ICE pair changed to state (\\S+) (\\S+) port (\\d+)"));
        static const QRegularExpression reSel(QStringLiteral("^ICE pair selected (\\S+) port (\\d+) .*\\(priority: (\\d+)\\)"));
        if (t == QXmppLogger::ReceivedMessage && s.startsWith(QLatin1String("STUN packet from"))) { accepted = true; return; }
        if (t == QXmppLogger::SentMessage) return;
        if (t == QXmppLogger::DebugMessage) {             // "Checking remote candidates", "ICE forward check failed …", "STUN test failed …"
            static const QRegularExpression reSr(QStringLiteral("^Adding server-reflexive candidate \\S+ port (\\d+)"));
            auto ms = reSr.match(s);
            if (ms.hasMatch()) localCands << QString::number(ms.captured(1).toInt() - 4000);
            return;
        }
        auto m = rePs.match(s);
        if (m.hasMatch()) { ps << QString::number(portToId(m.captured(3).toUShort())) + QLatin1Char(':') + m.captured(1); return; }
        m = reSel.match(s);
        if (m.hasMatch()) { sel << QString::number(portToId(m.captured(2).toUShort())) + QLatin1Char(':') + m.captured(3); return; }
        if (t == QXmppLogger::WarningMessage) {
            if (s.startsWith(QLatin1String("Role conflict"))) warns << QStringLiteral("rc");
            else if (s == QLatin1String("Bad message integrity")) warns << QStringLiteral("mi");
            else if (s == QLatin1String("Bad fingerprint")) warns << QStringLiteral("fp");
            else if (s.startsWith(QLatin1String("Truncated STUN attribute"))) warns << QStringLiteral("ta");
            else if (s.startsWith(QLatin1String("STUN server did not provide"))) warns << QStringLiteral("noref");
            else if (s == QLatin1String("Missing MESSAGE-INTEGRITY")) warns << QStringLiteral("nomi2");     // from decode() itself (80bab8b)
            else if (s.contains(QLatin1String("MESSAGE-INTEGRITY")) && s.contains(QLatin1String("missing"), Qt::CaseInsensitive)) warns << QStringLiteral("nomi");
            else if (s.startsWith(QLatin1String("Skipping "))) { /* decoder chatter printed only when decoding failed */ }
            else { warns << QStringLiteral("other"); if (getenv("C15_DEBUG")) fprintf(stderr, "WARN %s\n", qPrintable(s)); }
            return;
        }
        if (s.startsWith(QLatin1String("ICE gathering state"))) { if (s.endsWith(QLatin1String("to 'complete'"))) gatheringComplete = true; return; }
        if (s.startsWith(QLatin1String("ICE negotiation completed"))) return;
        otherLogs << s.left(40);
    }
    // park every real timer of the component (interval timer and retransmission timers); they are driven explicitly in part 1
    QTimer *checkTimer() const
    {
        for (auto *t : comp->findChildren<QTimer *>(QString(), Qt::FindDirectChildrenOnly))
            if (!t->isSingleShot()) return t;
        return nullptr;
    }
    void parkTimers()
    {
        if (auto *t = checkTimer()) if (t->interval() < 1000000) t->setInterval(100000000);
        for (auto *tx : comp->findChildren<QXmppStunTransaction *>(QString(), Qt::FindDirectChildrenOnly))
            for (auto *t : tx->findChildren<QTimer *>(QString(), Qt::FindDirectChildrenOnly))
                if (t->isActive() && t->interval() > 0) t->stop();
    }
};

static void pump(int rounds = 3) { for (int i = 0; i < rounds; i++) QCoreApplication::processEvents(QEventLoop::AllEvents); }

// ---------------------------------------------------------------------------------------------- part 1: the victim
struct Victim {
    Agent ag;
    Creds creds;                       // from the victim's point of view
    QList<QByteArray> vtx;             // its own transaction ids in order of first appearance
    bool credsSet = false;           // remote user set
    bool pwSet = false;              // remote password set
    bool reportRetransmits = false;  // the current operation is `rtx`
    std::vector<std::string> obsLog; // every observation of this scenario (twin-run oracle)
    std::string history;
    long long markerNo = 0;
    Rng &rng;
    unsigned long long localPrio;
    std::map<int, unsigned long long> remotePrio;   // what we told it / what the PRIORITY attribute of the first request said

    QList<QByteArray> stx;             // ids of its STUN-server discovery transactions, by server
    bool closedNow = false;
    int pwGeneration = 0;
    std::set<int> legit;               // addresses signalled to it or from which an authenticated request was processed
    int nStun = 0;

    Victim(bool ctl, int comp, Rng &r, int stunServers = 0) : ag(ctl, comp, { QHostAddress(LOOP) }, stunServers), rng(r), nStun(stunServers)
    {
        for (int k = 0; k < stunServers; k++) stx << QByteArray();
        creds.localUser = ag.conn->localUser(); creds.localPw = ag.conn->localPassword();
        creds.remoteUser = QStringLiteral("peer"); creds.remotePw = QStringLiteral("peer-password-0123456789");
        // advertised candidate priority must be the RFC one (host candidates, local preference 65535)
        const auto cands = ag.comp->localCandidates();
        localPrio = cands.isEmpty() ? 0 : (unsigned long long)(quint32)cands[0].priority();
        for (const auto &c : cands) {
            if (c.type() == QXmppJingleCandidate::HostType && (unsigned long long)(quint32)c.priority() == rfcCandidatePriority(126, 65535, comp)) oraclePass()++;
            else oracleFail("C15:candidate-priority-not-rfc", "component " + std::to_string(comp) + " advertised " + std::to_string(c.priority()));
        }
    }

    // wait until the victim has consumed everything sent so far, let zero timers fire, collect what it wrote
    struct Seen { QStringList r, c, t; };
    Seen settle()
    {
        Seen seen;
        int idle = 0;
        auto barrier = [&]() {
            if (closedNow) { pump(6); return; }   // its socket is closed: nothing comes back
            markerNo++;
            const long long want = markerNo;
            gMarker->writeDatagram(QByteArray("\xffMK") + QByteArray::number(markerNo), QHostAddress(LOOP), ag.port());
            QElapsedTimer el; el.start();
            qint64 resendAt = 3000;
            // generous: only a lost marker ever waits this long (a loaded machine just processes the events later)
            while (ag.markersSeen < want && el.elapsed() < 30000) {
                pump(1);
                if (ag.markersSeen < want) QThread::usleep(50);
                if (ag.markersSeen < want && el.elapsed() > resendAt) { gMarker->writeDatagram(QByteArray("\xffMK") + QByteArray::number(markerNo), QHostAddress(LOOP), ag.port()); resendAt += 3000; stat("marker_resent"); }
            }
            if (ag.markersSeen < want) { printf("I marker lost after %s\n", history.c_str()); fflush(stdout); stat("marker_lost"); }
        };
        barrier();
        while (idle < 2) {
            long long before = ag.logCount;
            pump(2);
            bool got = drain(seen);
            ag.parkTimers();
            if (!got && ag.logCount == before) idle++; else { idle = 0; barrier(); }
        }
        return seen;
    }
    bool drain(Seen &seen)
    {
        bool any = false;
        for (int i = 0; i < NSOCK; i++) {
            QUdpSocket *s = gSock[i];
            while (s->hasPendingDatagrams()) {
                QByteArray b(int(s->pendingDatagramSize()), '\0');
                QHostAddress h; quint16 p = 0;
                s->readDatagram(b.data(), b.size(), &h, &p);
                // after close() a write re-opens the closed QUdpSocket: the datagram then comes from a fresh port
                if (p != ag.port() && !closedNow) { stat("stray_datagram"); continue; }
                any = true;
                quint32 cookie = 0; QByteArray id;
                quint16 type = QXmppStunMessage::peekType(b, cookie, id);
                const QString to = QString::number(gSockId[i]);
                if (gSockId[i] == 5 || gSockId[i] == 6) {
                    // discovery request to a STUN server: plain Binding request, no credentials
                    QXmppStunMessage sm;
                    const int k = gSockId[i] - 5;
                    if (type == (QXmppStunMessage::Binding | QXmppStunMessage::Request) && sm.decode(b) && k < stx.size()) {
                        if (stx[k].isEmpty()) stx[k] = sm.id(); else stat("server_retransmissions_seen");
                    } else stat("unexpected_datagram_at_stun_server");
                    continue;
                }
                if (!type || cookie != MAGIC) { seen.t << to + QLatin1Char(':') + (b.isEmpty() ? QStringLiteral("-") : QString::fromLatin1(b.toHex())); continue; }
                QXmppStunMessage m;
                if (type == (QXmppStunMessage::Binding | QXmppStunMessage::Request)) {
                    // the victim's own connectivity check: must verify under the password we gave it
                    // it protects its checks with the remote password it has been GIVEN: none before `rpass`/`creds`, so no MESSAGE-INTEGRITY
                    // then (since repo commit 80bab8b decode() with a key refuses a request without one)
                    if (!m.decode(b, pwSet ? creds.remotePw.toUtf8() : QByteArray())) { seen.c << to + QStringLiteral(":undecodable"); continue; }
                    if (!pwSet) stat("checks_sent_without_integrity_before_remote_password");
                    int k = vtx.indexOf(m.id());
                    if (k >= 0) {
                        stat("retransmissions_seen");
                        if (reportRetransmits) seen.c << to + QLatin1Char(':') + QString::number(k) + QLatin1Char(':') + (m.useCandidate ? QLatin1Char('1') : QLatin1Char('0'));
                        continue;
                    }
                    vtx << m.id(); k = vtx.size() - 1;
                    seen.c << to + QLatin1Char(':') + QString::number(k) + QLatin1Char(':') + (m.useCandidate ? QLatin1Char('1') : QLatin1Char('0'));
                    // PRIORITY attribute = priority of a would-be peer-reflexive candidate (RFC 5245 7.1.2.1), role attribute = its role
                    const bool roleOk = ag.ctl ? (!m.iceControlling.isEmpty() && m.iceControlled.isEmpty()) : (!m.iceControlled.isEmpty() && m.iceControlling.isEmpty());
                    if (m.priority() == rfcCandidatePriority(110, 65535, ag.compId) && roleOk &&
                        m.username() == creds.remoteUser + QLatin1Char(':') + creds.localUser) oraclePass()++;
                    else oracleFail("C15:check-attributes-not-rfc", history + " PRIORITY " + std::to_string(m.priority()));
                } else if (type == (QXmppStunMessage::Binding | QXmppStunMessage::Response)) {
                    if (!m.decode(b, creds.localPw.toUtf8())) { seen.r << to + QStringLiteral(":undecodable"); continue; }
                    unsigned long long n = 0;
                    seen.r << to + QLatin1Char(':') + (isFakeTxid(m.id(), n) ? QString::number(n) : QStringLiteral("?"));
                    if (m.xorMappedPort != s->localPort()) oracleFail("C15:response-mapped-address-wrong", history);
                } else {
                    seen.r << to + QStringLiteral(":type") + QString::number(type);
                }
            }
        }
        return any;
    }

    static QString joinOr(const QStringList &l) { return l.isEmpty() ? QStringLiteral("-") : l.join(QLatin1Char(',')); }

    std::string observe(const Seen &seen)
    {
        QString o = QStringLiteral("a=%1 w=%2 r=%3 c=%4 p=%5 s=%6 k=%7 C=%8 d=%9 t=%10 l=%11 g=%12")
                        .arg(ag.accepted ? 1 : 0).arg(joinOr(ag.warns), joinOr(seen.r), joinOr(seen.c), joinOr(ag.ps), joinOr(ag.sel))
                        .arg(ag.sig).arg(ag.comp->isConnected() ? 1 : 0);
        QStringList d; for (const auto &b : ag.app) d << (b.isEmpty() ? QStringLiteral("-") : QString::fromLatin1(b.toHex()));
        o = o.arg(joinOr(d), joinOr(seen.t), joinOr(ag.localCands)).arg(ag.gatheringComplete ? 1 : 0);
        if (!ag.otherLogs.isEmpty()) o += QStringLiteral(" unexpected-log=") + ag.otherLogs.join(QLatin1Char('|')).replace(QLatin1Char(' '), QLatin1Char('_'));
        return o.toStdString();
    }

    // applies one operation to the real component, prints the correspondence line, evaluates the oracle
    void apply(const std::string &op, const Dg *dg = nullptr)
    {
        history += op + "; ";
        ag.clear();
        const bool wasConnected = ag.comp->isConnected();
        std::vector<std::string> w;
        { size_t i = 0; while (i < op.size()) { size_t j = op.find(' ', i); if (j == std::string::npos) j = op.size(); if (j > i) w.push_back(op.substr(i, j - i)); i = j + 1; } }
        std::string sendResult;
        if (w[0] == "creds") {
            ag.conn->setRemoteUser(creds.remoteUser); ag.conn->setRemotePassword(creds.remotePw); credsSet = true; pwSet = true;
        } else if (w[0] == "ruser") {
            ag.conn->setRemoteUser(creds.remoteUser); credsSet = true;
        } else if (w[0] == "rpass") {
            ag.conn->setRemotePassword(creds.remotePw); pwSet = true;
        } else if (w[0] == "rpass2") {
            creds.oldRemotePw = creds.remotePw; creds.remotePw = QStringLiteral("replaced-peer-password-%1").arg(++pwGeneration);   // every replacement is a NEW value
            ag.conn->setRemotePassword(creds.remotePw); pwSet = true;
        } else if (w[0] == "close") {
            ag.conn->close(); closedNow = true;
        } else if (w[0] == "rtx") {
            const int k = atoi(w[1].c_str());
            reportRetransmits = true;
            if (k < vtx.size())
                for (auto *tx : ag.comp->findChildren<QXmppStunTransaction *>(QString(), Qt::FindDirectChildrenOnly))
                    if (tx->request().id() == vtx[k]) { QMetaObject::invokeMethod(tx, "retry", Qt::DirectConnection); ag.parkTimers(); break; }
        } else if (w[0] == "addr") {
            QXmppJingleCandidate c;
            c.setComponent(ag.compId); c.setHost(QHostAddress(LOOP)); c.setPort(portOfId(atoi(w[1].c_str())));
            c.setPriority(int(quint32(strtoull(w[2].c_str(), nullptr, 10)))); c.setProtocol(QStringLiteral("udp"));
            c.setType(QXmppJingleCandidate::HostType); c.setId(QStringLiteral("c") + QString::fromStdString(w[1]));
            ag.conn->addRemoteCandidate(c);
            legit.insert(atoi(w[1].c_str()));
            if (!remotePrio.count(atoi(w[1].c_str()))) remotePrio[atoi(w[1].c_str())] = strtoull(w[2].c_str(), nullptr, 10);
        } else if (w[0] == "connect") {
            ag.conn->connectToHost();
            ag.parkTimers();
        } else if (w[0] == "tick") {
            QTimer *t = ag.checkTimer();
            if (t && t->isActive()) QMetaObject::invokeMethod(ag.comp, "checkCandidates", Qt::DirectConnection);
        } else if (w[0] == "timeout") {
            const int k = atoi(w[1].c_str());
            if (k < vtx.size()) {
                for (auto *tx : ag.comp->findChildren<QXmppStunTransaction *>(QString(), Qt::FindDirectChildrenOnly)) {
                    if (tx->request().id() != vtx[k]) continue;
                    // the retransmission timer fires STUN_RTO_MAX more times, then the transaction reports an error
                    int before = ag.ps.size();
                    for (int i = 0; i < 8 && ag.ps.size() == before; i++) { QMetaObject::invokeMethod(tx, "retry", Qt::DirectConnection); ag.parkTimers(); }
                    break;
                }
            }
        } else if (w[0] == "send") {
            QByteArray p = w[1] == "-" ? QByteArray() : QByteArray::fromHex(w[1].c_str());
            if (ag.comp->sendDatagram(p) < 0) sendResult = "noroute";
        } else if (w[0] == "dg" && dg) {
            printf("I %s\n", history.c_str()); fflush(stdout);
            QByteArray bytes = forge(*dg, creds, vtx, QHostAddress(LOOP), ag.port(), rng, stx);
            gSock[sockIndexOfId(dg->src)]->writeDatagram(bytes, QHostAddress(LOOP), ag.port());
            if (!dg->app && dg->cls == "req" && !remotePrio.count(dg->src)) pendingPrio = dg->prio; else pendingPrio = ~0ull;
        }
        Seen seen = settle();
        if (!sendResult.empty()) seen.t << QString::fromStdString(sendResult);
        reportRetransmits = false;
        obsLog.push_back(observe(seen));
        corr(op, obsLog.back());
        stat("ops");
        // ---- oracle: no reaction to anything that does not prove knowledge of the session credentials
        const bool reaction = !seen.r.isEmpty() || !seen.c.isEmpty() || !ag.ps.isEmpty() || !ag.sel.isEmpty() || ag.sig > 0 ||
            ag.comp->isConnected() != wasConnected;
        // ---- oracle: application data is only ever written to an address that was signalled or that sent an authenticated request
        for (const auto &t : seen.t) {
            if (t == QLatin1String("noroute")) continue;
            const int to = t.section(QLatin1Char(':'), 0, 0).toInt();
            if (legit.count(to)) oraclePass()++;
            else oracleFail("C15:data-sent-to-unvalidated-address", history + " => " + observe(seen));
        }
        // ---- oracle: a learned server-reflexive candidate is advertised with the RFC priority (type preference 100)
        if (!ag.localCands.isEmpty()) {
            bool ok = false;
            for (const auto &c : ag.comp->localCandidates())
                if (c.type() == QXmppJingleCandidate::ServerReflexiveType) ok = (unsigned long long)(quint32)c.priority() == rfcCandidatePriority(100, 65535, ag.compId);
            if (ok) oraclePass()++; else oracleFail("C15:candidate-priority-not-rfc", history + " (server-reflexive)");
        }
        const bool serverPath = dg && !dg->app && dg->txid >= 500 && dg->txid < 600 && (long long)(dg->txid - 500) < stx.size() && (!ag.localCands.isEmpty() || ag.gatheringComplete);
        if (serverPath && dg->src != 5 + int(dg->txid - 500)) stat("server_answer_from_foreign_address_accepted");
        if (dg && !dg->app && closedNow && (reaction || ag.accepted)) oracleFail("C15:closed-component-reacts", history);
        if (dg && !dg->app) {
            stat("dg_" + dg->cls + "_" + dg->integrity()); if (!dg->plain()) stat("dg_odd_layout");
            const bool isRsp = dg->cls == "rsp" || dg->cls == "err";
            // a response can only prove knowledge of the remote password once the victim has been given that password
            if (!dg->authentic() || (isRsp && !pwSet)) {
                if (!reaction) oraclePass()++;
                else {
                    const std::string in = dg->integrity();
                    std::string key = "C15:unauthenticated-" + in + "-" + dg->cls + "-has-effect";
                    if (isRsp && !pwSet && in != "abs") key = "C15:response-accepted-before-remote-password-is-known";
                    if (in == "abs" && dg->cls == "req") key = "C15:binding-request-without-mi-processed";
                    if (in == "abs" && (dg->cls == "rsp" || dg->cls == "err")) key = "C15:binding-response-without-mi-accepted";
                    oracleFail(key, history + " => " + observe(seen));
                    stat("oracle_reaction_" + in + "_" + dg->cls);
                }
            } else if (reaction) { stat("authentic_with_effect"); if (!seen.r.isEmpty()) legit.insert(dg->src); }
            // a learned peer-reflexive candidate takes the PRIORITY of the request that created it
            if (!seen.r.isEmpty() && pendingPrio != ~0ull && !remotePrio.count(dg->src)) remotePrio[dg->src] = pendingPrio;
        } else if (dg && dg->app) {
            if (reaction) oracleFail("C15:non-stun-datagram-has-effect", history);
            else if (closedNow) { if (ag.app.isEmpty()) oraclePass()++; else oracleFail("C15:closed-component-reacts", history); }
            else if (ag.app.size() == 1 && ag.app[0] == dg->payload) { oraclePass()++; if (!legit.count(dg->src)) stat("app_data_from_non_candidate_source_delivered"); }
            else oracleFail(ag.app.isEmpty() ? "C15:application-datagram-not-delivered" : "C15:application-datagram-altered", history + " => " + observe(seen));
        }
        // ---- oracle: the priority of a selected pair is the RFC 5245 5.7.2 formula of the two candidate priorities
        for (const auto &s : ag.sel) {
            const int id = s.section(QLatin1Char(':'), 0, 0).toInt();
            const unsigned long long pr = s.section(QLatin1Char(':'), 1, 1).toULongLong();
            if (!remotePrio.count(id)) { oracleFail("C15:selected-pair-unknown-remote", history); continue; }
            const unsigned long long G = ag.ctl ? localPrio : remotePrio[id], D = ag.ctl ? remotePrio[id] : localPrio;
            // RFC 5245 4.1.2: candidate priorities lie in 1 … 2^31-1; a PRIORITY attribute outside that range makes the 32-bit
            // product `2 * qMax(G, D)` of CandidatePair::priority() wrap (modelled, counted, not judged)
            if (G >= (1ull << 31) || D >= (1ull << 31)) { stat(pr == rfcPairPriority(G, D) ? "pair_priority_out_of_range_but_rfc" : "pair_priority_out_of_rfc_range_wrapped"); continue; }
            if (pr == rfcPairPriority(G, D)) oraclePass()++;
            else oracleFail("C15:pair-priority-not-rfc", history + " got " + std::to_string(pr));
        }
        if (ag.sig > 1) oracleFail("C15:connected-signalled-twice", history);
    }
    unsigned long long pendingPrio = ~0ull;

    // Malformed stream, sent from attacker address 9 AFTER the last modelled operation of a scenario (the model is not told):
    //  (a) an authentic request/response with one bit flipped anywhere  → must cause no connectivity reaction at all
    //      (header/attributes are covered by the HMAC, the length/cookie make it a non-STUN datagram, the trailer is MI/FINGERPRINT);
    //  (b) a STUN-shaped datagram with random attribute bytes, (c) random bytes → no reaction unless it is a Binding message
    //      without MESSAGE-INTEGRITY (the defect fixed by repo commit f41aa68).
    void fuzzTail(int n)
    {
        for (int i = 0; i < n; i++) {
            ag.clear();
            const bool wasConnected = ag.comp->isConnected();
            QByteArray b; int kind = rng.below(3);
            bool flipAfterMi = false;
            if (kind == 0) {
                Dg d = rng.coin() ? mk0("req", "loc", 9000 + rng.below(100)) : mk0("rsp", "rem", vtx.isEmpty() ? 1999 : (unsigned long long)(vtx.size() - 1));
                d.uc = rng.coin(); d.prio = 1845493759ull; d.user = 1;
                b = forge(d, creds, vtx, QHostAddress(LOOP), ag.port(), rng);
                const unsigned bit = rng.below(unsigned(b.size()) * 8);
                b[int(bit / 8)] = char(b[int(bit / 8)] ^ (1 << (bit % 8)));
                // the authenticated part ends with MESSAGE-INTEGRITY; what follows (the FINGERPRINT attribute, if any) is not covered by
                // the HMAC and RFC 5389 15.4 tells receivers to ignore other attributes there, so a flip in that trailer may
                // legitimately leave an authenticated message
                int miEnd = 0;
                for (int k = 20; k + 4 <= b.size();) { int ty = ((unsigned char)b[k] << 8) | (unsigned char)b[k + 1], ln = ((unsigned char)b[k + 2] << 8) | (unsigned char)b[k + 3]; k += 4 + 4 * ((ln + 3) / 4); if (ty == 8) { miEnd = k; break; } }
                flipAfterMi = miEnd > 0 && int(bit / 8) >= miEnd;
            } else if (kind == 1) {
                static const quint16 types[] = { 0x0001, 0x0101, 0x0111, 0x0011, 0x0003, 0x0103 };
                const int body = 4 * rng.below(17);
                b.resize(20 + body);
                for (auto &c : b) c = char(rng.below(256));
                if (rng.coin()) for (int k = 20; k + 4 <= b.size(); k += 4) { b[k] = rng.coin() ? 0 : char(0x80); b[k + 2] = 0; b[k + 3] = char(4 * rng.below(3)); }
                const quint16 t = types[rng.below(6)];
                b[0] = char(t >> 8); b[1] = char(t & 0xff); b[2] = char(body >> 8); b[3] = char(body & 0xff);
                b[4] = 0x21; b[5] = 0x12; b[6] = char(0xa4); b[7] = 0x42;
            } else {
                b.resize(1 + rng.below(60));
                for (auto &c : b) c = char(rng.below(256));
            }
            printf("I fuzz %s after %s\n", b.toHex().constData(), history.c_str()); fflush(stdout);
            gSock[3]->writeDatagram(b, QHostAddress(LOOP), ag.port());
            Seen seen = settle();
            const bool reaction = !seen.r.isEmpty() || !seen.c.isEmpty() || !ag.ps.isEmpty() || !ag.sel.isEmpty() || ag.sig > 0 || ag.comp->isConnected() != wasConnected;
            stat(kind == 0 ? "fuzz_bitflip" : kind == 1 ? "fuzz_stun_shaped" : "fuzz_random");
            if (!reaction) { oraclePass()++; continue; }
            // which attribute types does the datagram contain?  (plain walk, independent of the library)
            bool hasMi = false;
            for (int k = 20; k + 4 <= b.size();) { int ty = ((unsigned char)b[k] << 8) | (unsigned char)b[k + 1], ln = ((unsigned char)b[k + 2] << 8) | (unsigned char)b[k + 3]; if (ty == 8) hasMi = true; k += 4 + 4 * ((ln + 3) / 4); }
            const std::string rep = "fuzz " + std::string(b.toHex().constData()) + " after " + history + " => " + observe(seen);
            // a flipped bit can also make the MESSAGE-INTEGRITY attribute vanish from the attribute walk (its type becomes an unknown
            // attribute, or an earlier length field now swallows it): that is again a message without MESSAGE-INTEGRITY
            if (kind == 0 && flipAfterMi) stat("fuzz_bitflip_in_unprotected_trailer_accepted");
            else if (kind == 0 && hasMi) oracleFail("C15:bit-flipped-authentic-message-has-effect", rep);
            else if (!hasMi) { oracleFail((b[0] & 1) ? "C15:binding-response-without-mi-accepted" : "C15:binding-request-without-mi-processed", rep); stat("fuzz_no_mi_reaction"); }
            else oracleFail("C15:malformed-datagram-has-effect", rep);
        }
    }
    // Datagrams that arrive THROUGH THE TURN ALLOCATION (the relay's Data indications / channel data are unwrapped by
    // QXmppTurnAllocation and re-emitted as datagramReceived(data, peer address)): they enter the same handleDatagram with the
    // relay as transport.  No TURN server is run here; the transport's signal is raised directly.  Unmodelled tail, oracle only:
    // nothing without a valid protecting MESSAGE-INTEGRITY may be accepted on this path either.
    void relayTail(int n)
    {
        auto *turn = ag.comp->findChild<QXmppTurnAllocation *>();
        if (!turn || closedNow) return;
        static const char *lays[] = { "-", "fp", "bad", "bad+fp", "trunc", "fp+loc", "fp+rem", "sw+loc", "rem", "loc" };
        for (int i = 0; i < n; i++) {
            ag.clear();
            const bool wasConnected = ag.comp->isConnected();
            Dg d = mk0(rng.coin() ? "req" : "rsp", "-", rng.coin() ? 9100 + rng.below(50) : (vtx.isEmpty() ? 1999 : (unsigned long long)(vtx.size() - 1)));
            d.mi = lays[rng.below(10)]; d.uc = rng.coin(); d.prio = 1845493759ull;
            const bool isRsp = d.cls == "rsp";
            const bool auth = d.authentic() && (!isRsp || pwSet);
            const QByteArray b = forge(d, creds, vtx, QHostAddress(LOOP), ag.port(), rng, stx);
            printf("I relay %s after %s\n", d.str().c_str(), history.c_str()); fflush(stdout);
            QMetaObject::invokeMethod(turn, "datagramReceived", Qt::DirectConnection, Q_ARG(QByteArray, b),
                                      Q_ARG(QHostAddress, QHostAddress(QStringLiteral("10.9.9.9"))), Q_ARG(quint16, quint16(3999)));
            pump(3); ag.parkTimers();
            const bool reaction = ag.accepted || !ag.ps.isEmpty() || !ag.sel.isEmpty() || ag.sig > 0 || ag.comp->isConnected() != wasConnected;
            stat("relay_injections");
            if (auth) { stat(reaction ? "relay_authentic_accepted" : "relay_authentic_not_accepted"); if (reaction) return; }   // state now differs from the model: stop
            else if (!reaction) oraclePass()++;
            else oracleFail(d.integrity() == "abs" ? (isRsp ? "C15:binding-response-without-mi-accepted" : "C15:binding-request-without-mi-processed")
                                                   : "C15:unauthenticated-" + d.integrity() + "-" + d.cls + "-has-effect", "via TURN relay: " + d.str() + " after " + history);
        }
    }
    static Dg mk0(const char *cls, const char *mi, unsigned long long txid) { Dg d; d.src = 9; d.cls = cls; d.mi = std::string(mi) + "+fp"; d.txid = txid; return d; }
};

static void drainAll()
{
    for (int i = 0; i < NSOCK; i++) while (gSock[i]->hasPendingDatagrams()) { char c; gSock[i]->readDatagram(&c, 1); }
}

struct Scenario {
    bool ctl = false; int comp = 1; int stun = 0;
    std::vector<std::pair<std::string, Dg>> ops;   // op text; Dg valid when the text starts with "dg"
    void add(const std::string &s) { ops.push_back({ s, Dg() }); }
    void add(const Dg &d) { ops.push_back({ "dg", d }); }
};

// resolves "latest own transaction" placeholders (txid 999) at run time, because only then the number of the victim's
// transactions is known
static std::vector<std::string> runScenario(const Scenario &sc, Rng &rng, int fuzz = 0)
{
    drainAll();
    Victim v(sc.ctl, sc.comp, rng, sc.stun);
    corr("reset ctl=" + std::string(sc.ctl ? "1" : "0") + " comp=" + std::to_string(sc.comp) + " stun=" + std::to_string(sc.stun), "ok");
    v.history = std::string("ctl=") + (sc.ctl ? "1" : "0") + " comp=" + std::to_string(sc.comp) + " stun=" + std::to_string(sc.stun) + ": ";
    if (sc.stun > 0) {
        // the discovery requests leave at once: collect their transaction ids at the two server sockets
        v.ag.clear(); v.settle();
        for (int k = 0; k < sc.stun; k++) if (v.stx[k].isEmpty()) { oracleFail("C15:no-discovery-request-sent", v.history); }
        if (v.ag.conn->gatheringState() != QXmppIceConnection::BusyGatheringState) oracleFail("C15:gathering-state-wrong", v.history + " (servers configured, not busy)");
    }
    int nextMapped = 60;
    for (const auto &o : sc.ops) {
        if (o.first == "dg") {
            Dg d = o.second;
            if (!d.app && d.txid == 999) d.txid = v.vtx.isEmpty() ? 1999 : (unsigned long long)(v.vtx.size() - 1);
            if (!d.app && d.mapped < 0) d.mapped = nextMapped++;   // a fresh reflexive address for every server answer
            v.apply(d.str(), &d);
        } else v.apply(o.first);
    }
    if (fuzz && !v.closedNow) { if (fuzz % 2) v.relayTail(fuzz); v.fuzzTail(fuzz); }
    stat("scenarios");
    if (v.ag.comp->isConnected()) stat("scenarios_ending_connected");
    pump(1);
    return v.obsLog;
}

static unsigned long long hostPrio(int comp) { return rfcCandidatePriority(126, 65535, comp); }

// "abs loc rem bad trunc" = what the real encoder lays out (nothing / one MESSAGE-INTEGRITY, with or without a trailing FINGERPRINT,
// alternating deterministically); anything else is taken as an explicit layout
static std::string layoutOf(const std::string &mi)
{
    static unsigned toggle = 0;
    const bool fp = (toggle++ % 2) == 0;
    if (mi == "abs") return fp ? "fp" : "-";
    if (mi == "loc" || mi == "rem" || mi == "bad" || mi == "trunc") return fp ? mi + "+fp" : mi;
    return mi;
}

static Dg mk(int src, const char *cls, const char *mi, unsigned long long txid, bool uc = false, char role = 'n', unsigned long long prio = 1853817087ull, int user = 0, char method = 'b')
{
    Dg d; d.src = src; d.cls = cls; d.mi = layoutOf(mi); d.txid = txid; d.uc = uc; d.role = role; d.prio = prio; d.user = user; d.method = method;
    return d;
}
static Dg appDg(int src, const QByteArray &p) { Dg d; d.src = src; d.app = true; d.payload = p; return d; }

// base states from which single datagrams / short sequences are explored
static Scenario baseState(int which, bool ctl, int comp)
{
    Scenario s; s.ctl = ctl; s.comp = comp;
    const std::string pr = std::to_string(hostPrio(comp));
    switch (which) {
    case 0: break;                                                               // idle: bound, nothing known about the peer
    case 1: s.add("creds"); break;                                               // credentials only
    case 2: s.add("creds"); s.add("addr 1 " + pr); break;                        // + one candidate, not started
    case 3: s.add("creds"); s.add("addr 1 " + pr); s.add("connect"); break;      // check 0 to peer 1 in flight
    case 4: s.add("creds"); s.add("addr 1 " + pr); s.add("connect");             // peer's request arrived, ours unanswered
            s.add(mk(1, "req", "loc", 5000, !ctl, ctl ? 'd' : 'g', 1853817087ull, 1)); break;
    case 5: s.add("creds"); s.add("addr 1 " + pr); s.add("connect");             // fully connected to the honest peer
            s.add(mk(1, "req", "loc", 5000, !ctl, ctl ? 'd' : 'g', 1853817087ull, 1));
            s.add(mk(1, "rsp", "rem", 0)); break;
    case 6: s.add("creds"); s.add("addr 1 " + pr); s.add("addr 2 " + std::to_string(hostPrio(comp) - 512)); s.add("connect"); s.add("tick"); break;  // two checks in flight
    case 7: s.add("creds"); s.add("addr 1 " + pr); s.add("connect"); s.add("timeout 0"); break;   // the only pair failed
    case 8: s.add("ruser"); s.add("addr 1 " + pr); s.add("connect"); break;      // remote user but NO remote password yet: check 0 in flight
    case 9: s.add("rpass"); s.add("addr 1 " + pr); s.add("connect"); break;      // remote password but no remote user: nothing is sent
    case 11: s.add("creds"); s.add("addr 1 " + pr); s.add("connect"); s.add("rpass2"); break;   // remote password REPLACED while check 0 is in flight
    case 12: s.add("creds"); s.add("addr 1 " + pr); s.add("connect");              // connected, then close()
             s.add(mk(1, "req", "loc", 5000, !ctl, ctl ? 'd' : 'g', 1853817087ull, 1)); s.add(mk(1, "rsp", "rem", 0)); s.add("close"); break;
    case 10: s.add("ruser"); s.add("addr 1 " + pr); s.add("connect"); s.add("rtx 0"); s.add("rpass"); break;   // password arrives after the check started
    }
    return s;
}
static const int kBaseStates = 13;

static std::vector<Dg> reducedAlphabet(bool full)
{
    std::vector<Dg> a;
    const char *clss[] = { "req", "rsp", "err", "ind" };
    const char *mis[] = { "abs", "loc", "rem", "bad", "trunc" };
    for (int src : { 1, 8 })
        for (const char *cls : clss)
            for (const char *mi : mis) {
                const bool isReq = !strcmp(cls, "req") || !strcmp(cls, "ind");
                if (isReq) {
                    for (int uc = 0; uc < 2; uc++)
                        for (char role : { 'n', 'g', 'd' }) {
                            if (!full && ((role == 'n' && uc) || !strcmp(cls, "ind")) && strcmp(mi, "abs")) continue;
                            a.push_back(mk(src, cls, mi, 7000, uc, role, src == 8 ? 1845493759ull : 1853817087ull, src == 1 ? 1 : 2));
                        }
                } else {
                    a.push_back(mk(src, cls, mi, 999));     // the victim's latest transaction id
                    a.push_back(mk(src, cls, mi, 4242));    // a guessed one
                }
            }
    // odd attribute layouts built by hand: MESSAGE-INTEGRITY behind FINGERPRINT (garbage, wrong key, even the right key), bad
    // FINGERPRINT, two MESSAGE-INTEGRITY attributes, unknown attributes in front, MESSAGE-INTEGRITY swallowed by a long length field
    static const char *odd[] = { "fp+bad", "fp+loc", "fp+rem", "fp+trunc", "u+fp+loc", "u+fp+rem", "fpbad+loc", "fpbad+rem", "fp+fp+rem",
                                 "bad+loc", "bad+rem", "loc+bad", "rem+bad", "loc+loc+fp", "rem+rem", "trunc+loc", "trunc+rem", "loc+trunc", "rem+trunc+fp",
                                 "u+loc+fp", "u+u+rem", "u+bad", "sw+loc", "sw+rem", "u+sw+rem+fp", "loc+sw", "rem+sw+fp", "loc+fpbad", "rem+fpbad",
                                 "loc+u+fp", "rem+u+fp", "rem+u+fpbad", "u", "u+fp", "sw", "fpbad", "fp+fpbad+rem",
                                 // USE-CANDIDATE / PRIORITY behind a valid MESSAGE-INTEGRITY (appended by someone without the key) and in front of it
                                 "loc+uc", "loc+uc+fp", "loc+pr4294967295+fp", "loc+uc+pr7+u+fp", "rem+uc+fp", "uc+loc+fp", "pr5+loc", "uc+fp+loc", "bad+uc",
                                 // valid under a remote password that has been replaced (or never was the password)
                                 "old", "old+fp", "u+old" };
    for (int src : { 1, 8 })
        for (const char *cls : clss)
            for (const char *lay : odd) {
                const bool isReq = !strcmp(cls, "req") || !strcmp(cls, "ind");
                if (!full && !strcmp(cls, "ind")) continue;
                if (!full && !strcmp(cls, "err") && src == 1) continue;
                if (isReq) a.push_back(mk(src, cls, lay, 7100, false, 'n', src == 8 ? 1845493759ull : 1853817087ull, src == 1 ? 1 : 0));
                else a.push_back(mk(src, cls, lay, 999));
            }
    a.push_back(mk(8, "req", "abs", 7001, true, 'n', 0xffffffffull, 0, 'o'));
    a.push_back(mk(8, "req", "loc", 7001, false, 'n', 5, 0, 'o'));
    a.push_back(appDg(8, QByteArray::fromHex("80c8000102030405")));
    a.push_back(appDg(1, QByteArray::fromHex("9001")));
    // application payloads that pass peekType()'s size/length test but carry no cookie, and payloads with the cookie that fail the rule
    {
        Rng r2(4711);
        for (int src : { 1, 8 }) {
            for (int size : { 20, 24, 172 }) {
                a.push_back(appDg(src, lookalike(size, 0x00, 0x01, r2)));       // "Binding request"-like first bytes
                a.push_back(appDg(src, lookalike(size, 0x01, 0x01, r2)));       // "Binding response"-like
                a.push_back(appDg(src, rtpPacket(size, unsigned(size - 20), r2)));
            }
            a.push_back(appDg(src, cookieButNotStun(28, false, r2)));
            a.push_back(appDg(src, cookieButNotStun(20, true, r2)));
        }
    }
    return a;
}

static Dg randomDg(Rng &rng, int comp)
{
    static const int srcs[] = { 1, 1, 2, 8, 8, 9 };
    if (rng.below(10) == 0) {
        const unsigned k = rng.below(5);
        const int size = 20 + int(rng.below(60));
        if (k == 0) return appDg(srcs[rng.below(6)], lookalike(size, (unsigned char)rng.below(64), (unsigned char)(1 + rng.below(255)), rng));
        if (k == 1) return appDg(srcs[rng.below(6)], rtpPacket(size, unsigned(size - 20), rng));
        if (k == 2) return appDg(srcs[rng.below(6)], cookieButNotStun(size, rng.coin(), rng));
        QByteArray p(1 + rng.below(24), '\0');
        for (auto &c : p) c = char(rng.below(256));
        p[0] = char(0x80 | (unsigned char)p[0]);
        return appDg(srcs[rng.below(6)], p);
    }
    Dg d;
    d.src = srcs[rng.below(6)];
    static const char *clss[] = { "req", "req", "req", "rsp", "rsp", "err", "ind" };
    d.cls = clss[rng.below(7)];
    d.method = rng.below(10) == 0 ? 'o' : 'b';
    const bool isReq = d.cls == "req" || d.cls == "ind";
    const char *valid = isReq ? "loc" : "rem", *other = isReq ? "rem" : "loc";
    unsigned r = rng.below(100);
    d.mi = layoutOf(r < 25 ? "abs" : r < 55 ? valid : r < 65 ? other : r < 85 ? "bad" : "trunc");
    if (rng.below(4) == 0) {
        // a random layout of 1..5 integrity-relevant attributes in any order
        static const char *toks[] = { "loc", "rem", "bad", "trunc", "old", "fp", "fp", "fpbad", "u", "uc", "sw" };
        std::string l;
        const int n = 1 + rng.below(5);
        for (int i = 0; i < n; i++) { if (i) l += "+"; const unsigned k = rng.below(13); l += (k >= 11 ? valid : toks[k]); }
        d.mi = l;
    }
    if (isReq) d.txid = 1000 + rng.below(100000);
    else d.txid = rng.below(10) < 7 ? 999 : (rng.coin() ? rng.below(3) : 1000 + rng.below(100000));
    d.uc = rng.coin();
    static const char roles[] = { 'n', 'n', 'g', 'd' };
    d.role = roles[rng.below(4)];
    static const unsigned long long prios[] = { 0, 1, 100, 1845493759ull, 0xffffffffull };
    unsigned pr = rng.below(8);
    d.prio = pr < 5 ? prios[pr] : pr == 5 ? hostPrio(comp) : pr == 6 ? rfcCandidatePriority(110, 65535, comp) : rng.next() & 0xffffffffull;
    d.user = rng.below(3);
    return d;
}

static void part1(const Args &a, Rng &rng)
{
    const bool thorough = a.tier == "thorough";
    const int comps[] = { 1, 2, 256 };
    // ---- corpus: the minimized witnesses of the defect fixed by repo commit f41aa68 first (must stay inert)
    sample("take-over witness (controlled component): creds; dg 8 req b 1000 abs uc=1 (no MESSAGE-INTEGRITY, unknown port); dg 8 rsp b <id of the triggered check> abs; send: ended in connected() to the stranger before repo commit f41aa68, must stay inert");
    for (int ctl = 0; ctl < 2; ctl++) {
        Scenario s; s.ctl = ctl; s.comp = 1;
        s.add(mk(8, "req", "abs", 1000, false, 'n', 12345));                    // idle component, no credentials: response + learned candidate
        runScenario(s, rng);
        Scenario h; h.ctl = ctl; h.comp = 1;
        h.add("creds");
        h.add(mk(8, "req", "abs", 1000, !ctl, 'n', 12345));                     // → response, peer-reflexive pair, triggered check 0 to the attacker
        h.add(mk(8, "rsp", "abs", 0));                                          // → pair succeeded (+ nominated/selected/connected)
        h.add("send 80aabbcc");
        runScenario(h, rng);
    }
    // ---- every single datagram of the reduced alphabet from every base state
    std::vector<Dg> alpha = reducedAlphabet(thorough);
    stat("alphabet", (long long)alpha.size());
    for (int b = 0; b < kBaseStates; b++)
        for (int ctl = 0; ctl < 2; ctl++)
            for (const Dg &d : alpha) {
                Scenario s = baseState(b, ctl, comps[(b + ctl) % 3]);
                s.add(d);
                if (b != 12) s.add("tick"); else s.add("send 8001");
                runScenario(s, rng);
            }
    // ---- every sequence of length `depth` over a small alphabet (datagrams + timer/time-out operations) from three base states
    {
        struct Sym { std::string op; Dg d; };
        std::vector<Sym> small;
        auto D = [&](const Dg &d) { small.push_back({ "dg", d }); };
        D(mk(8, "req", "abs", 7000, false)); D(mk(8, "req", "abs", 7001, true));
        D(mk(8, "rsp", "abs", 999)); D(mk(8, "err", "abs", 999));
        D(mk(8, "req", "bad", 7002, true)); D(mk(8, "rsp", "trunc", 999)); D(mk(8, "req", "rem", 7003, true));
        D(mk(1, "req", "loc", 7004, true, 'n', 1853817087ull, 1)); D(mk(1, "req", "loc", 7005, false, 'n', 1853817087ull, 1));
        D(mk(1, "rsp", "rem", 999)); D(mk(1, "err", "rem", 999)); D(mk(1, "rsp", "abs", 999));
        D(mk(8, "req", "fp+bad", 7006, true)); D(mk(8, "rsp", "fp+rem", 999)); D(mk(1, "rsp", "sw+rem", 999)); D(mk(8, "req", "u+fp+loc", 7007, false));
        D(mk(1, "req", "loc+uc+fp", 7008, false, 'n', 1853817087ull, 1));
        small.push_back({ "rtx 0", Dg() });
        small.push_back({ "tick", Dg() }); small.push_back({ "timeout 0", Dg() }); small.push_back({ "timeout 1", Dg() }); small.push_back({ "connect", Dg() });
        const int depth = thorough ? 3 : 2;
        std::vector<int> idx(depth, 0);
        for (int b : thorough ? std::vector<int>{ 1, 3, 8 } : std::vector<int>{ 1, 2, 3, 8 })
            for (int ctl = 0; ctl < 2; ctl++) {
                std::fill(idx.begin(), idx.end(), 0);
                while (true) {
                    Scenario s = baseState(b, ctl, comps[(b + ctl) % 3]);
                    for (int k : idx) { if (small[k].op == "dg") s.add(small[k].d); else s.add(small[k].op); }
                    runScenario(s, rng);
                    stat("depth_sequences");
                    int k = depth - 1;
                    while (k >= 0 && ++idx[k] == (int)small.size()) idx[k--] = 0;
                    if (k < 0) break;
                }
            }
        stat("exhaustive_depth", depth); stat("small_alphabet", (long long)small.size());
    }
    // ---- an attacker datagram at every point of an honest negotiation played by the harness
    std::vector<Dg> att;
    for (const Dg &d : alpha) if (d.src == 8 && !d.app && (thorough || (!d.authentic() && (d.plain() || d.mi.rfind("fp+", 0) == 0 || d.mi.rfind("sw+", 0) == 0)))) att.push_back(d);
    for (int ctl = 0; ctl < 2; ctl++)
        for (int order = 0; order < 2; order++) {
            const int comp = comps[(ctl + order) % 3];
            std::vector<std::pair<std::string, Dg>> honest;
            honest.push_back({ "creds", Dg() });
            honest.push_back({ "addr 1 " + std::to_string(hostPrio(comp)), Dg() });
            honest.push_back({ "connect", Dg() });
            Dg preq = mk(1, "req", "loc", 5000, !ctl, ctl ? 'd' : 'g', rfcCandidatePriority(110, 65535, comp), 1);
            Dg prsp = mk(1, "rsp", "rem", 0);
            if (order == 0) { honest.push_back({ "dg", preq }); honest.push_back({ "dg", prsp }); }
            else { honest.push_back({ "dg", prsp }); honest.push_back({ "dg", preq }); }
            honest.push_back({ "send 80010203", Dg() });
            honest.push_back({ "dg", appDg(1, QByteArray::fromHex("8105060708090a")) });
            for (size_t pos = 0; pos <= honest.size(); pos++)
                for (size_t k = 0; k < att.size(); k++) {
                    if (!thorough && (k + pos) % 2) continue;
                    Scenario s; s.ctl = ctl; s.comp = comp;
                    s.ops.assign(honest.begin(), honest.begin() + pos);
                    s.add(att[k]);
                    s.ops.insert(s.ops.end(), honest.begin() + pos, honest.end());
                    runScenario(s, rng);
                    stat("interleaved_scenarios");
                }
        }
    // ---- STUN-server discovery: every sequence of length 2 (3) over the server-path alphabet, 1 and 2 servers configured —
    // including the two inputs that left a deleted transaction registered before repo commit d3fbd07: a success response
    // without mapped address, and one reporting an address that is already a local candidate.
    {
        std::vector<Dg> sv;
        auto S = [&](int src, const char *cls, const char *lay, unsigned long long tx, char method = 'b') { Dg d = mk(src, cls, lay, tx, false, 'n', 0, 0, method); d.mapped = -1; sv.push_back(d); };
        S(5, "rsp", "fp", 500); S(8, "rsp", "-", 500); S(6, "rsp", "fp", 501); S(9, "rsp", "bad+fp", 501);
        S(5, "err", "fp", 500); S(8, "err", "-", 501); S(5, "req", "fp", 500); S(8, "ind", "-", 500);
        S(8, "rsp", "trunc", 500); S(8, "rsp", "fpbad", 500); S(8, "rsp", "sw", 501); S(5, "rsp", "fp", 500, 'o');
        S(8, "rsp", "fp", 4242); S(8, "req", "-", 500);
        { Dg d = mk(5, "rsp", "fp", 500); d.mapped = 0; sv.push_back(d); }                       // no mapped address
        { Dg d = mk(6, "rsp", "fp", 501); d.mapped = 0; sv.push_back(d); }
        { Dg d = mk(5, "rsp", "fp", 500); d.mapped = 60; sv.push_back(d); }                      // both servers report the same address
        { Dg d = mk(6, "rsp", "fp", 501); d.mapped = 60; sv.push_back(d); }
        const int depth = thorough ? 3 : 2;
        for (int nst = 1; nst <= 2; nst++)
            for (int tail = 0; tail < 2; tail++) {
                std::vector<int> idx(depth, 0);
                while (true) {
                    Scenario s; s.ctl = tail; s.comp = comps[nst % 3]; s.stun = nst;
                    for (int k : idx) s.add(sv[k]);
                    // the peer side works as usual next to it
                    s.add("creds"); s.add("addr 1 " + std::to_string(hostPrio(s.comp))); s.add("connect");
                    if (tail) { s.add(mk(1, "req", "loc", 5000, !s.ctl, s.ctl ? 'd' : 'g', 1853817087ull, 1)); s.add(mk(1, "rsp", "rem", 0)); }
                    { Dg late = mk(8, "rsp", "-", 500); late.mapped = -1; s.add(late); }
                    runScenario(s, rng);
                    stat("stun_server_sequences");
                    int k = depth - 1;
                    while (k >= 0 && ++idx[k] == (int)sv.size()) idx[k--] = 0;
                    if (k < 0) break;
                }
            }
    }
    // ---- tampering with GENUINE messages: someone on the path (no password) appends attributes behind the MESSAGE-INTEGRITY of an
    // authentic request/response (recomputing the FINGERPRINT, which needs no key).  Those bytes are not covered by the HMAC, so
    // the component must behave exactly as for the untampered message: the whole negotiation is run twice on the real component,
    // with and without the appended attributes, and every observation must coincide (model-independent differential oracle).
    {
        static const char *trailers[] = { "uc", "pr4294967295", "uc+pr1", "u", "bad", "uc+u+pr2130706431" };
        for (int ctl = 0; ctl < 2; ctl++)
            for (int script = 0; script < 3; script++)
                for (int where = 0; where < 2; where++)
                    for (const char *tr : trailers)
                        for (int withFp = 0; withFp < 2; withFp++) {
                            const int comp = comps[(ctl + script) % 3];
                            std::vector<std::string> logs[2];
                            for (int tampered = 0; tampered < 2; tampered++) {
                                auto lay = [&](const char *valid, bool here) {
                                    return std::string(valid) + (tampered && here ? std::string("+") + tr : std::string()) + (withFp ? "+fp" : "");
                                };
                                Scenario s; s.ctl = ctl; s.comp = comp;
                                s.add("creds"); s.add("addr 1 " + std::to_string(hostPrio(comp)));
                                // the peer nominates regularly: its first check carries no USE-CANDIDATE
                                Dg req1 = mk(1, "req", lay("loc", where == 0).c_str(), 5000, false, ctl ? 'd' : 'g', rfcCandidatePriority(110, 65535, comp), 1);
                                Dg rsp = mk(1, "rsp", lay("rem", where == 1).c_str(), 0);
                                Dg req2 = mk(1, "req", lay("loc", false).c_str(), 5001, !ctl, ctl ? 'd' : 'g', rfcCandidatePriority(110, 65535, comp), 1);
                                if (script == 0) { s.add("connect"); s.add(req1); s.add(rsp); s.add(req2); }
                                else if (script == 1) { s.add(req1); s.add("connect"); s.add(rsp); s.add(req2); }   // triggered-check path
                                else { s.add("connect"); s.add(rsp); s.add(req1); s.add(req2); }
                                s.add("send 80010203"); s.add("tick");
                                logs[tampered] = runScenario(s, rng);
                            }
                            stat("tamper_twin_runs");
                            if (logs[0] == logs[1]) oraclePass()++;
                            else {
                                size_t k = 0; while (k < logs[0].size() && k < logs[1].size() && logs[0][k] == logs[1][k]) k++;
                                oracleFail("C15:unprotected-attribute-after-mi-has-effect",
                                           "ctl=" + std::to_string(ctl) + " comp=" + std::to_string(comp) + " script=" + std::to_string(script) + " appended '" + tr + "' behind the valid MESSAGE-INTEGRITY of the " +
                                           (where == 0 ? "request" : "response") + (withFp ? " (+FINGERPRINT)" : "") + ": operation #" + std::to_string(k) + " observed [" + (k < logs[1].size() ? logs[1][k] : "-") +
                                           "] instead of [" + (k < logs[0].size() ? logs[0][k] : "-") + "]");
                            }
                        }
    }
    // ---- seeded random sequences over the full alphabet
    const int nrand = thorough ? 8000 : 1500;
    for (int i = 0; i < nrand; i++) {
        Scenario s; s.ctl = rng.coin(); s.comp = comps[rng.below(3)];
        s.stun = rng.below(4) == 0 ? 1 + rng.below(2) : 0;
        const int len = 3 + rng.below(thorough ? 22 : 12);
        bool connectDone = false, closed = false;
        for (int j = 0; j < len; j++) {
            unsigned r = rng.below(100);
            if (closed) {   // after close() only datagrams and sendDatagram are exercised
                if (r < 30) { QByteArray p(1 + rng.below(6), '\x80'); s.add(std::string("send ") + p.toHex().constData()); }
                else s.add(randomDg(rng, s.comp));
                continue;
            }
            if (j > 2 && rng.below(60) == 0) { s.add("close"); closed = true; continue; }
            if (rng.below(50) == 0) { s.add("rpass2"); continue; }
            if (s.stun && rng.below(6) == 0) {
                static const char *lays[] = { "-", "fp", "bad", "fpbad", "trunc" };
                static const char *clss[] = { "rsp", "rsp", "rsp", "err", "req" };
                static const int srcs[] = { 5, 6, 8, 9 };
                Dg d = mk(srcs[rng.below(4)], clss[rng.below(5)], lays[rng.below(5)], 500 + rng.below(2));
                { const unsigned mm = rng.below(6); d.mapped = mm == 0 ? 0 : mm == 1 ? 60 : -1; }   // none / a fixed (possibly repeated) address / a fresh one
                s.add(d); continue;
            }
            if (r < 5) s.add("creds");
            else if (r < 7) s.add("ruser");
            else if (r < 8) s.add("rpass");
            else if (r >= 96) s.add("rtx " + std::to_string(rng.below(3)));
            else if (r < 18) {
                static const unsigned long long deltas[] = { 0, 0, 512, 1ull << 24, 2130706000ull };
                s.add("addr " + std::to_string(rng.coin() ? 1 : 2 + 6 * (rng.below(8) == 0)) + " " + std::to_string(hostPrio(s.comp) - deltas[rng.below(5)]));
            } else if (r < 26 && !connectDone) { s.add("connect"); connectDone = true; }
            else if (r < 34) s.add("tick");
            else if (r < 39) s.add("timeout " + std::to_string(rng.below(3)));
            else if (r < 44) { QByteArray p(1 + rng.below(6), '\x80'); s.add(std::string("send ") + p.toHex().constData()); }
            else s.add(randomDg(rng, s.comp));
        }
        if (i < 3) { std::string t; for (auto &o : s.ops) t += (o.first == "dg" ? o.second.str() : o.first) + "; "; sample(t); }
        runScenario(s, rng, 1 + rng.below(4));
    }
    stat("random_sequences", nrand);
}

// ---------------------------------------------------------------------------------------------- part 2: two real agents
struct Proxy {
    QUdpSocket sock;
    quint16 portA = 0, portB = 0;
    std::set<int> drop;       // indices (per direction+kind) of first transmissions to lose: 0 A→B request, 1 B→A request, 2 A→B response, 3 B→A response
    int seenKind[4] = { 0, 0, 0, 0 };
    long long relayed = 0, dropped = 0;
    Proxy() { sock.bind(QHostAddress(LOOP), 0); QObject::connect(&sock, &QUdpSocket::readyRead, [this]() { relay(); }); }
    void relay()
    {
        while (sock.hasPendingDatagrams()) {
            QByteArray b(int(sock.pendingDatagramSize()), '\0');
            QHostAddress h; quint16 p = 0;
            sock.readDatagram(b.data(), b.size(), &h, &p);
            const bool fromA = p == portA;
            if (!fromA && p != portB) continue;
            quint32 cookie = 0; QByteArray id;
            quint16 type = QXmppStunMessage::peekType(b, cookie, id);
            if (type && cookie == MAGIC) {
                const int kind = ((type & 0x0100) ? 2 : 0) + (fromA ? 0 : 1);
                if (seenKind[kind]++ == 0 && drop.count(kind)) { dropped++; continue; }
            }
            relayed++;
            sock.writeDatagram(b, QHostAddress(LOOP), fromA ? portB : portA);
        }
    }
};

struct PairCase {
    bool ctlA = true, ctlB = false;
    int comp = 1;
    int nAddrA = 1, nAddrB = 1;
    bool reverseCands = false;
    bool viaProxy = false;
    std::set<int> drop;
    int attack = 0;          // 0 none, 1 forged (wrong key / truncated / wrong class key), 2 additionally without MESSAGE-INTEGRITY
    bool bConnectsFirst = false;
    bool gap = false;        // let the first agent's check arrive before the second one calls connectToHost (triggered-check path)
    std::string str() const
    {
        std::string d; for (int k : drop) d += std::to_string(k);
        return "pair ctlA=" + std::to_string(ctlA) + " ctlB=" + std::to_string(ctlB) + " comp=" + std::to_string(comp) + " addrs=" + std::to_string(nAddrA) + "/" + std::to_string(nAddrB) +
            " rev=" + std::to_string(reverseCands) + " proxy=" + std::to_string(viaProxy) + " drop=" + (d.empty() ? "-" : d) + " attack=" + std::to_string(attack) + " bfirst=" + std::to_string(bConnectsFirst) + " gap=" + std::to_string(gap);
    }
};

static QList<QHostAddress> addrList(int n) { QList<QHostAddress> l; for (int i = 0; i < n; i++) l << QHostAddress(QStringLiteral("127.0.0.%1").arg(1 + i)); return l; }

static bool runPairOnce(const PairCase &pc, Rng &rng, int deadlineMs, bool finalAttempt)
{
    bool timingMiss = false;
    drainAll();
    const std::string name = pc.str();
    printf("I %s\n", name.c_str()); fflush(stdout);
    Agent A(pc.ctlA, pc.comp, addrList(pc.nAddrA)), B(pc.ctlB, pc.comp, addrList(pc.nAddrB));
    Proxy proxy;
    A.conn->setRemoteUser(B.conn->localUser()); A.conn->setRemotePassword(B.conn->localPassword());
    B.conn->setRemoteUser(A.conn->localUser()); B.conn->setRemotePassword(A.conn->localPassword());
    auto candsA = A.conn->localCandidates(), candsB = B.conn->localCandidates();
    for (const auto *ag : { &A, &B })
        for (const auto &c : ag->conn->localCandidates()) {
            if (c.type() == QXmppJingleCandidate::HostType && (unsigned long long)(quint32)c.priority() == rfcCandidatePriority(126, 65535, pc.comp) && c.component() == pc.comp) oraclePass()++;
            else oracleFail("C15:candidate-priority-not-rfc", name);
        }
    if (pc.reverseCands) { std::reverse(candsA.begin(), candsA.end()); std::reverse(candsB.begin(), candsB.end()); }
    if (pc.viaProxy) {
        // both sides are told that the other one lives at the proxy's address
        proxy.portA = A.port(); proxy.portB = B.port(); proxy.drop = pc.drop;
        QXmppJingleCandidate c = candsB[0]; c.setPort(proxy.sock.localPort()); c.setHost(QHostAddress(LOOP)); A.conn->addRemoteCandidate(c);
        c = candsA[0]; c.setPort(proxy.sock.localPort()); c.setHost(QHostAddress(LOOP)); B.conn->addRemoteCandidate(c);
    } else {
        for (const auto &c : candsB) A.conn->addRemoteCandidate(c);
        for (const auto &c : candsA) B.conn->addRemoteCandidate(c);
    }
    // the attacker knows addresses and user names (they travel in signalling and in every check) but no password
    QUdpSocket *X = gSock[2];
    long long attackerGot = 0, attackerGotAfterNoMi = 0, sentForged = 0, sentNoMi = 0;
    auto attackRound = [&](bool allowNoMi) {
        if (!pc.attack) return;
        for (Agent *t : { &A, &B }) {
            Creds c; c.localUser = t->conn->localUser(); c.localPw = QStringLiteral("attacker-does-not-know-it");
            c.remoteUser = (t == &A ? B : A).conn->localUser(); c.remotePw = QStringLiteral("attacker-does-not-know-that-either");
            static const char *mis[] = { "bad", "trunc", "rem", "loc", "fp+bad", "fp+loc", "fp+rem", "u+fp+trunc", "sw+loc", "fpbad+rem" };
            Dg d = mk(8, rng.coin() ? "req" : "rsp", mis[rng.below(10)], 1000 + rng.below(1000), rng.coin(), "ngd"[rng.below(3)], rng.next() & 0xffffffffull, rng.below(3));
            if (d.authentic()) d.mi = "bad+fp";   // "loc"/"rem" are computed with the attacker's made-up passwords anyway: forged under a wrong key
            QList<QByteArray> none;
            X->writeDatagram(forge(d, c, none, QHostAddress(LOOP), t->port(), rng), QHostAddress(LOOP), t->port());
            sentForged++;
            if (allowNoMi && pc.attack == 2) {
                Dg n = mk(8, "req", "abs", 3000 + rng.below(1000), rng.coin(), 'n', rng.next() & 0xffffffffull, rng.below(3));
                X->writeDatagram(forge(n, c, none, QHostAddress(LOOP), t->port(), rng), QHostAddress(LOOP), t->port());
                sentNoMi++;
            }
        }
    };
    auto drainAttacker = [&](bool afterNoMi) {
        while (X->hasPendingDatagrams()) { char ch; X->readDatagram(&ch, 1); attackerGot++; if (afterNoMi) attackerGotAfterNoMi++; }
    };
    attackRound(false); pump(3); drainAttacker(false);
    const long long gotBeforeNoMi = attackerGot;
    if (pc.bConnectsFirst) { B.conn->connectToHost(); attackRound(true); if (pc.gap) pump(6); A.conn->connectToHost(); }
    else { A.conn->connectToHost(); attackRound(true); if (pc.gap) pump(6); B.conn->connectToHost(); }
    QElapsedTimer el; el.start();
    const bool conflict = pc.ctlA == pc.ctlB;
    int rounds = 0;
    while (el.elapsed() < (conflict ? 150 : deadlineMs)) {
        pump(1);
        if ((++rounds % 16) == 0) attackRound(true);
        drainAttacker(true);
        if (!conflict && A.conn->isConnected() && B.conn->isConnected()) break;
        QThread::usleep(200);
    }
    pump(3); drainAttacker(true);
    const bool both = A.conn->isConnected() && B.conn->isConnected();
    stat("pair_cases");
    stat("pair_connect_ms_total", el.elapsed());
    if (conflict) {
        // both agents claim the same role (glare): the property quantifies over all role assignments, RFC 5245 7.1.2.2 / 7.2.1.1 resolve the
        // conflict with the tie-breaker (487 + role switch); QXmpp drops every such check with "Role conflict" and answers nothing, so
        // the two honest agents never connect (known finding, recorded)
        stat(both ? "role_conflict_connected" : "role_conflict_not_connected");
        const bool warned = A.warns.contains(QStringLiteral("rc")) || B.warns.contains(QStringLiteral("rc"));
        if (warned) stat("role_conflict_warned");
        if (both) oraclePass()++;
        else oracleFail("C15:role-conflict-never-connects", name + ": two honest agents with exchanged credentials and candidates, both " + (pc.ctlA ? "controlling" : "controlled") +
                        "; after both connectToHost() and " + std::to_string(el.elapsed()) + " ms neither is connected (A=" + std::to_string(A.conn->isConnected()) + " B=" + std::to_string(B.conn->isConnected()) +
                        "), 'Role conflict' warned=" + std::to_string(warned) + ", every check dropped unanswered");
    } else {
        if (both && A.sig == 1 && B.sig == 1) oraclePass()++;
        else if (!finalAttempt && A.sig <= 1 && B.sig <= 1) timingMiss = true;   // judged only if it happens again on the immediate retry
        else oracleFail(pc.attack == 2 ? "C15:honest-pair-not-connected-under-no-mi-attack" : "C15:honest-pair-not-connected", name + " A=" + std::to_string(A.conn->isConnected()) + "/" + std::to_string(A.sig) + " B=" + std::to_string(B.conn->isConnected()) + "/" + std::to_string(B.sig));
    }
    // forged traffic (it carries some MESSAGE-INTEGRITY) never gets an answer
    if (pc.attack == 1 || pc.attack == 2) {
        if (gotBeforeNoMi == 0 && (pc.attack == 1 ? attackerGot == 0 : true)) oraclePass()++;
        else oracleFail("C15:forged-datagram-answered", name);
        if (pc.attack == 2 && attackerGotAfterNoMi > 0) oracleFail("C15:binding-request-without-mi-processed", name + " attacker received " + std::to_string(attackerGotAfterNoMi) + " datagrams");
        stat("pair_forged_sent", sentForged); stat("pair_nomi_sent", sentNoMi);
    }
    // application datagrams both ways, byte for byte
    if (both && !conflict) {
        static const int sizes[] = { 1, 2, 19, 20, 21, 28, 100, 512, 1200, 1472, 8000 };
        for (int k = 0; k < 4; k++) {
            QByteArray p(sizes[rng.below(11)], '\0');
            for (auto &c : p) c = char(rng.below(256));
            Agent &from = (k % 2) ? B : A, &to = (k % 2) ? A : B;
            to.app.clear();
            const qint64 w = from.comp->sendDatagram(p);
            QElapsedTimer e2; e2.start();
            while (to.app.isEmpty() && e2.elapsed() < (finalAttempt ? 20000 : 5000)) { pump(1); QThread::usleep(100); }
            // with attack == 2 the "connected" peer may be the attacker (known finding): then the datagram goes astray
            if (w == p.size() && to.app.size() == 1 && to.app[0] == p) { oraclePass()++; stat("payload_bytes_echoed", p.size()); }
            else if (!finalAttempt && w == p.size() && to.app.isEmpty()) timingMiss = true;   // nothing arrived in time: retried
            else oracleFail(pc.attack == 2 ? "C15:application-datagram-lost-under-no-mi-attack" : "C15:application-datagram-not-carried-unchanged", name + " size " + std::to_string(p.size()) + " delivered " + std::to_string(to.app.size()));
        }
        // structured payloads in both directions: everything that is NOT a STUN message by the RFC 5389 rule must arrive byte for byte
        {
            std::vector<QByteArray> battery;
            static int pairNo = 0;
            const bool full = pairNo++ < 3;
            for (int size = 20; size <= 200; size += full ? 1 : 17) {
                static const unsigned char firsts[][2] = { { 0x00, 0x01 }, { 0x01, 0x01 }, { 0x01, 0x11 }, { 0x00, 0x11 }, { 0x3f, 0xff }, { 0x00, 0x03 } };
                const auto &f = firsts[rng.below(6)];
                battery.push_back(lookalike(size, f[0], f[1], rng));
            }
            for (unsigned seq = 148; seq <= 156; seq++) battery.push_back(rtpPacket(172, seq, rng));        // G.711 stream across sequence number 152
            for (unsigned seq : { 65534u, 65535u, 0u, 1u }) battery.push_back(rtpPacket(20, seq, rng));        // header-only packets across sequence number 0
            for (unsigned seq = 10; seq <= 14; seq++) battery.push_back(rtpPacket(32, seq, rng));
            for (int k = 0; k < 4; k++) { battery.push_back(cookieButNotStun(20 + int(rng.below(100)), false, rng)); battery.push_back(cookieButNotStun(20 + int(rng.below(100)), true, rng)); }
            int misses = 0;
            for (size_t k = 0; k < battery.size() && misses < 3 && !timingMiss; k++)
                for (int dir = 0; dir < 2; dir++) {
                    const QByteArray &p = battery[k];
                    if (isStunByRule(p)) { stat("battery_payload_is_stun_by_rule"); continue; }
                    Agent &from = dir ? B : A, &to = dir ? A : B;
                    to.app.clear();
                    const qint64 w = from.comp->sendDatagram(p);
                    QElapsedTimer e2; e2.start();
                    while (to.app.isEmpty() && e2.elapsed() < (finalAttempt ? 5000 : 1500)) { pump(1); if (to.app.isEmpty()) QThread::usleep(50); }
                    stat("battery_payloads");
                    if (w == p.size() && to.app.size() == 1 && to.app[0] == p) oraclePass()++;
                    else if (!finalAttempt && w == p.size() && to.app.isEmpty()) { timingMiss = true; break; }   // judged on the immediate retry
                    else { misses++; oracleFail(to.app.isEmpty() ? "C15:application-datagram-not-delivered" : "C15:application-datagram-not-carried-unchanged",
                                    name + (dir ? " B->A " : " A->B ") + std::to_string(p.size()) + " bytes " + p.left(24).toHex().constData() + (p.size() > 24 ? "..." : "")); }
                }
        }
        // a payload that is itself a well-formed STUN message is demultiplexed as STUN (RFC 5245 / 7983 by design): recorded only
        QXmppStunMessage sm; sm.setType(QXmppStunMessage::Binding | QXmppStunMessage::Indication); sm.setId(fakeTxid(77));
        B.app.clear();
        A.comp->sendDatagram(sm.encode(QByteArray(), false));
        pump(4);
        stat(B.app.isEmpty() ? "stun_shaped_payload_not_delivered" : "stun_shaped_payload_delivered");
    }
    if (pc.viaProxy) { stat("proxy_relayed", proxy.relayed); stat("proxy_dropped", proxy.dropped); }
    A.conn->close(); B.conn->close();
    pump(2);
    drainAll();
    return timingMiss;
}

// Real timers: on a heavily loaded machine a deadline can be missed without anything being wrong.  A missed deadline is
// reported as a statistic and the same case is repeated at once with much longer deadlines; only if it misses again it is an
// oracle failure.  (Safety expectations — forged traffic unanswered — do not depend on time and are judged on every attempt.)
static void runPair(const PairCase &pc, Rng &rng, int deadlineMs)
{
    if (!runPairOnce(pc, rng, deadlineMs, false)) return;
    stat("pair_deadline_missed_retried");
    printf("X note: deadline missed once (machine load?), case repeated: %s\n", pc.str().c_str());
    runPairOnce(pc, rng, 4 * deadlineMs, true);
}

static void part2(const Args &a, Rng &rng)
{
    const bool thorough = a.tier == "thorough";
    const int comps[] = { 1, 2, 256 };
    // one candidate each, the second agent starts only after the first one's check has arrived (triggered-check path decides)
    for (int roles = 0; roles < 2; roles++)
        for (int bfirst = 0; bfirst < 2; bfirst++) {
            PairCase pc; pc.ctlA = roles == 0; pc.ctlB = !pc.ctlA; pc.comp = comps[(roles + bfirst) % 3]; pc.bConnectsFirst = bfirst; pc.gap = true; pc.attack = bfirst;
            runPair(pc, rng, 10000);
        }
    // direct, lossless: all role assignments × candidate counts/orders × who starts × attack
    int n = 0;
    for (int roles = 0; roles < 4; roles++)
        for (int na = 1; na <= 2; na++)
            for (int nb = 1; nb <= 2; nb++)
                for (int rev = 0; rev < 2; rev++)
                    for (int bfirst = 0; bfirst < 2; bfirst++) {
                        if (!thorough && ((na + nb + rev + bfirst + roles) % 2)) continue;
                        PairCase pc; pc.ctlA = roles == 0 || roles == 2; pc.ctlB = roles == 1 || roles == 2;
                        pc.comp = comps[n % 3]; pc.nAddrA = na; pc.nAddrB = nb; pc.reverseCands = rev; pc.bConnectsFirst = bfirst;
                        pc.attack = n % 3 == 2 ? 0 : 1;
                        pc.gap = (n / 2) % 2;
                        runPair(pc, rng, 10000);
                        n++;
                    }
    // integrity-less requests in the two-agent setting as well (was the known finding before repo commit f41aa68)
    { PairCase pc; pc.attack = 2; runPair(pc, rng, 10000); pc.ctlA = false; pc.ctlB = true; runPair(pc, rng, 10000); }
    // loss of first transmissions (real retransmission timers: ~0.5 s each)
    std::vector<std::set<int>> subsets;
    for (int m = 0; m < 16; m++) { std::set<int> s; for (int k = 0; k < 4; k++) if (m & (1 << k)) s.insert(k); subsets.push_back(s); }
    int nloss = thorough ? 32 : 5;
    for (int i = 0; i < nloss; i++) {
        PairCase pc; pc.viaProxy = true;
        pc.drop = thorough ? subsets[i % 16] : subsets[(i == 0) ? 0 : 1 + rng.below(15)];
        pc.ctlA = thorough ? (i < 16) : rng.coin(); pc.ctlB = !pc.ctlA;
        pc.comp = comps[i % 3]; pc.attack = i % 2; pc.bConnectsFirst = rng.coin(); pc.gap = rng.coin();
        runPair(pc, rng, 15000);
        stat("loss_cases");
    }
}

// (Fixed by repo commit d3fbd07; the probes stay as regression tests.)
// Two STUN servers that report the SAME reflexive address (the normal case behind one NAT), or a success response without a mapped
// address: QXmppIceComponent::transactionFinished returned early and left the transaction — which it has just scheduled for
// deletion — registered in stunTransactions.  Consequences: (1) gathering never completes; (2) the next STUN message of any kind
// makes handleDatagram call request() on the deleted object (heap-use-after-free).  (1) is checked in-process without touching
// the dangling entry; (2) in a child process, because it is undefined behaviour (the sanitizer aborts the child).
static bool stunDiscoveryScenario(Rng &rng, bool thenAnyStunMessage)
{
    drainAll();
    Victim v(false, 1, rng, 2);
    v.ag.clear(); v.settle();
    if (v.stx[0].isEmpty() || v.stx[1].isEmpty()) return true;
    for (int k = 0; k < 2; k++) {
        Dg d = mk(5 + k, "rsp", "fp", 500 + k); d.mapped = 60;      // both servers: "you are 10.0.0.60:4060"
        gSock[4 + k]->writeDatagram(forge(d, v.creds, v.vtx, QHostAddress(LOOP), v.ag.port(), rng, v.stx), QHostAddress(LOOP), v.ag.port());
        v.ag.clear(); v.settle();
    }
    const bool complete = v.ag.conn->gatheringState() == QXmppIceConnection::CompleteGatheringState;
    if (thenAnyStunMessage) {
        Dg q = mk(8, "req", "-", 7000);
        gSock[2]->writeDatagram(forge(q, v.creds, v.vtx, QHostAddress(LOOP), v.ag.port(), rng, v.stx), QHostAddress(LOOP), v.ag.port());
        v.settle();
    }
    return complete;
}

static void stunDiscoveryDefect(const char *argv0, Rng &rng)
{
    const std::string replay = "2 STUN servers configured; server 1 answers XOR-MAPPED-ADDRESS 10.0.0.60:4060; server 2 answers the same address";
    if (stunDiscoveryScenario(rng, false)) oraclePass()++;
    else oracleFail("C15:stun-discovery-never-completes", replay + " => gathering state stays 'gathering', the finished transaction stays registered");
    fflush(stdout);
    const std::string cmd = std::string(argv0) + " --mode uafprobe >/dev/null 2>&1";
    const int st = system(cmd.c_str());
    stat("uafprobe_status", st);
    if (st == 0) oraclePass()++;
    else oracleFail("C15:stun-discovery-use-after-free", replay + "; then any STUN message arrives => child process ended abnormally (status " + std::to_string(st) +
                    "): handleDatagram dereferences the deleted transaction");
}

int main(int argc, char **argv)
{
    QCoreApplication app(argc, argv);
    Args a = parseArgs(argc, argv);
    for (int i = 0; i < NSOCK; i++) { gSock[i] = new QUdpSocket; if (!gSock[i]->bind(QHostAddress(LOOP), 0)) { fprintf(stderr, "cannot bind\n"); return 3; } }
    gMarker = new QUdpSocket; gMarker->bind(QHostAddress(LOOP), 0);
    Rng rng(a.seed);
    if (a.mode == "uafprobe") { stunDiscoveryScenario(rng, true); return 0; }
    if (a.mode != "pairs") stunDiscoveryDefect(argv[0], rng);
    QElapsedTimer el; el.start();
    if (a.mode != "pairs") part1(a, rng);
    stat("part1_ms", el.elapsed());
    el.restart();
    if (a.mode != "model") part2(a, rng);
    stat("part2_ms", el.elapsed());
    finish();
    return 0;
}
