// C18 harness: drives the real QXmppAtmManager + QXmppAtmTrustMemoryStorage registered with a QXmppClient that
// has an own JID.  Operations: setSecurityPolicy, QXmppTrustManager::setTrustLevel (seeding levels the key store /
// UI would set), the public manual QXmppAtmManager::makeTrustDecisions, and received trust messages (a real
// QXmppMessage with QXmppTrustMessageElement / QXmppTrustMessageKeyOwner, serialised to XML and parsed back, the
// sender key conveyed through QXmppE2eeMetadata like the decryption layer does; any message type; sometimes duplicated) fed to
// handleMessage() directly or through QXmppClient::messageReceived.
// After EVERY step all trust levels and all held-back ("postponed") decisions of both encryption namespaces are
// read back through the storage API and printed canonically together with the trustLevelsChanged emissions.
// The property oracle below is written from the property text and keeps its own books; it never looks at the model.
#include "common.h"
#include "QXmppAtmManager.h"
#include "QXmppAtmTrustMemoryStorage.h"
#include "QXmppCarbonManager.h"
#include "QXmppClient.h"
#include "QXmppConfiguration.h"
#include "QXmppE2eeMetadata.h"
#include "QXmppLogger.h"
#include "QXmppMessage.h"
#include "QXmppTask.h"
#include "QXmppPromise.h"
#include "QXmppTrustMessageElement.h"
#include "QXmppTrustMessageKeyOwner.h"
#include <QCoreApplication>
#include <QDomDocument>
#include <QXmlStreamWriter>
#include <algorithm>
#include <set>
#include <sstream>
#include <tuple>

using namespace vh;
using QXmpp::TrustLevel;

static const int NENC = 2, NACC = 3, NKEY = 5;  // key 0 = empty key id (message without E2EE metadata)
enum { L_UNDECIDED = 0, L_AUTODIS = 1, L_MANDIS = 2, L_AUTOTRUST = 3, L_MANTRUST = 4, L_AUTH = 5 };

static QString encNs(int e) { return e == 0 ? QStringLiteral("eu.siacs.conversations.axolotl") : e == 1 ? QStringLiteral("urn:xmpp:openpgp:0") : QStringLiteral("urn:enc:%1").arg(e); }
static QString acct(int a) { return QStringLiteral("a%1@x.org").arg(a); }
static QString resName(int r) { return QStringLiteral("r%1").arg(r); }
static QByteArray keyBytes(int k) { if (k == 0) return QByteArray(); QByteArray b("\x01key-"); b.append(char('0' + k)); b.append('\xfe'); return b; }
static int keyIndex(const QByteArray &b) { for (int k = 0; k < 10; k++) if (keyBytes(k) == b) return k; return 99; }
static int acctIndex(const QString &j) { for (int a = 0; a < 10; a++) if (acct(a) == j) return a; return 99; }
static TrustLevel lvlOf(int d) {
    switch (d) { case 1: return TrustLevel::AutomaticallyDistrusted; case 2: return TrustLevel::ManuallyDistrusted; case 3: return TrustLevel::AutomaticallyTrusted;
                 case 4: return TrustLevel::ManuallyTrusted; case 5: return TrustLevel::Authenticated; default: return TrustLevel::Undecided; }
}
static int digitOf(TrustLevel l) {
    switch (l) { case TrustLevel::Undecided: return 0; case TrustLevel::AutomaticallyDistrusted: return 1; case TrustLevel::ManuallyDistrusted: return 2;
                 case TrustLevel::AutomaticallyTrusted: return 3; case TrustLevel::ManuallyTrusted: return 4; case TrustLevel::Authenticated: return 5; }
    return 9;
}

struct KO { int jid; std::vector<int> tr, di; };
struct Op {
    enum Kind { Pol, Seed, Man, Msg } kind = Pol;
    int enc = 0;
    int pol = 0;                         // Pol
    int o = 0, k = 0, lvl = 0;           // Seed / Man (o)
    std::vector<int> a, d;               // Man
    int acc = 0, res = 0, sk = 0, usage = 0;  // Msg; res 9 = bare JID, usage 0 = ATM, 1 = other usage, 2 = no trust-message element
    std::string flags;                   // Msg, optional: g = type groupchat, h = headline, n = normal, e = error; s = delivered through QXmppClient::messageReceived
    std::vector<KO> owners;
};

static std::string listText(const std::vector<int> &l) {
    if (l.empty()) return "-";
    std::string s; for (size_t i = 0; i < l.size(); i++) { if (i) s += ","; s += std::to_string(l[i]); } return s;
}
static std::string opText(const Op &op) {
    std::ostringstream os;
    switch (op.kind) {
    case Op::Pol: os << "pol " << op.enc << " " << op.pol; break;
    case Op::Seed: os << "seed " << op.enc << " " << op.o << " " << op.k << " " << op.lvl; break;
    case Op::Man: os << "man " << op.enc << " " << op.o << " " << listText(op.a) << " " << listText(op.d); break;
    case Op::Msg:
        os << "msg " << op.enc << " " << op.acc << " " << op.res << " " << op.sk << " " << op.usage << " ";
        if (op.owners.empty()) os << "-";
        for (size_t i = 0; i < op.owners.size(); i++) { if (i) os << ";"; os << op.owners[i].jid << ":" << listText(op.owners[i].tr) << ":" << listText(op.owners[i].di); }
        if (!op.flags.empty()) os << " " << op.flags;
        break;
    }
    return os.str();
}
static std::vector<int> parseList(const std::string &s) {
    std::vector<int> r; if (s == "-") return r;
    std::istringstream is(s); std::string t; while (std::getline(is, t, ',')) r.push_back(atoi(t.c_str())); return r;
}
static Op parseOp(const std::string &line) {
    std::istringstream is(line); std::string w; is >> w; Op op;
    if (w == "pol") { op.kind = Op::Pol; is >> op.enc >> op.pol; }
    else if (w == "seed") { op.kind = Op::Seed; is >> op.enc >> op.o >> op.k >> op.lvl; }
    else if (w == "man") { op.kind = Op::Man; std::string a, d; is >> op.enc >> op.o >> a >> d; op.a = parseList(a); op.d = parseList(d); }
    else if (w == "msg") {
        op.kind = Op::Msg; std::string owners; is >> op.enc >> op.acc >> op.res >> op.sk >> op.usage >> owners; is >> op.flags;
        if (owners != "-") {
            std::istringstream os(owners); std::string item;
            while (std::getline(os, item, ';')) {
                size_t p1 = item.find(':'), p2 = item.find(':', p1 + 1);
                KO ko; ko.jid = atoi(item.substr(0, p1).c_str()); ko.tr = parseList(item.substr(p1 + 1, p2 - p1 - 1)); ko.di = parseList(item.substr(p2 + 1));
                op.owners.push_back(ko);
            }
        }
    } else { fprintf(stderr, "bad op text: %s\n", line.c_str()); exit(3); }
    return op;
}

typedef std::tuple<int, int, int, int> PEntry;  // sender key, owner, key, verdict
struct Snap {
    std::map<std::pair<int, int>, int> lv;   // stored keys only
    std::set<PEntry> pp;
    int level(int o, int k) const { auto it = lv.find({ o, k }); return it == lv.end() ? L_UNDECIDED : it->second; }
    bool holds(int sk, int o, int k) const { return pp.count(PEntry(sk, o, k, 0)) || pp.count(PEntry(sk, o, k, 1)); }
    bool operator==(const Snap &x) const { return lv == x.lv && pp == x.pp; }
};

// oracle's own record of a decision it saw being sent by a not yet authenticated sender
struct Pending { int sacc, sk, owner, key, trust; bool stale = false; };

class tst_QXmppAtmManager  // the library declares this class name a friend of QXmppAtmManager
{
public:
    QXmppClient *client; QXmppLogger *logger; QXmppAtmTrustMemoryStorage *storage; QXmppAtmManager *manager;
    QObject ctx;
    std::vector<std::string> emissions; std::set<int> touchedIds; int emissionEncBad = 0; long sentMessages = 0;
    int own = 0, ownRes = 0;
    // oracle books (per encryption)
    int policy[NENC]; std::vector<Pending> pending[NENC]; std::vector<Pending> discarded[NENC];
    std::map<int, std::set<int>> idAccounts[NENC]; bool shared[NENC];   // which accounts each key ID has been used with in this sequence
    std::vector<std::string> history; int curEnc = 0;
    std::string prevText; bool prevAuthd = false, prevConsumed = false;
    std::map<std::string, int> failCount;

    tst_QXmppAtmManager() {
        client = new QXmppClient; logger = new QXmppLogger; storage = new QXmppAtmTrustMemoryStorage; manager = new QXmppAtmManager(storage);
        client->addExtension(manager);
        auto *carbons = new QXmppCarbonManager; carbons->setCarbonsEnabled(true); client->addExtension(carbons);
        logger->setLoggingType(QXmppLogger::SignalLogging); client->setLogger(logger);
        QObject::connect(logger, &QXmppLogger::message, &ctx, [this](QXmppLogger::MessageType t, const QString &) { if (t == QXmppLogger::SentMessage) sentMessages++; });
        QObject::connect(manager, &QXmppTrustManager::trustLevelsChanged, &ctx, [this](const QHash<QString, QMultiHash<QString, QByteArray>> &mod) {
            std::vector<std::pair<int, int>> v;
            for (auto it = mod.constBegin(); it != mod.constEnd(); ++it) {
                if (it.key() != encNs(curEnc)) emissionEncBad++;
                for (auto jt = it.value().constBegin(); jt != it.value().constEnd(); ++jt) { v.push_back({ acctIndex(jt.key()), keyIndex(jt.value()) }); touchedIds.insert(keyIndex(jt.value())); }
            }
            std::sort(v.begin(), v.end());
            std::string s; for (size_t i = 0; i < v.size(); i++) { if (i) s += ","; s += std::to_string(v[i].first) + ":" + std::to_string(v[i].second); }
            emissions.push_back(s);
        });
    }

    template<typename T> static T done(QXmppTask<T> t) {
        if (!t.isFinished()) { fprintf(stderr, "task not finished synchronously\n"); exit(4); }
        return t.takeResult();
    }
    static void doneVoid(QXmppTask<void> t) { if (!t.isFinished()) { fprintf(stderr, "void task not finished synchronously\n"); exit(4); } }

    Snap snap(int e) {
        Snap s;
        auto all = done(storage->keys(encNs(e)));
        for (auto it = all.constBegin(); it != all.constEnd(); ++it)
            for (auto jt = it.value().constBegin(); jt != it.value().constEnd(); ++jt) {
                auto key = std::make_pair(acctIndex(jt.key()), keyIndex(jt.value()));
                if (s.lv.count(key)) { fprintf(stderr, "duplicate stored key\n"); exit(5); }
                s.lv[key] = digitOf(it.key());
            }
        size_t n = 0;
        for (int sk = 0; sk < NKEY; sk++) {
            auto r = done(storage->keysForPostponedTrustDecisions(encNs(e), { keyBytes(sk) }));
            for (auto it = r.constBegin(); it != r.constEnd(); ++it)
                for (auto jt = it.value().constBegin(); jt != it.value().constEnd(); ++jt) { s.pp.insert(PEntry(sk, acctIndex(jt.key()), keyIndex(jt.value()), it.key() ? 1 : 0)); n++; }
        }
        auto r = done(storage->keysForPostponedTrustDecisions(encNs(e), {}));
        size_t total = 0; for (auto it = r.constBegin(); it != r.constEnd(); ++it) total += it.value().size();
        if (total != n) { fprintf(stderr, "postponed read-back incomplete: %zu vs %zu\n", total, n); exit(5); }
        return s;
    }
    static std::string snapText(const Snap &s) {
        std::string t = "t=";
        bool first = true;
        for (auto &kv : s.lv) { if (!first) t += ","; first = false; t += std::to_string(kv.first.first) + ":" + std::to_string(kv.first.second) + "=" + std::to_string(kv.second); }
        t += " p="; first = true;
        for (auto &e : s.pp) { if (!first) t += ","; first = false; t += std::to_string(std::get<0>(e)) + ">" + std::to_string(std::get<1>(e)) + ":" + std::to_string(std::get<2>(e)) + (std::get<3>(e) ? "+" : "-"); }
        return t;
    }

    void reset(int ownAcc, int res) {
        own = ownAcc; ownRes = res;
        for (int e = 0; e < NENC; e++) { doneVoid(storage->resetAll(encNs(e))); policy[e] = 0; pending[e].clear(); discarded[e].clear(); idAccounts[e].clear(); shared[e] = false; }
        client->configuration().setJid(acct(own) + "/" + resName(ownRes));
        for (int e = 0; e < NENC; e++) { Snap s = snap(e); if (!s.lv.empty() || !s.pp.empty()) { fprintf(stderr, "resetAll left data behind\n"); exit(5); } }
        history.clear(); prevText.clear();
        corr("reset " + std::to_string(own) + " " + std::to_string(ownRes), "ok");
    }

    QXmppMessage buildMessage(const Op &op) {
        QXmppMessage m;
        m.setFrom(op.res == 9 ? acct(op.acc) : acct(op.acc) + "/" + resName(op.res));
        for (char f : op.flags) { if (f == 'g') m.setType(QXmppMessage::GroupChat); if (f == 'h') m.setType(QXmppMessage::Headline); if (f == 'n') m.setType(QXmppMessage::Normal); if (f == 'e') m.setType(QXmppMessage::Error); }
        m.setTo(acct(own) + "/" + resName(ownRes));
        if (op.usage != 2) {
            QXmppTrustMessageElement el;
            el.setUsage(op.usage == 0 ? QStringLiteral("urn:xmpp:atm:1") : QStringLiteral("urn:example:other-usage"));
            el.setEncryption(encNs(op.enc));
            QList<QXmppTrustMessageKeyOwner> kos;
            for (auto &ko : op.owners) {
                QXmppTrustMessageKeyOwner k; k.setJid(acct(ko.jid));
                QList<QByteArray> tr, di; for (int x : ko.tr) tr << keyBytes(x); for (int x : ko.di) di << keyBytes(x);
                k.setTrustedKeys(tr); k.setDistrustedKeys(di); kos << k;
            }
            el.setKeyOwners(kos);
            m.setTrustMessageElement(el);
        } else m.setBody(QStringLiteral("hello"));
        // through the wire format and back (src/base/QXmppTrustMessages.cpp)
        QByteArray xml; { QXmlStreamWriter w(&xml); m.toXml(&w); }
        QDomDocument doc; if (!doc.setContent(xml, true)) { fprintf(stderr, "serialised message does not parse\n"); exit(6); }
        QXmppMessage parsed; parsed.parse(doc.documentElement());
        if (op.sk != 0) { QXmppE2eeMetadata md; md.setSenderKey(keyBytes(op.sk)); parsed.setE2eeMetadata(md); }
        return parsed;
    }

    std::string hist() const { std::string h; for (auto &s : history) { h += s; h += "; "; } return h; }
    static std::string recText(const Pending &r) { return "held " + std::to_string(r.sacc) + "/" + std::to_string(r.sk) + ">" + std::to_string(r.owner) + ":" + std::to_string(r.key) + (r.trust ? "+" : "-"); }
    void fail(const std::string &key, const std::string &detail = "") {
        if (failCount[key]++ < 40) { std::string h = detail.empty() ? "" : "[" + detail + "] "; oracleFail(key, h + "@reset " + std::to_string(own) + " " + std::to_string(ownRes) + "; " + hist()); }
        stat("oracle_fail_" + key);
    }

    // ------------------------------------------------------------------ the property, evaluated on the implementation
    void note(int e, int acc, int k) { auto &st = idAccounts[e][k]; st.insert(acc); if (st.size() > 1) shared[e] = true; }
    void oracle(const Op &op, const Snap &b, const Snap &a) {
        const int e = op.enc;
        if (op.kind == Op::Seed) note(e, op.o, op.k);
        if (op.kind == Op::Man) { for (int k : op.a) note(e, op.o, k); for (int k : op.d) note(e, op.o, k); }
        if (op.kind == Op::Msg && op.usage == 0) { note(e, op.acc, op.sk); for (auto &ko : op.owners) { for (int k : ko.tr) note(e, ko.jid, k); for (int k : ko.di) note(e, ko.jid, k); } }
        auto &P = pending[e];
        std::set<std::pair<int, int>> changed;
        for (int o = 0; o < NACC; o++) for (int k = 0; k < NKEY; k++) if (b.level(o, k) != a.level(o, k)) changed.insert({ o, k });
        for (auto &kv : a.lv) if (kv.first.first >= NACC || kv.first.second >= NKEY) fail("C18:harness:key-outside-universe");
        const bool atmOp = op.kind == Op::Man || op.kind == Op::Msg;
        if (op.kind != Op::Msg) prevText.clear();

        // Defect fixed in repo commit a532e12 (key C18:cross-owner-key-id stays live): held-back entries filed under a key ID used with two accounts
        // fired for the wrong account.  An out-of-scope change is reported under that key if key IDs are shared in this sequence AND some held-back
        // entry was consumed in this very step, else as a plain scope failure.  Both are violations.
        bool consumed = false;
        for (auto &pe : b.pp) if (!a.pp.count(pe)) consumed = true;

        if (op.kind == Op::Msg) {
            const bool self = op.acc == own && op.res == ownRes;
            const bool shouldProcess = op.usage == 0 && !self;
            const bool authd = b.level(op.acc, op.sk) == L_AUTH;
            // a duplicated / replayed trust message changes nothing (as long as the sender key's status is what it was for the first copy)
            { std::string t = opText(op);
              if (t == prevText && authd == prevAuthd) {
                  if (a == b) { oraclePass()++; stat("replayed_message_idempotent"); }
                  // the first copy made held-back decisions fire; the replay re-asserts the message's own verdicts over them (ATM has no ordering of
                  // trust messages and relies on the replay protection of the end-to-end encryption): counted, not a failure
                  else if (prevConsumed) stat("replayed_message_reasserted_over_fired_decisions");
                  else fail("C18:replay-changes-state");
              }
              prevText = t; prevAuthd = authd; prevConsumed = consumed; }
            stat(self ? "msg_self" : op.usage != 0 ? "msg_not_atm" : authd ? "msg_sender_authenticated" : "msg_sender_unauthenticated");
            if (self) { if (!(a == b)) fail("C18:self-message-not-ignored"); else oraclePass()++; }
            else if (op.usage != 0) { if (!(a == b)) fail("C18:non-atm-message-not-ignored"); else oraclePass()++; }
            // (1) any change needs an authenticated sender key
            if (!changed.empty() && !(shouldProcess && authd)) fail("C18:unauthorized-change"); else oraclePass()++;
            // (2) and stays within the sender's scope
            for (auto &c : changed) {
                if (op.acc == own || c.first == op.acc) { oraclePass()++; continue; }
                if (shared[e] && consumed) { fail("C18:cross-owner-key-id", "level of " + std::to_string(c.first) + ":" + std::to_string(c.second) + " moved by a message from account " + std::to_string(op.acc)); stat("cross_owner_scope_escape"); }
                else fail("C18:scope", std::to_string(c.first) + ":" + std::to_string(c.second));
            }
            // (3) decisions of an unauthenticated sender are held back (in scope) or dropped (out of scope), nothing else is stored
            if (shouldProcess && !authd) {
                for (auto &ko : op.owners) {
                    bool inScope = op.acc == own || ko.jid == op.acc;
                    for (int pass = 0; pass < 2; pass++) for (int k : (pass ? ko.di : ko.tr)) {
                        if (inScope) {
                            if (!a.holds(op.sk, ko.jid, k)) fail("C18:not-held-back"); else oraclePass()++;
                            bool found = false;
                            for (auto &r : P) if (r.sacc == op.acc && r.sk == op.sk && r.owner == ko.jid && r.key == k) { r.trust = pass ? 0 : 1; r.stale = false; found = true; }
                            if (!found) P.push_back({ op.acc, op.sk, ko.jid, k, pass ? 0 : 1 });
                            auto &D = discarded[e];
                            D.erase(std::remove_if(D.begin(), D.end(), [&](const Pending &r) { return r.sk == op.sk && r.owner == ko.jid && r.key == k; }), D.end());
                        } else {
                            bool otherwiseNamed = false;
                            for (auto &ko2 : op.owners) if (ko2.jid == ko.jid && (op.acc == own || ko2.jid == op.acc)) otherwiseNamed = true;
                            if (!otherwiseNamed && a.holds(op.sk, ko.jid, k) && !b.holds(op.sk, ko.jid, k)) fail("C18:out-of-scope-held"); else oraclePass()++;
                        }
                    }
                }
                for (auto &pe : a.pp) if (!b.pp.count(pe)) {
                    bool named = std::get<0>(pe) == op.sk;
                    if (!named) fail("C18:foreign-entry-stored");
                }
                // a decision that the message states only one way is held with that verdict
                for (auto &ko : op.owners) if (op.acc == own || ko.jid == op.acc) for (int pass = 0; pass < 2; pass++) for (int k : (pass ? ko.di : ko.tr)) {
                    bool bothWays = false;
                    for (auto &ko2 : op.owners) if (ko2.jid == ko.jid) for (int k2 : (pass ? ko2.tr : ko2.di)) if (k2 == k) bothWays = true;
                    if (bothWays) continue;
                    if (!a.pp.count(PEntry(op.sk, ko.jid, k, pass ? 0 : 1))) fail("C18:held-with-wrong-verdict"); else oraclePass()++;
                }
            }
            if (shouldProcess && authd) { bool added = false; for (auto &pe : a.pp) if (!b.pp.count(pe)) added = true; if (added) fail("C18:authorised-message-held-back"); else oraclePass()++; }
        }

        // --- held-back decisions: take effect exactly when the sender key becomes authenticated; discarded when it is distrusted.
        // `strict`: so far in this sequence no key ID has been used with two different accounts, so none of the
        // shared-key-ID explanations below is available and every anomaly is a failure.
        const bool strict = !shared[e];
        stat(strict ? "steps_unique_key_ids" : "steps_shared_key_ids");
        std::vector<Pending> keep;
        // a verdict is "contested" in this step if two different verdicts for the same (owner,key) are due at once
        auto contested = [&](const Pending &r) {
            for (auto &q : P) if (&q != &r && q.owner == r.owner && q.key == r.key && q.trust != r.trust) return true;
            if (op.kind == Op::Man && op.o == r.owner) { for (int k : op.a) if (k == r.key) return true; for (int k : op.d) if (k == r.key) return true; }
            if (op.kind == Op::Msg) for (auto &ko : op.owners) if (ko.jid == r.owner) { for (int k : ko.tr) if (k == r.key) return true; for (int k : ko.di) if (k == r.key) return true; }
            return false;
        };
        for (size_t i = 0; i < P.size(); i++) {
            Pending r = P[i];
            // entries added in this very step are checked from the next step on
            bool addedNow = op.kind == Op::Msg && !b.pp.count(PEntry(r.sk, r.owner, r.key, r.trust)) && a.pp.count(PEntry(r.sk, r.owner, r.key, r.trust)) && r.sacc == op.acc && r.sk == op.sk;
            if (addedNow || r.stale) { keep.push_back(r); continue; }
            const bool ab = b.level(r.sacc, r.sk) == L_AUTH, aa = a.level(r.sacc, r.sk) == L_AUTH;
            const bool inLibBefore = b.pp.count(PEntry(r.sk, r.owner, r.key, r.trust)), inLibAfter = a.pp.count(PEntry(r.sk, r.owner, r.key, r.trust));
            const int expected = r.trust ? L_AUTH : L_MANDIS;
            const int got = a.level(r.owner, r.key);
            // a decision about the same key ID (any account) was made in this step, possibly overridden again within the step
            bool sameIdDecided = false, sameKeyDecided = got == expected || ((got == L_AUTH || got == L_MANDIS) && got != b.level(r.owner, r.key));
            for (int acc2 = 0; acc2 < NACC; acc2++) { int la = a.level(acc2, r.key), lb = b.level(acc2, r.key); if (la == expected || ((la == L_AUTH || la == L_MANDIS) && la != lb)) sameIdDecided = true; }
            if (touchedIds.count(r.key)) sameIdDecided = true;   // trustLevelsChanged reported a key with this ID during the step
            if (ab) { r.stale = true; stat("pending_sender_already_authenticated"); keep.push_back(r); continue; }
            if (!inLibBefore) { stat("pending_no_longer_stored"); continue; }   // replaced by a newer verdict of the same sender key ID
            if (aa) {  // the sender key becomes authenticated at this step
                if (!atmOp) { r.stale = true; stat("sender_authenticated_outside_atm"); keep.push_back(r); continue; }
                bool ok = contested(r) ? (got == L_AUTH || got == L_MANDIS) : got == expected;
                // a trusted key may be distrusted later in the same cascade by another fired decision
                if (!ok && r.trust && got == L_MANDIS) { ok = true; stat("fired_then_distrusted_same_step"); }
                if (!ok && !strict && sameIdDecided) { stat("cross_owner_superseded_in_cascade"); fail("C18:cross-account-discard", recText(r)); continue; }
                if (!ok) fail("C18:postponed-not-applied", recText(r) + " got " + std::to_string(got));
                else if (inLibAfter) fail("C18:postponed-not-removed", recText(r));
                else { oraclePass()++; stat("held_decision_fired"); }
                continue;
            }
            // sender key still not authenticated
            const bool senderDistrusted = a.level(r.sacc, r.sk) == L_MANDIS;
            if (senderDistrusted && b.level(r.sacc, r.sk) != L_MANDIS && atmOp) {
                if (inLibAfter) fail("C18:distrust-not-discarded", recText(r)); else { oraclePass()++; stat("held_decision_discarded_by_distrust"); discarded[e].push_back(r); }
                continue;
            }
            if (!inLibAfter) {
                if (senderDistrusted) { stat("held_decision_discarded_sender_distrusted_again"); continue; }
                // the same decision was just made for this very key by someone authorised: this operation itself names the key with that
                // verdict, or another held decision with the same content was consumed because ITS sender key is authenticated now
                bool legit = false;
                if (op.kind == Op::Man && op.o == r.owner) for (int k : (r.trust ? op.a : op.d)) if (k == r.key) legit = true;
                if (op.kind == Op::Msg && (op.acc == own || op.acc == r.owner)) for (auto &ko : op.owners) if (ko.jid == r.owner) for (int k : (r.trust ? ko.tr : ko.di)) if (k == r.key) legit = true;
                for (auto &q : P) if (!(q.sacc == r.sacc && q.sk == r.sk) && q.owner == r.owner && q.key == r.key && q.trust == r.trust && (a.level(q.sacc, q.sk) == L_AUTH || touchedIds.count(q.sk) || a.level(own, q.sk) == L_AUTH || a.level(q.owner, q.sk) == L_AUTH) &&
                                     b.pp.count(PEntry(q.sk, q.owner, q.key, q.trust)) && !a.pp.count(PEntry(q.sk, q.owner, q.key, q.trust))) legit = true;
                if (strict) {
                    // without shared key IDs that is the only legitimate reason
                    if (!sameKeyDecided) fail("C18:held-entry-vanished", recText(r));
                    else if (!legit) fail("C18:fired-without-authenticated-sender", recText(r));
                    else { stat("held_decision_superseded"); oraclePass()++; }
                    continue;
                }
                if (legit && sameKeyDecided) { stat("held_decision_superseded"); oraclePass()++; continue; }
                // Key IDs are shared between accounts in this sequence.  The store files a held decision under the sender's key ID alone, so a
                // decision of (r.sacc, r.sk) can be touched through the same ID of ANOTHER account:
                bool otherAuth = false, otherDisNow = false;
                for (int acc2 = 0; acc2 < NACC; acc2++) if (acc2 != r.sacc) {
                    if (a.level(acc2, r.sk) == L_AUTH) otherAuth = true;
                    // (a fired distrust of an already distrusted key is invisible in the levels and emissions, so the level alone has to do)
                    if (a.level(acc2, r.sk) == L_MANDIS) otherDisNow = true;
                }
                const bool tookEffect = got == expected && b.level(r.owner, r.key) != expected;
                bool newlyAuthInScope = false;   // the sender key ID became authenticated in this step for the own account or for the decision's owner
                for (int acc2 = 0; acc2 < NACC; acc2++) if (acc2 != r.sacc && (acc2 == own || acc2 == r.owner) && a.level(acc2, r.sk) == L_AUTH && b.level(acc2, r.sk) != L_AUTH) newlyAuthInScope = true;
                bool crossSuperseded = false;   // another held decision with the same verdict for the same key ID of ANOTHER owner was consumed in this step
                for (auto &q : P) if (q.key == r.key && q.trust == r.trust && q.owner != r.owner && b.pp.count(PEntry(q.sk, q.owner, q.key, q.trust)) && !a.pp.count(PEntry(q.sk, q.owner, q.key, q.trust))) crossSuperseded = true;
                const bool overwritten = op.kind == Op::Msg && op.sk == r.sk && op.acc != r.sacc && a.pp.count(PEntry(r.sk, r.owner, r.key, !r.trust));
                if (overwritten) stat("cross_owner_overwritten");   // R4: needs two accounts' devices that really share a key pair (sender key IDs are verified by decryption)
                else if ((otherAuth || otherDisNow) && tookEffect) {
                    // R1: the decision fired although ITS sender's key (r.sacc, r.sk) is not authenticated: the key ID is authenticated for another
                    // account.  Tolerated (and counted) exactly when that account could have made the decision itself: the own account, or the
                    // account the decision is about.  Anything else is the defect fixed in a532e12.
                    // (an own key or an own device's message may start a cascade that authenticates keys of several accounts at once; the
                    // re-check is per batch, and whoever started it may decide about every account anyway)
                    bool inScopeOfOther = (op.kind == Op::Msg && op.acc == own) || (op.kind == Op::Man && op.o == own);
                    for (int acc2 = 0; acc2 < NACC; acc2++) if (acc2 != r.sacc && (a.level(acc2, r.sk) == L_AUTH || a.level(acc2, r.sk) == L_MANDIS) && (acc2 == own || acc2 == r.owner)) inScopeOfOther = true;
                    if (inScopeOfOther) stat("fired_by_key_id_other_account");
                    else { stat("cross_owner_fired"); fail("C18:cross-owner-key-id", recText(r)); }
                } else if (got == expected && newlyAuthInScope) {
                    stat("fired_by_key_id_other_account");   // R1 without a visible effect: the key already had the level the decision asks for
                } else if (!crossSuperseded && otherDisNow) {
                    // R3 (fixed in repo commit 845d75c, key C18:cross-account-discard:distrust stays live and UNLISTED): a key with the sender's ID was
                    // distrusted for ANOTHER account and the held decision was thrown away although its own sender key was neither authenticated
                    // nor distrusted.  Tolerated (and counted), as for R1, when the account the ID was distrusted for could have decided about
                    // r's key itself: the own account or the account the decision is about (or the step was started by an own key / own device).
                    bool inScopeOfOther = (op.kind == Op::Msg && op.acc == own) || (op.kind == Op::Man && op.o == own);
                    for (int acc2 = 0; acc2 < NACC; acc2++) if (acc2 != r.sacc && a.level(acc2, r.sk) == L_MANDIS && (acc2 == own || acc2 == r.owner)) inScopeOfOther = true;
                    if (inScopeOfOther) stat("discarded_by_key_id_other_account");
                    // Supersession (the open finding) needs a fired decision with r's verdict for r's key ID; if no key with that ID has r's
                    // verdict or moved in this step it cannot be supersession, so it is the distrust mechanism for sure.
                    else if (!sameIdDecided) { stat("cross_owner_discarded"); fail("C18:cross-account-discard:distrust", recText(r)); }
                    else { stat("cross_owner_superseded_or_discarded"); fail("C18:cross-account-discard", recText(r)); }
                } else if (sameIdDecided || crossSuperseded) {
                    // R2: a fired decision with the same verdict for the same key ID of ANOTHER owner removed it (removal is by verdict and key ID)
                    stat("cross_owner_superseded"); fail("C18:cross-account-discard", recText(r));
                } else if (otherAuth) stat("cross_owner_fired_without_effect");
                else fail("C18:held-entry-vanished", recText(r));
                continue;
            }
            oraclePass()++;  // still held, nothing applied on its behalf is covered by (1)/(2)
            keep.push_back(r);
        }
        P.swap(keep);
        // discarded decisions never come back unless sent again (handled above by erasing from `discarded`)
        for (auto &r : discarded[e]) if (a.pp.count(PEntry(r.sk, r.owner, r.key, r.trust)) && !b.pp.count(PEntry(r.sk, r.owner, r.key, r.trust))) {
            bool resent = op.kind == Op::Msg && op.sk == r.sk;
            if (!resent) fail("C18:discarded-entry-reappeared");
        }

        // --- TOAKAFA / which levels an ATM operation may produce
        if (atmOp) {
            for (auto &c : changed) {
                int nb = b.level(c.first, c.second), na = a.level(c.first, c.second);
                bool ok = na == L_AUTH || na == L_MANDIS || (na == L_AUTODIS && nb == L_AUTOTRUST && policy[e] == 1);
                if (!ok) fail(na == L_AUTODIS ? "C18:auto-distrust-without-policy" : "C18:unexpected-level"); else oraclePass()++;
                if (na == L_AUTODIS) stat("toakafa_auto_distrusted");
            }
            if (policy[e] == 1)
                for (int o = 0; o < NACC; o++) {
                    bool newlyAuth = false; for (int k = 0; k < NKEY; k++) if (b.level(o, k) != L_AUTH && a.level(o, k) == L_AUTH) newlyAuth = true;
                    if (!newlyAuth) continue;
                    bool left = false; for (int k = 0; k < NKEY; k++) if (a.level(o, k) == L_AUTOTRUST) left = true;
                    if (left) fail("C18:toakafa-not-applied"); else oraclePass()++;
                }
        }
        if ((long long)a.pp.size() > stats()["max_postponed_seen"]) stats()["max_postponed_seen"] = a.pp.size();
    }

    void apply(const Op &op) {
        std::string text = opText(op);
        history.push_back(text);
        curEnc = op.enc; emissions.clear(); touchedIds.clear();
        std::vector<Snap> before; for (int e = 0; e < NENC; e++) before.push_back(snap(e));
        switch (op.kind) {
        case Op::Pol: doneVoid(manager->setSecurityPolicy(encNs(op.enc), op.pol ? QXmpp::Toakafa : QXmpp::NoSecurityPolicy)); if (op.enc < NENC) policy[op.enc] = op.pol; stat("op_pol"); break;
        case Op::Seed: { QMultiHash<QString, QByteArray> h; h.insert(acct(op.o), keyBytes(op.k)); doneVoid(manager->QXmppTrustManager::setTrustLevel(encNs(op.enc), h, lvlOf(op.lvl))); stat("op_seed"); break; }
        case Op::Man: { QList<QByteArray> a, d; for (int k : op.a) a << keyBytes(k); for (int k : op.d) d << keyBytes(k);
                        doneVoid(manager->makeTrustDecisions(encNs(op.enc), acct(op.o), a, d)); stat("op_manual"); break; }
        case Op::Msg: { QXmppMessage m = buildMessage(op);
                        if (op.flags.find('s') != std::string::npos) { Q_EMIT client->messageReceived(m); stat("op_message_via_client_signal"); }   // the wiring of onRegistered()
                        else doneVoid(manager->handleMessage(m));
                        stat("op_message"); if (!op.flags.empty()) stat("op_message_with_type_or_route_flag"); break; }
        }
        std::vector<Snap> after; for (int e = 0; e < NENC; e++) after.push_back(snap(e));
        std::string obs;
        for (int e = 0; e < NENC; e++) { obs += "e" + std::to_string(e) + " " + snapText(after[e]) + " "; }
        obs += "chg=";
        for (size_t i = 0; i < emissions.size(); i++) { if (i) obs += "|"; obs += emissions[i]; }
        if (emissionEncBad) { obs += " EMISSION-FOR-OTHER-ENCRYPTION"; emissionEncBad = 0; }
        corr(text, obs);
        if (emissions.size() > 3) stat("steps_with_cascade");
        // oracle
        for (int e = 0; e < NENC; e++) if (e != op.enc && !(before[e] == after[e])) fail("C18:other-encryption-changed");
        if (op.enc < NENC) oracle(op, before[op.enc], after[op.enc]);
    }

    void runSeq(int ownAcc, int res, const std::vector<Op> &ops) {
        { std::string t = "I reset " + std::to_string(ownAcc) + " " + std::to_string(res) + "; "; for (auto &o : ops) t += opText(o) + "; "; puts(t.c_str()); fflush(stdout); }
        reset(ownAcc, res);
        for (auto &op : ops) apply(op);
        stat("sequences");
    }
    void runText(int ownAcc, int res, const std::vector<std::string> &lines) { std::vector<Op> ops; for (auto &l : lines) ops.push_back(parseOp(l)); runSeq(ownAcc, res, ops); }
};

static std::vector<int> randList(Rng &rng, int maxLen, bool allowZeroKey) {
    std::vector<int> l; int n = rng.below(100) < 45 ? 0 : 1 + rng.below(maxLen);
    for (int i = 0; i < n; i++) { int k = 1 + rng.below(NKEY - 1); if (allowZeroKey && rng.below(25) == 0) k = 0; l.push_back(k); }
    return l;
}
static Op randomOp(Rng &rng, int own, int ownRes) {
    Op op; int r = rng.below(100);
    op.enc = rng.below(100) < 85 ? 0 : 1;
    if (r < 5) { op.kind = Op::Pol; op.pol = rng.below(2); }
    else if (r < 15) { op.kind = Op::Seed; op.o = rng.below(NACC); op.k = 1 + rng.below(NKEY - 1); int lv[] = { 3, 3, 3, 1, 4, 0, 2, 5 }; op.lvl = lv[rng.below(8)]; }
    else if (r < 40) {
        op.kind = Op::Man; op.o = rng.below(NACC); op.a = randList(rng, 2, true); op.d = randList(rng, 2, true);
        if (op.a.empty() && op.d.empty()) op.a.push_back(1 + rng.below(NKEY - 1));
    } else {
        op.kind = Op::Msg; op.acc = rng.below(NACC);
        int rr = rng.below(10); op.res = rr < 4 ? ownRes : rr < 9 ? ownRes + 1 : 9;
        op.sk = rng.below(12) == 0 ? 0 : 1 + rng.below(NKEY - 1);
        int u = rng.below(20); op.usage = u == 0 ? 1 : u == 1 ? 2 : 0;
        int n = 1 + rng.below(10) / 6 + (rng.below(10) == 0);
        for (int i = 0; i < n; i++) {
            KO ko; int w = rng.below(10); ko.jid = w < 6 ? op.acc : rng.below(NACC);
            ko.tr = randList(rng, 2, true); ko.di = randList(rng, 2, true);
            if (ko.tr.empty() && ko.di.empty() && rng.below(4)) ko.tr.push_back(1 + rng.below(NKEY - 1));
            op.owners.push_back(ko);
        }
        { int f = rng.below(12); if (f == 0) op.flags = "g"; else if (f == 1) op.flags = "s"; else if (f == 2) { const char *t[] = { "h", "n", "e", "gs" }; op.flags = t[rng.below(4)]; } }
        (void)own;
    }
    return op;
}

static void enumerate(tst_QXmppAtmManager &t, const std::vector<Op> &alpha, int depth, std::vector<Op> &cur) {
    if ((int)cur.size() == depth) {
        for (int pol = 0; pol < 2; pol++) {
            std::vector<Op> ops; Op p; p.kind = Op::Pol; p.enc = 0; p.pol = pol; ops.push_back(p);
            ops.insert(ops.end(), cur.begin(), cur.end());
            t.runSeq(0, 0, ops);
        }
        return;
    }
    for (auto &a : alpha) { cur.push_back(a); enumerate(t, alpha, depth, cur); cur.pop_back(); }
}

int main(int argc, char **argv) {
    QCoreApplication app(argc, argv);
    Args args = parseArgs(argc, argv);
    bool thorough = args.tier == "thorough";
    tst_QXmppAtmManager t;

    // ---- corpus: scripted corners first (own account a0, own resource r0; a1 = contact B, a2 = contact C)
    // witness of the defect fixed in a532e12 (kept first): C's unauthenticated device k1 says "C:k2 is trusted"; B (authenticated by k3) claims key id k1 as its own
    t.runText(0, 0, { "msg 0 2 1 1 0 2:2:-", "man 0 1 3 -", "msg 0 1 1 3 0 1:1:-" });
    t.runText(0, 0, { "msg 0 2 1 1 0 2:1:-", "man 0 1 1 -" });                                  // same, triggered by a manual authentication of B:k1
    t.runText(0, 0, { "msg 0 2 1 1 0 2:-:2", "msg 0 1 1 1 0 1:-:2", "man 0 1 1 -" });            // cross-owner: C's held distrust of C:k2 is dropped when B's fires
    t.runText(0, 0, { "msg 0 2 1 1 0 2:2:-", "man 0 1 - 1" });                                  // cross-owner discard
    t.runText(0, 0, { "msg 0 1 1 1 0 1:2:-", "man 0 1 1 -" });                                  // held back, then fired
    t.runText(0, 0, { "msg 0 1 1 1 0 1:2:-", "man 0 1 - 1", "man 0 1 1 -" });                    // held back, discarded by distrust, never applied
    t.runText(0, 0, { "msg 0 1 1 1 0 1:2:-", "msg 0 1 1 2 0 1:3:-", "msg 0 1 1 3 0 1:4:1", "man 0 1 1 -" });   // cascade k1 → k2 → k3 → k4, distrust k1 at the end
    t.runText(0, 0, { "man 0 1 1 -", "msg 0 1 1 1 0 2:2:-;1:2:-;0:3:-" });                      // scope: only B's keys
    t.runText(0, 0, { "man 0 0 1 -", "msg 0 0 1 1 0 2:2:-;1:2:-;0:3:-" });                      // own device: any account
    t.runText(0, 0, { "man 0 0 1 -", "msg 0 0 0 1 0 2:2:-;1:2:-;0:3:-" });                      // reflected own message: ignored
    t.runText(0, 0, { "man 0 0 1 -", "msg 0 0 9 1 0 1:2:-" });                                  // own bare JID: not this device
    t.runText(0, 0, { "pol 0 1", "seed 0 1 2 3", "seed 0 1 3 3", "seed 0 2 3 3", "man 0 1 1 -" });  // TOAKAFA
    t.runText(0, 0, { "seed 0 1 2 3", "man 0 1 1 -" });                                         // no policy: nothing distrusted
    t.runText(0, 0, { "seed 0 1 1 4", "msg 0 1 1 1 0 1:2:-" });                                 // manually trusted sender key is not enough
    t.runText(0, 0, { "man 0 1 1 -", "msg 0 1 1 1 1 1:2:-", "msg 0 1 1 1 2 1:2:-", "msg 1 1 1 1 0 1:2:-" });  // other usage, no element, other encryption
    t.runText(0, 0, { "msg 0 1 1 0 0 1:2:-", "man 0 1 1 -", "msg 0 1 1 1 0 1:0:-" });            // unencrypted message is held under the empty key id
    t.runText(1, 1, { "man 0 1 1 -", "msg 0 1 0 1 0 2:2:-", "msg 0 1 1 1 0 2:3:-" });            // another own account / resource
    t.runText(0, 0, { "msg 0 1 1 1 0 1:2:2", "man 0 1 1 -" });                                  // same key trusted and distrusted in one message
    t.runText(0, 0, { "msg 0 1 1 1 0 1:2:-", "msg 0 1 1 3 0 1:2:-", "man 0 1 1 -", "man 0 1 - 2", "man 0 1 3 -" });  // superseded held decision

    t.runText(0, 0, { "msg 0 1 1 1 0 1:2:-", "msg 0 1 1 1 0 1:2,3:-" });                        // second message: one key already held, one new
    t.runText(0, 0, { "man 0 1 - 1", "msg 0 1 1 1 0 1:2:-", "man 0 1 1 -" });                    // a distrusted sender is "not authenticated": held, fires if authenticated later
    t.runText(0, 0, { "msg 0 1 1 1 0 1:-:2", "msg 0 1 1 2 0 1:3:-", "man 0 1 1 -" });            // a FIRED distrust of B:k2 discards what B:k2 had sent

    // witness of the defect fixed in 845d75c (key C18:cross-account-discard:distrust): B, authenticated by k3, says "B:k1 distrusted"; what C's device k1 had sent must survive and fire later
    t.runText(0, 0, { "msg 0 2 1 1 0 2:2:-", "man 0 1 3 -", "msg 0 1 1 3 0 1:-:1", "man 0 2 1 -" });
    // open finding C18:cross-account-discard: B's held "B:k2 distrusted" fires (B:k4 authenticated) and removes C's held "C:k2 distrusted" as well; authenticating C:k1 later applies nothing
    t.runText(0, 0, { "msg 0 2 1 1 0 2:-:2", "msg 0 1 1 4 0 1:-:2", "man 0 1 4 -", "man 0 2 1 -" });
    // the same trust message twice, as groupchat, through the client's messageReceived signal; contradicting verdicts; held trust then held distrust from two senders
    t.runText(0, 0, { "man 0 1 1 -", "msg 0 1 1 1 0 1:2:3", "msg 0 1 1 1 0 1:2:3", "msg 0 1 1 1 0 1:4:- g", "msg 0 1 1 1 0 1:-:4 s", "msg 0 1 1 2 0 1:3:3 gs" });
    t.runText(0, 0, { "msg 0 1 1 1 0 1:3:-", "msg 0 1 1 2 0 1:-:3", "man 0 1 1,2 -" });
    t.runText(0, 0, { "msg 0 1 1 1 0 1:3:-", "msg 0 1 1 2 0 1:-:3", "man 0 1 2 -", "man 0 1 1 -" });

    // ---- exhaustive over a compact alphabet, under both policies
    std::vector<std::string> alphaText = {
        "man 0 1 1 -", "man 0 1 2 -", "man 0 0 1 -", "man 0 2 1 -", "man 0 1 - 1", "man 0 0 - 1", "man 0 1 2 1",
        "msg 0 1 1 1 0 1:2:-", "msg 0 1 1 1 0 1:-:2", "msg 0 1 1 2 0 1:3:-", "msg 0 1 1 1 0 2:2:-;1:3:-",
        "msg 0 0 1 1 0 1:1:-;2:2:-", "msg 0 0 1 1 0 0:2:-;1:-:1", "msg 0 0 0 1 0 1:2:-",
        "msg 0 2 1 1 0 2:2:-", "msg 0 2 1 1 0 2:1:-", "msg 0 1 1 3 0 1:1:-", "msg 0 1 1 2 0 1:1:1",
        "seed 0 1 3 3", "seed 0 2 2 3", "msg 0 1 1 1 1 1:2:-", "msg 0 1 1 0 0 1:2:-", "msg 1 1 1 1 0 1:2:-", "seed 0 1 1 5",
    };
    std::vector<Op> alpha; for (auto &s : alphaText) alpha.push_back(parseOp(s));
    int depth = thorough ? 4 : 3;
    std::vector<Op> cur;
    for (int d = 1; d <= depth; d++) enumerate(t, alpha, d, cur);
    stat("exhaustive_depth", depth); stat("alphabet", (long long)alpha.size());

    // ---- seeded random sequences up to depth 30 over the whole universe
    Rng rng(args.seed);
    int nrand = thorough ? 40000 : 2500;
    for (int i = 0; i < nrand; i++) {
        int own = rng.below(10) < 8 ? 0 : rng.below(NACC), ownRes = rng.below(4) == 0 ? 1 : 0;
        int len = 4 + rng.below(27);
        std::vector<Op> ops;
        if (rng.coin()) { Op p; p.kind = Op::Pol; p.enc = 0; p.pol = 1; ops.push_back(p); }
        for (int j = 0; j < len; j++) {
            if (!ops.empty() && ops.back().kind == Op::Msg && rng.below(12) == 0) ops.push_back(ops.back());   // duplicated / replayed message
            else ops.push_back(randomOp(rng, own, ownRes));
        }
        if (i < 3) { std::string s; for (auto &o : ops) s += opText(o) + "; "; sample(s); }
        t.runSeq(own, ownRes, ops);
    }
    stat("random_sequences", nrand);
    stat("sent_trust_messages", t.sentMessages);
    finish();
    return 0;
}
