// C01/C02 tier C harness: schema-driven codecs against the real qxmpp classes.
//
// For every modelled class: a family of canonical values and their documents is obtained from the Lean driver
// (`codec-val`, `codec-gen`); each document is materialised as XML text, parsed by QDomDocument the way qxmpp
// does, handed to the REAL fromDom/parse, serialised by the REAL toXml, and compared with the model
// (`codec-dec`: reported field values, `codec-norm`: output tree, `codec-enc`: toXml of an object built from
// the values).  The same is done for structurally MUTATED documents and for documents of other classes.
// Model-independent oracles: real fixpoint (C02), own-form round trip and field values (C01).
#include "common.h"
#include "xmlcanon.h"

#include "QXmppBindIq.h"
#include "QXmppHash.h"
#include "QXmppJingleData.h"
#include "QXmppMixInvitation.h"
#include "QXmppMucIq.h"
#include "QXmppVCardIq.h"
#include "QXmppDiscoveryIq.h"
#include "QXmppGeolocItem.h"
#include "QXmppIq.h"
#include "QXmppPresence.h"
#include "QXmppMessage.h"
#include "QXmppBitsOfBinaryDataList.h"
#include "QXmppMessageReaction.h"
#include "QXmppFileShare.h"
#include "QXmppFallback.h"
#include "QXmppPubSubEvent.h"
#include "QXmppElement.h"
#include "QXmppRosterIq.h"
#include "QXmppMamIq.h"
#include "QXmppOutOfBandUrl.h"
#include "QXmppPubSubAffiliation.h"
#include "QXmppPubSubSubscription.h"
#include "QXmppPubSubBaseItem.h"
#include "QXmppPubSubIq_p.h"
#include "QXmppDataForm.h"
#include "QXmppResultSet.h"
#include "QXmppTrustMessageElement.h"
#include "QXmppTrustMessageKeyOwner.h"
#include "QXmppUtils.h"
#include "QXmppUtils_p.h"
#include <QDateTime>
#include <QTimeZone>
#include "QXmppIbbIq.h"
#include "QXmppSasl_p.h"
#include "QXmppStanza.h"
#include "QXmppStreamFeatures.h"
#include "QXmppStreamManagement_p.h"
#include "QXmppVersionIq.h"
#include "Stream.h"

#include <QBuffer>
#include <QCoreApplication>
#include <QDir>
#include <QDomDocument>
#include <QXmlStreamWriter>
#include <fstream>
#include <functional>
#include <set>
#include <sstream>

using namespace vh;
using namespace QXmpp::Private;

// ---------------------------------------------------------------- canonical trees
struct Tree {
    bool isText = false;
    QString name;  // element name or text
    std::vector<std::pair<QString, QString>> attrs;
    std::vector<Tree> kids;
};

static std::vector<std::string> tokenize(const std::string &s)
{
    std::vector<std::string> out;
    std::string cur;
    for (char c : s) {
        if (c == '(' || c == ')') { if (!cur.empty()) { out.push_back(cur); cur.clear(); } out.push_back(std::string(1, c)); }
        else if (c == ' ') { if (!cur.empty()) { out.push_back(cur); cur.clear(); } }
        else cur += c;
    }
    if (!cur.empty()) out.push_back(cur);
    return out;
}
static QString unhexQ(const std::string &h) { QByteArray b = unhex(h); return QString::fromUtf8(b.constData(), b.size()); }  // keeps NUL

static bool parseTree(const std::vector<std::string> &t, size_t &i, Tree &out)
{
    if (i + 2 >= t.size() || t[i] != "(") return false;
    if (t[i + 1] == "T") { out.isText = true; out.name = unhexQ(t[i + 2]); i += 3; if (i >= t.size() || t[i] != ")") return false; i++; return true; }
    if (t[i + 1] != "E") return false;
    out.isText = false; out.name = unhexQ(t[i + 2]); i += 3;
    if (i >= t.size() || t[i] != "(") return false;
    i++;
    while (i < t.size() && t[i] == "(") {
        if (i + 3 >= t.size() || t[i + 3] != ")") return false;
        out.attrs.emplace_back(unhexQ(t[i + 1]), unhexQ(t[i + 2])); i += 4;
    }
    if (i >= t.size() || t[i] != ")") return false;
    i++;
    if (i >= t.size() || t[i] != "(") return false;
    i++;
    while (i < t.size() && t[i] == "(") { Tree k; if (!parseTree(t, i, k)) return false; out.kids.push_back(k); }
    if (i >= t.size() || t[i] != ")") return false;
    i++;
    if (i >= t.size() || t[i] != ")") return false;
    i++;
    return true;
}
static bool treeOfCanon(const std::string &s, Tree &out) { auto t = tokenize(s); size_t i = 0; return parseTree(t, i, out) && i == t.size(); }

static void writeTree(QXmlStreamWriter &w, const Tree &t)
{
    if (t.isText) { w.writeCharacters(t.name); return; }
    w.writeStartElement(t.name);
    for (auto &a : t.attrs) {
        if (a.first == "xmlns") w.writeDefaultNamespace(a.second);
        else w.writeAttribute(a.first, a.second);
    }
    for (auto &k : t.kids) writeTree(w, k);
    w.writeEndElement();
}
static QByteArray xmlOfTree(const Tree &t)
{
    QByteArray out; QBuffer buf(&out); buf.open(QIODevice::WriteOnly);
    QXmlStreamWriter w(&buf);
    writeTree(w, t);
    return out;
}
// QDom's view of a document, namespace declarations kept as plain attributes ("none" when not well-formed)
static std::string canonPlain(const QByteArray &xml)
{
    QDomDocument doc;
    if (!doc.setContent(xml, false)) return "none";
    return canonElement(doc.documentElement());
}

// The real toXml output read WITHOUT QDom (which drops whitespace-only text): a reader for exactly QXmlStreamWriter's
// output language (double-quoted attributes, the named entities it emits, decimal/hex character references).
static QString unescapeXml(const QString &s)
{
    QString o; o.reserve(s.size());
    for (int i = 0; i < s.size(); i++) {
        if (s[i] != '&') { o += s[i]; continue; }
        int e = s.indexOf(';', i);
        if (e < 0) { o += s[i]; continue; }
        QString n = s.mid(i + 1, e - i - 1);
        if (n == "lt") o += '<'; else if (n == "gt") o += '>'; else if (n == "amp") o += '&'; else if (n == "quot") o += '"'; else if (n == "apos") o += '\'';
        else if (n.startsWith("#x")) { uint c = n.mid(2).toUInt(nullptr, 16); o += QString::fromUcs4(&c, 1); }
        else if (n.startsWith("#")) { uint c = n.mid(1).toUInt(); o += QString::fromUcs4(&c, 1); }
        else { o += s.mid(i, e - i + 1); }
        i = e;
    }
    return o;
}
static bool readWriterElement(const QString &s, int &i, Tree &out)
{
    if (i >= s.size() || s[i] != '<') return false;
    int j = ++i;
    while (i < s.size() && s[i] != ' ' && s[i] != '>' && s[i] != '/') i++;
    out.isText = false; out.name = s.mid(j, i - j);
    while (i < s.size() && s[i] == ' ') {
        j = ++i;
        while (i < s.size() && s[i] != '=') i++;
        QString an = s.mid(j, i - j);
        if (i + 1 >= s.size() || s[i + 1] != '"') return false;
        j = i + 2; i = s.indexOf('"', j);
        if (i < 0) return false;
        out.attrs.emplace_back(an, unescapeXml(s.mid(j, i - j)));
        i++;
    }
    if (i < s.size() && s[i] == '/') { i += 2; return true; }
    if (i >= s.size() || s[i] != '>') return false;
    i++;
    for (;;) {
        if (i >= s.size()) return false;
        if (s[i] == '<') {
            if (i + 1 < s.size() && s[i + 1] == '/') { i = s.indexOf('>', i); if (i < 0) return false; i++; return true; }
            Tree k; if (!readWriterElement(s, i, k)) return false; out.kids.push_back(k);
        } else {
            j = i; while (i < s.size() && s[i] != '<') i++;
            Tree t; t.isText = true; t.name = unescapeXml(s.mid(j, i - j)); out.kids.push_back(t);
        }
    }
}
static std::string canonOfTree(const Tree &t)
{
    if (t.isText) return "(T " + hexOf(t.name) + ")";
    std::vector<std::pair<std::string, std::string>> as;
    for (auto &a : t.attrs) as.emplace_back(hexOf(a.first), hexOf(a.second));
    std::sort(as.begin(), as.end());
    std::string o = "(E " + hexOf(t.name) + " (";
    for (size_t i = 0; i < as.size(); i++) { if (i) o += " "; o += "(" + as[i].first + " " + as[i].second + ")"; }
    o += ") (";
    bool first = true; QString pending;
    auto flush = [&]() { if (!pending.isEmpty()) { if (!first) o += " "; o += "(T " + hexOf(pending) + ")"; first = false; } pending.clear(); };
    for (auto &k : t.kids) {
        if (k.isText) pending += k.name;
        else { flush(); if (!first) o += " "; o += canonOfTree(k); first = false; }
    }
    flush();
    return o + "))";
}
// namespace-RESOLVED canonical form: every element carries the namespace it is in, xmlns attributes are dropped -- two documents that
// differ only in redundant namespace declarations are the same document
static std::string canonResolved(const Tree &t, const QString &inherited)
{
    if (t.isText) return "(T " + hexOf(t.name) + ")";
    QString ns = inherited;
    for (auto &a : t.attrs) if (a.first == "xmlns") ns = a.second;
    std::vector<std::pair<std::string, std::string>> as;
    for (auto &a : t.attrs) if (a.first != "xmlns") as.emplace_back(hexOf(a.first), hexOf(a.second));
    std::sort(as.begin(), as.end());
    std::string o = "(E " + hexOf(t.name) + "@" + hexOf(ns) + " (";
    for (size_t i = 0; i < as.size(); i++) { if (i) o += " "; o += "(" + as[i].first + " " + as[i].second + ")"; }
    o += ") (";
    bool first = true; QString pending;
    auto flush = [&]() { if (!pending.isEmpty()) { if (!first) o += " "; o += "(T " + hexOf(pending) + ")"; first = false; } pending.clear(); };
    for (auto &k : t.kids) { if (k.isText) pending += k.name; else { flush(); if (!first) o += " "; o += canonResolved(k, ns); first = false; } }
    flush();
    return o + "))";
}
static std::string canonWriterResolved(const QByteArray &xml, const QString &inherited)
{
    QString s = QString::fromUtf8(xml); int i = 0; Tree t;
    if (!readWriterElement(s, i, t) || i != s.size()) return "none";
    return canonResolved(t, inherited);
}
// canonical tree of real toXml output, nothing lost ("none" when it is not in the writer's output language)
// classes that keep a QSet (hash order on output): runs of sibling elements with this tag are sorted by their text (UTF-8 byte
// order = code point order, the order of the model) before comparing -- "up to sibling order"
static QString g_sortTag;
static QString plainText(const Tree &t) { if (t.isText) return t.name; QString o; for (auto &k : t.kids) o += plainText(k); return o; }
static void sortRuns(Tree &t, const QString &tag)
{
    if (t.isText) return;
    for (auto &k : t.kids) sortRuns(k, tag);
    for (size_t i = 0; i < t.kids.size();) {
        size_t j = i;
        while (j < t.kids.size() && !t.kids[j].isText && t.kids[j].name == tag) j++;
        if (j > i + 1) std::stable_sort(t.kids.begin() + i, t.kids.begin() + j, [](const Tree &a, const Tree &b) { return plainText(a).toUtf8() < plainText(b).toUtf8(); });
        i = j > i ? j : i + 1;
    }
}
static std::string canonWriter(const QByteArray &xml)
{
    QString s = QString::fromUtf8(xml); int i = 0; Tree t;
    if (!readWriterElement(s, i, t) || i != s.size()) return "none";
    if (!g_sortTag.isEmpty()) sortRuns(t, g_sortTag);
    return canonOfTree(t);
}

// ---------------------------------------------------------------- value lists (same text form as the driver's showVals)
struct Val {
    char kind = 'A';  // s n b o d A R L
    int dt[7] = { 0, 0, 0, 0, 0, 0, 0 };  // kind d with has: year month day hour minute second msec (UTC)
    QString s; quint64 n = 0; bool b = false; bool has = false;
    std::vector<Val> items;
};
static std::string showVals(const std::vector<Val> &vs);
static std::string showVal(const Val &v)
{
    switch (v.kind) {
    case 's': return "s" + hexOf(v.s);
    case 't': return "t" + hexOf(v.s);   // an uninterpreted child tree, as canonical text
    case 'i': return (v.b ? "i-" : "i") + std::to_string(v.n);   // signed integer: b = negative
    case 'n': return "n" + std::to_string(v.n);
    case 'b': return v.b ? "b1" : "b0";
    case 'o': return v.has ? "o" + std::to_string(v.n) : "o-";
    case 'd': {
        if (!v.has) return "d-";
        std::string o = "d";
        for (int i = 0; i < 7; i++) { if (i) o += "/"; o += std::to_string(v.dt[i]); }
        return o;
    }
    case 'R': return "R( " + showVals(v.items) + " )";
    case 'L': return "L( " + showVals(v.items) + " )";
    default: return "A";
    }
}
static std::string showVals(const std::vector<Val> &vs)
{
    if (vs.empty()) return ".";
    std::string o;
    for (size_t i = 0; i < vs.size(); i++) { if (i) o += " "; o += showVal(vs[i]); }
    return o;
}
static bool parseVals(const std::vector<std::string> &t, size_t &i, std::vector<Val> &out)
{
    while (i < t.size() && t[i] != ")") {
        const std::string &k = t[i];
        Val v;
        if (k == ".") { i++; continue; }
        if (k == "A") { v.kind = 'A'; i++; }
        else if (k == "R(" || k == "L(") { v.kind = k[0]; i++; if (!parseVals(t, i, v.items)) return false; if (i >= t.size() || t[i] != ")") return false; i++; }
        else if (k[0] == 's') { v.kind = 's'; v.s = unhexQ(k.substr(1)); i++; }
        else if (k[0] == 't') { v.kind = 't'; v.s = unhexQ(k.substr(1)); i++; }
        else if (k[0] == 'i') { v.kind = 'i'; v.b = k.size() > 1 && k[1] == '-'; v.n = strtoull(k.c_str() + (v.b ? 2 : 1), nullptr, 10); i++; }
        else if (k[0] == 'n') { v.kind = 'n'; v.n = strtoull(k.c_str() + 1, nullptr, 10); i++; }
        else if (k == "b0" || k == "b1") { v.kind = 'b'; v.b = k == "b1"; i++; }
        else if (k == "o-") { v.kind = 'o'; v.has = false; i++; }
        else if (k[0] == 'o') { v.kind = 'o'; v.has = true; v.n = strtoull(k.c_str() + 1, nullptr, 10); i++; }
        else if (k == "d-") { v.kind = 'd'; v.has = false; i++; }
        else if (k[0] == 'd') {
            v.kind = 'd'; v.has = true;
            if (sscanf(k.c_str() + 1, "%d/%d/%d/%d/%d/%d/%d", &v.dt[0], &v.dt[1], &v.dt[2], &v.dt[3], &v.dt[4], &v.dt[5], &v.dt[6]) != 7) return false;
            i++;
        }
        else return false;
        out.push_back(v);
    }
    return true;
}
static std::vector<std::string> splitBlank(const std::string &s)
{
    std::vector<std::string> o; std::istringstream is(s); std::string w;
    while (is >> w) o.push_back(w);
    return o;
}
static bool valsOfText(const std::string &s, std::vector<Val> &out) { auto t = splitBlank(s); size_t i = 0; return parseVals(t, i, out) && i == t.size(); }

static Val vS(const QString &s) { Val v; v.kind = 's'; v.s = s; return v; }
static Val vN(quint64 n) { Val v; v.kind = 'n'; v.n = n; return v; }
static Val vB(bool b) { Val v; v.kind = 'b'; v.b = b; return v; }
static Val vO(bool has, quint64 n = 0) { Val v; v.kind = 'o'; v.has = has; v.n = n; return v; }
static Val vA() { return Val(); }
static Val vI(qint64 x) { Val v; v.kind = 'i'; v.b = x < 0; v.n = quint64(x < 0 ? -x : x); return v; }
static qint64 intOfVal(const Val &v) { return v.b ? -qint64(v.n) : qint64(v.n); }
// a QDateTime as the class can print it: nothing for an invalid one or one datetimeToString() renders as ""
static Val vD(const QDateTime &t)
{
    Val v; v.kind = 'd';
    if (!t.isValid() || QXmppUtils::datetimeToString(t).isEmpty()) return v;
    QDateTime u = t.toUTC();
    v.has = true;
    v.dt[0] = u.date().year(); v.dt[1] = u.date().month(); v.dt[2] = u.date().day();
    v.dt[3] = u.time().hour(); v.dt[4] = u.time().minute(); v.dt[5] = u.time().second(); v.dt[6] = u.time().msec();
    return v;
}
static QDateTime dateOf(const Val &v)
{
    if (!v.has) return QDateTime();
    return QDateTime(QDate(v.dt[0], v.dt[1], v.dt[2]), QTime(v.dt[3], v.dt[4], v.dt[5], v.dt[6]), Qt::UTC);
}
static Val vR(std::vector<Val> items) { Val v; v.kind = 'R'; v.items = std::move(items); return v; }
static Val vL(std::vector<Val> items) { Val v; v.kind = 'L'; v.items = std::move(items); return v; }
using Vals = std::vector<Val>;

// a string of the value is non-empty and consists of whitespace only: the property excludes it ("non-blank")
static bool hasBlank(const Vals &vs)
{
    for (auto &v : vs) {
        if (v.kind == 's' && !v.s.isEmpty() && v.s.trimmed().isEmpty()) return true;
        if ((v.kind == 'R' || v.kind == 'L') && hasBlank(v.items)) return true;
    }
    return false;
}
// path of the first difference ("" when equal)
static std::string diffPath(const Vals &a, const Vals &b, const std::vector<std::string> *names, bool inList = false)
{
    for (size_t i = 0; i < std::max(a.size(), b.size()); i++) {
        // positions inside a repeated part are not part of the key (the same cause at item 0 and item 2 is one finding)
        std::string here = names && i < names->size() ? (*names)[i] : inList ? std::string("*") : std::to_string(i);
        if (i >= a.size() || i >= b.size()) return here;
        if (showVal(a[i]) == showVal(b[i])) continue;
        if (a[i].kind == b[i].kind && (a[i].kind == 'R' || a[i].kind == 'L')) return here + "." + diffPath(a[i].items, b[i].items, nullptr, a[i].kind == 'L');
        return here;
    }
    return "";
}

// ---------------------------------------------------------------- the real classes
template<class T> static QByteArray ser(const T &o)
{
    QByteArray out; QBuffer buf(&out); buf.open(QIODevice::WriteOnly);
    QXmlStreamWriter w(&buf);
    o.toXml(&w);
    return out;
}
template<class T> struct Open : T {  // IQ payload codecs are protected virtuals
    using T::parseElementFromChild;
    using T::toXmlElementFromChild;
};
template<class T> static QByteArray serPayload(const Open<T> &o)
{
    QByteArray out; QBuffer buf(&out); buf.open(QIODevice::WriteOnly);
    QXmlStreamWriter w(&buf);
    o.toXmlElementFromChild(&w);
    return out;
}

// set by a class's run() when the parsed object is in a state the schema does not describe (the document is then
// left out of the correspondence; the model-independent oracles still run on it)
static bool g_outsideModel = false;
// set by a class's run() when the object is in a state with a KNOWN cause of a fixpoint failure: appended to the oracle key
static std::string g_failHint;

struct ClassEntry {
    std::string name;
    std::string cxx;           // the C++ toXml definition the entry exercises, when several entries share one (variants of one class)
    bool iqPayload = false;
    bool streamChild = false;
    QString sortTag;           // see g_sortTag
    bool hasRest = false;      // keeps unknown children as QXmppElement (schema field `rest`): see restHazard()
    QByteArray wrapNs;         // parsed as the child of an element in this namespace (the class reads its own namespaceURI())
    QString skipRootTag;       // documents whose root element has this name are outside the class's model  // parsed as a child of <stream:stream> (prefix `stream` bound there)
    std::vector<std::string> fieldNames;
    // real parse + serialize + field report; false = rejected by the class's own type check
    std::function<bool(const QDomElement &, QByteArray &, Vals &)> run;
    // object from values (through the real setters), serialized; also what the object reports before serialization
    std::function<QByteArray(const Vals &, Vals &)> build;
};

static Vals smEnableVals(const SmEnable &o) { return { vB(o.resume), vN(o.max) }; }
static SmEnable smEnableOf(const Vals &v) { SmEnable o; o.resume = v.at(0).b; o.max = v.at(1).n; return o; }
static Vals smEnabledVals(const SmEnabled &o) { return { vB(o.resume), vS(o.id), vN(o.max), vS(o.location) }; }
static SmEnabled smEnabledOf(const Vals &v) { SmEnabled o; o.resume = v.at(0).b; o.id = v.at(1).s; o.max = v.at(2).n; o.location = v.at(3).s; return o; }
static Vals smFailedVals(const SmFailed &o) { return { o.error ? vO(true, quint64(int(*o.error))) : vO(false), o.h ? vO(true, *o.h) : vO(false) }; }
static SmFailed smFailedOf(const Vals &v) { SmFailed o; if (v.at(0).has) o.error = QXmppStanza::Error::Condition(int(v.at(0).n)); if (v.at(1).has) o.h = quint32(v.at(1).n); return o; }
static Vals strList(const std::vector<QString> &l) { Vals items; for (auto &s : l) items.push_back(vR({ vS(s) })); return items; }
static std::vector<QString> strListOf(const Val &l) { std::vector<QString> o; for (auto &it : l.items) o.push_back(it.items.at(0).s); return o; }
static Vals bind2FeatureVals(const Bind2Feature &o) { return { vR({ vL(strList(o.features)) }) }; }
static Bind2Feature bind2FeatureOf(const Vals &v) { Bind2Feature o; o.features = strListOf(v.at(0).items.at(0)); return o; }
static Vals fastFeatureVals(const FastFeature &o) { return { vL(strList(o.mechanisms)), vB(o.tls0rtt) }; }
static FastFeature fastFeatureOf(const Vals &v) { FastFeature o; o.mechanisms = strListOf(v.at(0)); o.tls0rtt = v.at(1).b; return o; }

template<class T>
static ClassEntry nonza(const std::string &name, std::vector<std::string> fields, std::function<Vals(const T &)> tv, std::function<T(const Vals &)> fv)
{
    ClassEntry e; e.name = name; e.fieldNames = fields;
    e.run = [tv](const QDomElement &el, QByteArray &out, Vals &vals) {
        auto o = T::fromDom(el);
        if (!o) return false;
        out = ser(*o); vals = tv(*o); return true;
    };
    e.build = [fv, tv](const Vals &v, Vals &rep) { T o = fv(v); rep = tv(o); return ser(o); };
    return e;
}
template<class T>
static ClassEntry payload(const std::string &name, std::vector<std::string> fields, std::function<Vals(const T &)> tv, std::function<void(T &, const Vals &)> fv)
{
    ClassEntry e; e.name = name; e.iqPayload = true; e.fieldNames = fields;
    e.run = [tv](const QDomElement &iq, QByteArray &out, Vals &vals) {
        Open<T> o; o.parseElementFromChild(iq);
        out = serPayload(o); vals = tv(o); return true;
    };
    e.build = [fv, tv](const Vals &v, Vals &rep) { Open<T> o; fv(o, v); rep = tv(o); return serPayload(o); };
    return e;
}

// an uninterpreted child as the value the model uses: the canonical text of what the element serializes to
static Val vT(const QXmppElement &e) { Val v; v.kind = 't'; v.s = QString::fromStdString(canonWriter(ser(e))); return v; }
// ... and back: the tree is parsed where `ns` is the namespace in scope, as the element would be found inside its stanza
static QXmppElement elementOf(const Val &v, const QByteArray &ns)
{
    Tree t; if (!treeOfCanon(v.s.toStdString(), t)) return QXmppElement();
    QDomDocument doc;
    if (!doc.setContent(QByteArray("<w xmlns=\"") + ns + "\">" + xmlOfTree(t) + "</w>", true)) return QXmppElement();
    return QXmppElement(doc.documentElement().firstChildElement());
}
// QXmppStanza::Error as the schema field list `stanzaErrorFields` reports it
static Val stanzaErrorVal(const QXmppStanza::Error &o)
{
    using E = QXmppStanza::Error;
    const bool uriCond = o.condition() == E::Gone || o.condition() == E::Redirect;
    if (o.fileTooLarge() || o.retryDate().isValid()) g_outsideModel = true;
    if (o.type() == E::NoType && o.condition() == E::NoCondition)
        return vR({ vS(QString()), vO(false), vO(false), vR({ vO(false), vS(QString()) }), vR({ vS(QString()) }) });
    return vR({ vS(o.by()), int(o.type()) < 0 ? vO(false) : vO(true, quint64(int(o.type()))), o.code() > 0 ? vO(true, quint64(o.code())) : vO(false),
                vR({ int(o.condition()) < 0 ? vO(false) : vO(true, quint64(int(o.condition()))), vS(uriCond ? o.redirectionUri() : QString()) }),
                vR({ vS(o.text()) }) });
}
static QXmppStanza::Error stanzaErrorOf(const Val &w)
{
    using E = QXmppStanza::Error;
    E o; auto &f = w.items;
    o.setBy(f.at(0).s); if (f.at(1).has) o.setType(E::Type(int(f.at(1).n))); if (f.at(2).has) o.setCode(int(f.at(2).n));
    auto &c = f.at(3).items; if (c.at(0).has) o.setCondition(E::Condition(int(c.at(0).n))); o.setRedirectionUri(c.at(1).s);
    o.setText(f.at(4).items.at(0).s);
    return o;
}
// XEP-0033 addresses of a stanza (schema field `addressesField`)
static Val addressesVal(const QList<QXmppExtendedAddress> &l)
{
    Vals items; for (auto &a : l) items.push_back(vR({ vB(a.isDelivered()), vS(a.description()), vS(a.jid()), vS(a.type()) }));
    return vR({ vL(items) });
}
static QList<QXmppExtendedAddress> addressesOf(const Val &w)
{
    QList<QXmppExtendedAddress> l;
    for (auto &it : w.items.at(0).items) { QXmppExtendedAddress a; a.setDelivered(it.items.at(0).b); a.setDescription(it.items.at(1).s); a.setJid(it.items.at(2).s); a.setType(it.items.at(3).s); l << a; }
    return l;
}
// stanza documents on which QXmppStanza::parse leaves the schema: a plain `lang` attribute beside / instead of xml:lang (QDom finds both under
// the name "lang"), an <addresses/> child in another namespace than XEP-0033's (taken by tag alone, but kept as unknown extension too)
static bool stanzaHazard(const QDomElement &el)
{
    auto as = el.attributes();
    for (int i = 0; i < as.count(); i++) if (as.item(i).nodeName() == u"lang") return true;
    for (auto c = el.firstChildElement(); !c.isNull(); c = c.nextSiblingElement())
        if (c.tagName() == u"addresses" && c.namespaceURI() != u"http://jabber.org/protocol/address") return true;
    return false;
}
static Vals restVals(const QXmppElementList &l) { Vals o; for (auto &e : l) o.push_back(vT(e)); return o; }

static std::vector<ClassEntry> classTable()
{
    std::vector<ClassEntry> t;
    t.push_back(nonza<SmEnable>("SmEnable", { "resume", "max" }, smEnableVals, smEnableOf));
    t.push_back(nonza<SmEnabled>("SmEnabled", { "resume", "id", "max", "location" }, smEnabledVals, smEnabledOf));
    t.push_back(nonza<SmResume>("SmResume", { "h", "previd" },
        [](const SmResume &o) { return Vals { vN(o.h), vS(o.previd) }; },
        [](const Vals &v) { SmResume o; o.h = quint32(v.at(0).n); o.previd = v.at(1).s; return o; }));
    t.push_back(nonza<SmResumed>("SmResumed", { "h", "previd" },
        [](const SmResumed &o) { return Vals { vN(o.h), vS(o.previd) }; },
        [](const Vals &v) { SmResumed o; o.h = quint32(v.at(0).n); o.previd = v.at(1).s; return o; }));
    t.push_back(nonza<SmFailed>("SmFailed", { "error", "h" }, smFailedVals, smFailedOf));
    t.push_back(nonza<SmAck>("SmAck", { "seqNo" },
        [](const SmAck &o) { return Vals { vN(o.seqNo) }; },
        [](const Vals &v) { SmAck o; o.seqNo = quint32(v.at(0).n); return o; }));
    t.push_back(nonza<SmRequest>("SmRequest", {}, [](const SmRequest &) { return Vals {}; }, [](const Vals &) { return SmRequest {}; }));
    t.push_back(nonza<Sasl::Success>("SaslSuccess", {}, [](const Sasl::Success &) { return Vals {}; }, [](const Vals &) { return Sasl::Success {}; }));
    t.push_back(nonza<StarttlsRequest>("StarttlsRequest", {}, [](const StarttlsRequest &) { return Vals {}; }, [](const Vals &) { return StarttlsRequest {}; }));
    t.push_back(nonza<StarttlsProceed>("StarttlsProceed", {}, [](const StarttlsProceed &) { return Vals {}; }, [](const Vals &) { return StarttlsProceed {}; }));
    t.push_back(nonza<Bind2Feature>("Bind2Feature", { "inline" }, bind2FeatureVals, bind2FeatureOf));
    t.push_back(nonza<Bind2Request>("Bind2Request", { "tag", "csiInactive", "carbonsEnable", "smEnable" },
        [](const Bind2Request &o) {
            return Vals { vR({ vS(o.tag) }), o.csiInactive ? vR({}) : vA(), o.carbonsEnable ? vR({}) : vA(),
                          o.smEnable ? vR(smEnableVals(*o.smEnable)) : vA() };
        },
        [](const Vals &v) {
            Bind2Request o; o.tag = v.at(0).items.at(0).s; o.csiInactive = v.at(1).kind == 'R'; o.carbonsEnable = v.at(2).kind == 'R';
            if (v.at(3).kind == 'R') o.smEnable = smEnableOf(v.at(3).items);
            return o;
        }));
    t.push_back(nonza<Bind2Bound>("Bind2Bound", { "smFailed", "smEnabled" },
        [](const Bind2Bound &o) { return Vals { o.smFailed ? vR(smFailedVals(*o.smFailed)) : vA(), o.smEnabled ? vR(smEnabledVals(*o.smEnabled)) : vA() }; },
        [](const Vals &v) {
            Bind2Bound o;
            if (v.at(0).kind == 'R') o.smFailed = smFailedOf(v.at(0).items);
            if (v.at(1).kind == 'R') o.smEnabled = smEnabledOf(v.at(1).items);
            return o;
        }));
    t.push_back(nonza<FastFeature>("FastFeature", { "mechanisms", "tls0rtt" }, fastFeatureVals, fastFeatureOf));
    t.push_back(nonza<FastTokenRequest>("FastTokenRequest", { "mechanism" },
        [](const FastTokenRequest &o) { return Vals { vS(o.mechanism) }; },
        [](const Vals &v) { return FastTokenRequest { v.at(0).s }; }));
    t.push_back(nonza<FastRequest>("FastRequest", { "count", "invalidate" },
        [](const FastRequest &o) { return Vals { o.count ? vO(true, *o.count) : vO(false), vB(o.invalidate) }; },
        [](const Vals &v) { FastRequest o; if (v.at(0).has) o.count = v.at(0).n; o.invalidate = v.at(1).b; return o; }));
    auto sasl2FeatureVals = [](const Sasl2::StreamFeature &o) {
            std::vector<QString> m(o.mechanisms.begin(), o.mechanisms.end());
            return Vals { vL(strList(m)), vR({ o.bind2Feature ? vR(bind2FeatureVals(*o.bind2Feature)) : vA(),
                                               o.fast ? vR(fastFeatureVals(*o.fast)) : vA(),
                                               o.streamResumptionAvailable ? vR({}) : vA() }) };
        };
    auto sasl2FeatureOf = [](const Vals &v) {
            Sasl2::StreamFeature o;
            for (auto &s : strListOf(v.at(0))) o.mechanisms.push_back(s);
            auto &in = v.at(1).items;
            if (in.at(0).kind == 'R') o.bind2Feature = bind2FeatureOf(in.at(0).items);
            if (in.at(1).kind == 'R') o.fast = fastFeatureOf(in.at(1).items);
            o.streamResumptionAvailable = in.at(2).kind == 'R';
            return o;
        };
    t.push_back(nonza<Sasl2::StreamFeature>("Sasl2StreamFeature", { "mechanisms", "inline" }, sasl2FeatureVals, sasl2FeatureOf));
    t.push_back(nonza<Sasl2::Failure>("Sasl2Failure", { "condition", "text" },
        [](const Sasl2::Failure &o) { return Vals { vO(true, quint64(int(o.condition))), vR({ vS(o.text) }) }; },
        [](const Vals &v) { Sasl2::Failure o; o.condition = Sasl::ErrorCondition(int(v.at(0).n)); o.text = v.at(1).items.at(0).s; return o; }));
    t.push_back(nonza<Sasl2::Abort>("Sasl2Abort", { "text" },
        [](const Sasl2::Abort &o) { return Vals { vR({ vS(o.text) }) }; },
        [](const Vals &v) { return Sasl2::Abort { v.at(0).items.at(0).s }; }));
    {
        ClassEntry e; e.name = "ExtendedAddress"; e.fieldNames = { "delivered", "description", "jid", "type" };
        auto tv = [](const QXmppExtendedAddress &a) { return Vals { vB(a.isDelivered()), vS(a.description()), vS(a.jid()), vS(a.type()) }; };
        e.run = [tv](const QDomElement &el, QByteArray &out, Vals &vals) { QXmppExtendedAddress a; a.parse(el); out = ser(a); vals = tv(a); return true; };
        e.build = [tv](const Vals &v, Vals &rep) { QXmppExtendedAddress a; a.setDelivered(v.at(0).b); a.setDescription(v.at(1).s); a.setJid(v.at(2).s); a.setType(v.at(3).s); rep = tv(a); return ser(a); };
        t.push_back(e);
    }
    t.push_back(payload<QXmppBindIq>("BindIq", { "jid", "resource" },
        [](const QXmppBindIq &o) { return Vals { vR({ vS(o.jid()) }), vR({ vS(o.resource()) }) }; },
        [](QXmppBindIq &o, const Vals &v) { o.setJid(v.at(0).items.at(0).s); o.setResource(v.at(1).items.at(0).s); }));
    t.push_back(payload<QXmppVersionIq>("VersionIq", { "name", "os", "version" },
        [](const QXmppVersionIq &o) { return Vals { vR({ vS(o.name()) }), vR({ vS(o.os()) }), vR({ vS(o.version()) }) }; },
        [](QXmppVersionIq &o, const Vals &v) { o.setName(v.at(0).items.at(0).s); o.setOs(v.at(1).items.at(0).s); o.setVersion(v.at(2).items.at(0).s); }));
    t.push_back(payload<QXmppIbbCloseIq>("IbbCloseIq", { "sid" },
        [](const QXmppIbbCloseIq &o) { return Vals { vS(o.sid()) }; },
        [](QXmppIbbCloseIq &o, const Vals &v) { o.setSid(v.at(0).s); }));
    // ---- Base64 bodies
    auto vBytes = [](const QByteArray &b) { return vS(QString::fromLatin1(b.constData(), b.size())); };  // keeps NUL
    auto fastTokenVals = [](const FastToken &o) { return Vals { vD(o.expiry), vS(o.token) }; };
    auto fastTokenOf = [](const Vals &v) { return FastToken { dateOf(v.at(0)), v.at(1).s }; };
    t.push_back(nonza<FastToken>("FastToken", { "expiry", "token" }, fastTokenVals, fastTokenOf));
    auto bound2Vals = [](const Bind2Bound &o) { return Vals { o.smFailed ? vR(smFailedVals(*o.smFailed)) : vA(), o.smEnabled ? vR(smEnabledVals(*o.smEnabled)) : vA() }; };
    auto bound2Of = [](const Vals &v) { Bind2Bound o; if (v.at(0).kind == 'R') o.smFailed = smFailedOf(v.at(0).items); if (v.at(1).kind == 'R') o.smEnabled = smEnabledOf(v.at(1).items); return o; };
    t.push_back(nonza<Sasl2::Success>("Sasl2Success", { "additionalData", "authorizationIdentifier", "bound", "smResumed", "smFailed", "token" },
        [=](const Sasl2::Success &o) {
            return Vals { o.additionalData ? vR({ vBytes(*o.additionalData) }) : vA(), vR({ vS(o.authorizationIdentifier) }),
                          o.bound ? vR(bound2Vals(*o.bound)) : vA(),
                          o.smResumed ? vR({ vN(o.smResumed->h), vS(o.smResumed->previd) }) : vA(),
                          o.smFailed ? vR(smFailedVals(*o.smFailed)) : vA(),
                          o.token ? vR(fastTokenVals(*o.token)) : vA() };
        },
        [=](const Vals &v) {
            Sasl2::Success o;
            if (v.at(0).kind == 'R') o.additionalData = v.at(0).items.at(0).s.toLatin1();
            o.authorizationIdentifier = v.at(1).items.at(0).s;
            if (v.at(2).kind == 'R') o.bound = bound2Of(v.at(2).items);
            if (v.at(3).kind == 'R') { SmResumed r; r.h = quint32(v.at(3).items.at(0).n); r.previd = v.at(3).items.at(1).s; o.smResumed = r; }
            if (v.at(4).kind == 'R') o.smFailed = smFailedOf(v.at(4).items);
            if (v.at(5).kind == 'R') o.token = fastTokenOf(v.at(5).items);
            return o;
        }));
    t.push_back(nonza<Sasl::Auth>("SaslAuth", { "mechanism", "value" },
        [vBytes](const Sasl::Auth &o) { return Vals { vS(o.mechanism), vBytes(o.value) }; },
        [](const Vals &v) { Sasl::Auth o; o.mechanism = v.at(0).s; o.value = v.at(1).s.toLatin1(); return o; }));
    t.push_back(nonza<Sasl::Challenge>("SaslChallenge", { "value" },
        [vBytes](const Sasl::Challenge &o) { return Vals { vBytes(o.value) }; },
        [](const Vals &v) { return Sasl::Challenge { v.at(0).s.toLatin1() }; }));
    t.push_back(nonza<Sasl::Response>("SaslResponse", { "value" },
        [vBytes](const Sasl::Response &o) { return Vals { vBytes(o.value) }; },
        [](const Vals &v) { return Sasl::Response { v.at(0).s.toLatin1() }; }));
    t.push_back(nonza<Sasl2::Challenge>("Sasl2Challenge", { "data" },
        [vBytes](const Sasl2::Challenge &o) { return Vals { vBytes(o.data) }; },
        [](const Vals &v) { return Sasl2::Challenge { v.at(0).s.toLatin1() }; }));
    t.push_back(nonza<Sasl2::Response>("Sasl2Response", { "data" },
        [vBytes](const Sasl2::Response &o) { return Vals { vBytes(o.data) }; },
        [](const Vals &v) { return Sasl2::Response { v.at(0).s.toLatin1() }; }));
    t.push_back(nonza<Sasl2::Continue>("Sasl2Continue", { "additionalData", "tasks", "text" },
        [vBytes](const Sasl2::Continue &o) { return Vals { vR({ vBytes(o.additionalData) }), vR({ vL(strList(o.tasks)) }), vR({ vS(o.text) }) }; },
        [](const Vals &v) { Sasl2::Continue o; o.additionalData = v.at(0).items.at(0).s.toLatin1(); o.tasks = strListOf(v.at(1).items.at(0)); o.text = v.at(2).items.at(0).s; return o; }));
    {
        ClassEntry e; e.name = "Hash"; e.fieldNames = { "algorithm", "hash" };
        auto tv = [vBytes](const QXmppHash &h) { return Vals { int(h.algorithm()) == 0 ? vO(false) : vO(true, quint64(int(h.algorithm()) - 1)), vBytes(h.hash()) }; };
        e.run = [tv](const QDomElement &el, QByteArray &out, Vals &vals) { QXmppHash h; if (!h.parse(el)) return false; out = ser(h); vals = tv(h); return true; };
        e.build = [tv](const Vals &v, Vals &rep) { QXmppHash h; h.setAlgorithm(QXmpp::HashAlgorithm(v.at(0).has ? int(v.at(0).n) + 1 : 0)); h.setHash(v.at(1).s.toLatin1()); rep = tv(h); return ser(h); };
        t.push_back(e);
    }
    // ---- plain value classes with void parse()
    auto plain = [&t](const std::string &name, std::vector<std::string> fields, auto tv, auto fv) {
        using T = decltype(fv(Vals {}));
        ClassEntry e; e.name = name; e.fieldNames = fields;
        e.run = [tv](const QDomElement &el, QByteArray &out, Vals &vals) { T o; o.parse(el); out = ser(o); vals = tv(o); return true; };
        e.build = [fv, tv](const Vals &v, Vals &rep) { T o = fv(v); rep = tv(o); return ser(o); };
        t.push_back(e);
    };
    plain("MixInvitation", { "inviterJid", "inviteeJid", "channelJid", "token" },
        [](const QXmppMixInvitation &o) { return Vals { vR({ vS(o.inviterJid()) }), vR({ vS(o.inviteeJid()) }), vR({ vS(o.channelJid()) }), vR({ vS(o.token()) }) }; },
        [](const Vals &v) { QXmppMixInvitation o; o.setInviterJid(v.at(0).items.at(0).s); o.setInviteeJid(v.at(1).items.at(0).s); o.setChannelJid(v.at(2).items.at(0).s); o.setToken(v.at(3).items.at(0).s); return o; });
    plain("OutOfBandUrl", { "url", "description" },
        [](const QXmppOutOfBandUrl &o) { return Vals { vR({ vS(o.url()) }), o.description() ? vR({ vS(*o.description()) }) : vA() }; },
        [](const Vals &v) { QXmppOutOfBandUrl o; o.setUrl(v.at(0).items.at(0).s); if (v.at(1).kind == 'R') o.setDescription(v.at(1).items.at(0).s); return o; });
    plain("PubSubAffiliation", { "type", "node", "jid" },
        [](const QXmppPubSubAffiliation &o) { return Vals { vN(quint64(int(o.type()))), vS(o.node()), vS(o.jid()) }; },
        [](const Vals &v) { return QXmppPubSubAffiliation(QXmppPubSubAffiliation::Affiliation(int(v.at(0).n)), v.at(1).s, v.at(2).s); });
    plain("SdpParameter", { "name", "value" },
        [](const QXmppSdpParameter &o) { return Vals { vS(o.name()), vS(o.value()) }; },
        [](const Vals &v) { QXmppSdpParameter o; o.setName(v.at(0).s); o.setValue(v.at(1).s); return o; });
    plain("RtpFeedbackInterval", { "value" },
        [](const QXmppJingleRtpFeedbackInterval &o) { return Vals { vN(o.value()) }; },
        [](const Vals &v) { QXmppJingleRtpFeedbackInterval o; o.setValue(quint32(v.at(0).n)); return o; });
    auto keyList = [vBytes](const QList<QByteArray> &l) { Vals items; for (auto &b : l) items.push_back(vR({ vBytes(b) })); return vL(items); };
    auto keyListOf = [](const Val &l) { QList<QByteArray> o; for (auto &it : l.items) o.append(it.items.at(0).s.toLatin1()); return o; };
    auto ownerVals = [keyList](const QXmppTrustMessageKeyOwner &o) { return Vals { vS(o.jid()), keyList(o.trustedKeys()), keyList(o.distrustedKeys()) }; };
    auto ownerOf = [keyListOf](const Vals &v) { QXmppTrustMessageKeyOwner o; o.setJid(v.at(0).s); o.setTrustedKeys(keyListOf(v.at(1))); o.setDistrustedKeys(keyListOf(v.at(2))); return o; };
    plain("TrustMessageKeyOwner", { "jid", "trustedKeys", "distrustedKeys" }, ownerVals, ownerOf);
    plain("TrustMessageElement", { "usage", "encryption", "keyOwners" },
        [ownerVals](const QXmppTrustMessageElement &o) { Vals items; for (auto &k : o.keyOwners()) items.push_back(vR(ownerVals(k))); return Vals { vS(o.usage()), vS(o.encryption()), vL(items) }; },
        [ownerOf](const Vals &v) { QXmppTrustMessageElement o; o.setUsage(v.at(0).s); o.setEncryption(v.at(1).s); for (auto &it : v.at(2).items) o.addKeyOwner(ownerOf(it.items)); return o; });
    {
        // XEP-0059: parse() looks for <set/> inside the element it is given; toXml() writes <set/> or nothing: held in <x>…</x>
        auto optI = [](int i) { return i < 0 ? vO(false) : vO(true, quint64(i)); };
        auto intOf = [](const Val &w) { const Val &o = w.items.at(0); return o.has ? int(o.n) : -1; };
        auto optS = [](const QString &s) { return s.isNull() ? vA() : vR({ vS(s) }); };
        auto strOf = [](const Val &w) { if (w.kind != 'R') return QString(); QString s = w.items.at(0).s; return s.isNull() ? QString("") : s; };
        auto held = [](auto &o) { QByteArray out; QBuffer buf(&out); buf.open(QIODevice::WriteOnly); QXmlStreamWriter w(&buf); w.writeStartElement("x"); o.toXml(&w); w.writeEndElement(); return out; };
        {
            ClassEntry e; e.name = "ResultSetQuery"; e.fieldNames = { "set" }; e.skipRootTag = "set";
            auto tv = [=](const QXmppResultSetQuery &q) { return Vals { vR({ vR({ optI(q.max()) }), optS(q.after()), optS(q.before()), vR({ optI(q.index()) }) }) }; };
            auto fv = [=](const Vals &v) { QXmppResultSetQuery q; if (v.at(0).kind == 'R') { auto &f = v.at(0).items; q.setMax(intOf(f.at(0))); q.setAfter(strOf(f.at(1))); q.setBefore(strOf(f.at(2))); q.setIndex(intOf(f.at(3))); } return q; };
            e.run = [=](const QDomElement &el, QByteArray &out, Vals &vals) { QXmppResultSetQuery q; q.parse(el); out = held(q); vals = tv(q); return true; };
            e.build = [=](const Vals &v, Vals &rep) { auto q = fv(v); rep = tv(q); return held(q); };
            t.push_back(e);
        }
        {
            ClassEntry e; e.name = "ResultSetReply"; e.fieldNames = { "set" }; e.skipRootTag = "set";
            auto tv = [=](const QXmppResultSetReply &r) {
                return Vals { vR({ (r.first().isNull() && r.index() < 0) ? vA() : vR({ optI(r.index()), vS(r.first()) }), optS(r.last()), vR({ optI(r.count()) }) }) };
            };
            auto fv = [=](const Vals &v) {
                QXmppResultSetReply r;
                if (v.at(0).kind == 'R') {
                    auto &f = v.at(0).items;
                    if (f.at(0).kind == 'R') { const Val &o = f.at(0).items.at(0); r.setIndex(o.has ? int(o.n) : -1); QString s = f.at(0).items.at(1).s; r.setFirst(s.isNull() ? QString("") : s); }
                    r.setLast(strOf(f.at(1))); r.setCount(intOf(f.at(2)));
                }
                return r;
            };
            e.run = [=](const QDomElement &el, QByteArray &out, Vals &vals) { QXmppResultSetReply r; r.parse(el); out = held(r); vals = tv(r); return true; };
            e.build = [=](const Vals &v, Vals &rep) { auto r = fv(v); rep = tv(r); return held(r); };
            t.push_back(e);
        }
    }
    {
        using M = QXmppStreamFeatures::Mode;
        auto vMode = [](M m) { return m == QXmppStreamFeatures::Disabled ? vA() : vR({ m == QXmppStreamFeatures::Required ? vR({}) : vA() }); };
        auto modeOf = [](const Val &v) { return v.kind != 'R' ? QXmppStreamFeatures::Disabled : v.items.at(0).kind == 'R' ? QXmppStreamFeatures::Required : QXmppStreamFeatures::Enabled; };
        auto qsl = [](const QStringList &l) { Vals items; for (auto &s : l) items.push_back(vR({ vS(s) })); return vR({ vL(items) }); };
        auto qslOf = [](const Val &w) { QStringList o; for (auto &it : w.items.at(0).items) o << it.items.at(0).s; return o; };
        plain("StreamFeatures", { "bindMode", "sessionMode", "nonSaslAuthMode", "tlsMode", "streamManagementMode", "clientStateIndicationMode",
                                  "registerMode", "preApprovedSubscriptionsSupported", "rosterVersioningSupported", "compressionMethods",
                                  "authMechanisms", "sasl2Feature" },
            [=](const QXmppStreamFeatures &o) {
                return Vals { vMode(o.bindMode()), vMode(o.sessionMode()), vMode(o.nonSaslAuthMode()), vMode(o.tlsMode()), vMode(o.streamManagementMode()),
                              vMode(o.clientStateIndicationMode()), vMode(o.registerMode()),
                              o.preApprovedSubscriptionsSupported() ? vR({}) : vA(), o.rosterVersioningSupported() ? vR({}) : vA(),
                              qsl(o.compressionMethods()), qsl(o.authMechanisms()),
                              o.sasl2Feature() ? vR(sasl2FeatureVals(*o.sasl2Feature())) : vA() };
            },
            [=](const Vals &v) {
                QXmppStreamFeatures o;
                o.setBindMode(modeOf(v.at(0))); o.setSessionMode(modeOf(v.at(1))); o.setNonSaslAuthMode(modeOf(v.at(2))); o.setTlsMode(modeOf(v.at(3)));
                o.setStreamManagementMode(modeOf(v.at(4))); o.setClientStateIndicationMode(modeOf(v.at(5))); o.setRegisterMode(modeOf(v.at(6)));
                o.setPreApprovedSubscriptionsSupported(v.at(7).kind == 'R'); o.setRosterVersioningSupported(v.at(8).kind == 'R');
                o.setCompressionMethods(qslOf(v.at(9))); o.setAuthMechanisms(qslOf(v.at(10)));
                if (v.at(11).kind == 'R') o.setSasl2Feature(sasl2FeatureOf(v.at(11).items));
                return o;
            });
        t.back().streamChild = true;
    }
    {
        // XEP-0060 PubSub IQ: one entry per query type, all exercising PubSubIqBase::parseElementFromChild / toXmlElementFromChild
        using PS = PubSubIq<QXmppPubSubBaseItem>;
        auto variant = [&t](const std::string &name, PubSubIqBase::QueryType qt, bool subid) {
            auto tv = [qt, subid](const PS &o) {
                // another query type, or a data form (not described by these schemas): outside this schema
                if (o.queryType() != qt || o.dataForm().has_value()) g_outsideModel = true;
                Vals f { vS(o.queryJid()), vS(o.queryNode()) };
                if (subid) f.push_back(vS(o.subscriptionId()));
                return Vals { vR(f) };
            };
            auto fv = [qt, subid](PS &o, const Vals &v) {
                o.setQueryType(qt);
                auto &f = v.at(0).items;
                o.setQueryJid(f.at(0).s); o.setQueryNode(f.at(1).s);
                if (subid) o.setSubscriptionId(f.at(2).s);
            };
            t.push_back(payload<PS>(name, { "query" }, tv, fv));
            t.back().cxx = "PubSubIqBase";
        };
        variant("PubSubIqUnsubscribe", PubSubIqBase::Unsubscribe, true);
        variant("PubSubIqSubscribe", PubSubIqBase::Subscribe, false);
        variant("PubSubIqOptions", PubSubIqBase::Options, true);
        variant("PubSubIqCreate", PubSubIqBase::Create, false);
        variant("PubSubIqDelete", PubSubIqBase::Delete, false);
        variant("PubSubIqPurge", PubSubIqBase::Purge, false);
        variant("PubSubIqConfigure", PubSubIqBase::Configure, false);
        variant("PubSubIqDefault", PubSubIqBase::Default, false);
        variant("PubSubIqOwnerDefault", PubSubIqBase::OwnerDefault, false);
    }
    {
        // QXmppStanza::Error inside a holder <iq xmlns="jabber:client">: parse() gets firstChildElement(holder, "error"), toXml() may write nothing
        using E = QXmppStanza::Error;
        ClassEntry e; e.name = "StanzaError"; e.cxx = "QXmppStanza::Error"; e.fieldNames = { "error" };
        auto heldIq = [](const E &o) { QByteArray out; QBuffer buf(&out); buf.open(QIODevice::WriteOnly); QXmlStreamWriter w(&buf); w.writeStartElement("iq"); w.writeDefaultNamespace("jabber:client"); o.toXml(&w); w.writeEndElement(); return out; };
        auto tv = [](const E &o) {
            const bool uriCond = o.condition() == E::Gone || o.condition() == E::Redirect;
            const bool unset = o.type() == E::NoType && o.condition() == E::NoCondition;
            // XEP-0363 children are not described by the schema; without type and condition nothing is written at all
            if (o.fileTooLarge() || o.retryDate().isValid()) g_outsideModel = true;
            // without type and condition the object is "no error" for the class (toXml writes nothing): reported as all-unset
            if (unset) {
                if (!o.by().isEmpty() || o.code() > 0 || !o.text().isEmpty()) stat("stanza_error_fields_without_type_and_condition");
                return Vals { vR({ vS(QString()), vO(false), vO(false), vR({ vO(false), vS(QString()) }), vR({ vS(QString()) }) }) };
            }
            // the URI getter may return what an EARLIER <gone/> said; it is written (and canonical) only for gone / redirect
            if (!uriCond && !o.redirectionUri().isEmpty()) stat("stanza_error_uri_kept_for_other_condition");
            return Vals { vR({ vS(o.by()), int(o.type()) < 0 ? vO(false) : vO(true, quint64(int(o.type()))),
                               o.code() > 0 ? vO(true, quint64(o.code())) : vO(false),
                               vR({ int(o.condition()) < 0 ? vO(false) : vO(true, quint64(int(o.condition()))), vS(uriCond ? o.redirectionUri() : QString()) }),
                               vR({ vS(o.text()) }) }) };
        };
        e.run = [=](const QDomElement &el, QByteArray &out, Vals &vals) {
            E o; auto ee = firstChildElement(el, u"error");
            if (!ee.isNull()) o.parse(ee);
            out = heldIq(o); vals = tv(o); return true;
        };
        e.build = [=](const Vals &v, Vals &rep) {
            E o; auto &f = v.at(0).items;
            o.setBy(f.at(0).s); if (f.at(1).has) o.setType(E::Type(int(f.at(1).n))); if (f.at(2).has) o.setCode(int(f.at(2).n));
            auto &c = f.at(3).items; if (c.at(0).has) o.setCondition(E::Condition(int(c.at(0).n))); o.setRedirectionUri(c.at(1).s);
            o.setText(f.at(4).items.at(0).s);
            rep = tv(o); return heldIq(o);
        };
        t.push_back(e);
    }
    {
        auto aff = [](const QXmppMucItem &o) { return int(o.affiliation()) == 0 ? vO(false) : vO(true, quint64(int(o.affiliation()) - 1)); };
        auto role = [](const QXmppMucItem &o) { return int(o.role()) == 0 ? vO(false) : vO(true, quint64(int(o.role()) - 1)); };
        auto itemVals = [=](const QXmppMucItem &o) { return Vals { aff(o), vS(o.jid()), vS(o.nick()), role(o), vR({ vS(o.actor()) }), vR({ vS(o.reason()) }) }; };
        auto itemOf = [](const Vals &v) {
            QXmppMucItem o;
            o.setAffiliation(QXmppMucItem::Affiliation(v.at(0).has ? int(v.at(0).n) + 1 : 0)); o.setJid(v.at(1).s); o.setNick(v.at(2).s);
            o.setRole(QXmppMucItem::Role(v.at(3).has ? int(v.at(3).n) + 1 : 0)); o.setActor(v.at(4).items.at(0).s); o.setReason(v.at(5).items.at(0).s);
            return o;
        };
        plain("MucItem", { "affiliation", "jid", "nick", "role", "actor", "reason" }, itemVals, itemOf);
        t.push_back(payload<QXmppMucAdminIq>("MucAdminIq", { "items" },
            [=](const QXmppMucAdminIq &o) { Vals items; for (auto &i : o.items()) items.push_back(vR(itemVals(i))); return Vals { vL(items) }; },
            [=](QXmppMucAdminIq &o, const Vals &v) { QList<QXmppMucItem> l; for (auto &it : v.at(0).items) l << itemOf(it.items); o.setItems(l); }));
    }
    {
        // QXmppJingleReason inside a holder <x>: parse() gets holder.firstChildElement("reason"), toXml() may write nothing
        using R = QXmppJingleReason;
        static const char *REASONS[] = { "alternative-session", "busy", "cancel", "connectivity-error", "decline", "expired", "failed-application", "failed-transport",
            "general-error", "gone", "incompatible-parameters", "media-error", "security-error", "success", "timeout", "unsupported-applications", "unsupported-transports" };
        ClassEntry e; e.name = "JingleReason"; e.cxx = "QXmppJingleReason"; e.fieldNames = { "reason" };
        auto heldX = [](const R &o) { QByteArray out; QBuffer buf(&out); buf.open(QIODevice::WriteOnly); QXmlStreamWriter w(&buf); w.writeStartElement("x"); o.toXml(&w); w.writeEndElement(); return out; };
        auto tv = [](const R &o) {
            // without a reason type the object is "no reason" for the class (toXml writes nothing): reported as all-unset
            if (o.type() == R::None) {
                if (!o.text().isEmpty() || o.rtpErrorCondition() != R::NoErrorCondition) stat("jingle_reason_fields_without_type");
                return Vals { vR({ vR({ vS(QString()) }), vR({ vO(false), vS(QString()) }), vO(false) }) };
            }
            return Vals { vR({ vR({ vS(o.text()) }), vR({ o.type() == R::None ? vO(false) : vO(true, quint64(int(o.type()) - 1)), vS(QString()) }),
                               o.rtpErrorCondition() == R::NoErrorCondition ? vO(false) : vO(true, quint64(int(o.rtpErrorCondition()) - 1)) }) };
        };
        e.run = [=](const QDomElement &el, QByteArray &out, Vals &vals) {
            R o; auto re = el.firstChildElement("reason");
            o.parse(re);
            out = heldX(o); vals = tv(o);
            // parse() prefers the reason that comes first in the ENUM, the schema the one that comes first in the document
            std::set<QString> present;
            for (auto c = re.firstChildElement(); !c.isNull(); c = c.nextSiblingElement())
                for (auto *r : REASONS) if (c.tagName() == QLatin1String(r)) present.insert(c.tagName());
            if (present.size() > 1) g_outsideModel = true;
            return true;
        };
        e.build = [=](const Vals &v, Vals &rep) {
            R o; auto &f = v.at(0).items;
            o.setText(f.at(0).items.at(0).s);
            o.setType(f.at(1).items.at(0).has ? R::Type(int(f.at(1).items.at(0).n) + 1) : R::None);
            o.setRtpErrorCondition(f.at(2).has ? R::RtpErrorCondition(int(f.at(2).n) + 1) : R::NoErrorCondition);
            rep = tv(o); return heldX(o);
        };
        t.push_back(e);
    }
    t.push_back(payload<QXmppIbbDataIq>("IbbDataIq", { "sid", "seq", "payload" },
        [vBytes](const QXmppIbbDataIq &o) { return Vals { vS(o.sid()), vN(o.sequence()), vBytes(o.payload()) }; },
        [](QXmppIbbDataIq &o, const Vals &v) { o.setSid(v.at(0).s); o.setSequence(quint16(v.at(1).n)); o.setPayload(v.at(2).s.toLatin1()); }));
    {
        ClassEntry e; e.name = "HashUsed"; e.cxx = "QXmppHashUsed"; e.fieldNames = { "algorithm" };
        auto tv = [](const QXmppHashUsed &h) { return Vals { int(h.algorithm()) == 0 ? vO(false) : vO(true, quint64(int(h.algorithm()) - 1)) }; };
        e.run = [tv](const QDomElement &el, QByteArray &out, Vals &vals) { QXmppHashUsed h; if (!h.parse(el)) return false; out = ser(h); vals = tv(h); return true; };
        e.build = [tv](const Vals &v, Vals &rep) { QXmppHashUsed h; h.setAlgorithm(QXmpp::HashAlgorithm(v.at(0).has ? int(v.at(0).n) + 1 : 0)); rep = tv(h); return ser(h); };
        t.push_back(e);
    }
    {
        auto optI = [](int i) { return i < 0 ? vO(false) : vO(true, quint64(i)); };
        auto optS = [](const QString &s) { return s.isNull() ? vA() : vR({ vS(s) }); };
        auto strOf = [](const Val &w) { if (w.kind != 'R') return QString(); QString s = w.items.at(0).s; return s.isNull() ? QString("") : s; };
        auto replyVals = [=](const QXmppResultSetReply &r) {
            return vR({ (r.first().isNull() && r.index() < 0) ? vA() : vR({ optI(r.index()), vS(r.first()) }), optS(r.last()), vR({ optI(r.count()) }) });
        };
        auto replyOf = [=](const Val &w) {
            QXmppResultSetReply r; auto &f = w.items;
            if (f.at(0).kind == 'R') { const Val &o = f.at(0).items.at(0); r.setIndex(o.has ? int(o.n) : -1); QString s = f.at(0).items.at(1).s; r.setFirst(s.isNull() ? QString("") : s); }
            r.setLast(strOf(f.at(1))); const Val &c = f.at(2).items.at(0); r.setCount(c.has ? int(c.n) : -1);
            return r;
        };
        t.push_back(payload<QXmppMamResultIq>("MamResultIq", { "complete", "resultSetReply" },
            [=](const QXmppMamResultIq &o) { return Vals { vB(o.complete()), replyVals(o.resultSetReply()) }; },
            [=](QXmppMamResultIq &o, const Vals &v) { o.setComplete(v.at(0).b); o.setResultSetReply(replyOf(v.at(1))); }));
    }
    {
        using I = QXmppRosterIq::Item;
        auto itemVals = [](const I &o) {
            // QSet: reported as the sorted set (code point order)
            std::vector<QByteArray> g; for (auto &s : o.groups()) g.push_back(s.toUtf8());
            std::sort(g.begin(), g.end());
            Vals gs; for (auto &b : g) gs.push_back(vS(QString::fromUtf8(b.constData(), b.size())));
            int t = int(o.subscriptionType());
            // enum SubscriptionType { None = 0, From = 1, To = 2, Both = 3, Remove = 4, NotSet = 8 }; schema order: none both from to remove
            Val sub = t == 0 ? vO(true, 0) : t == 3 ? vO(true, 1) : t == 1 ? vO(true, 2) : t == 2 ? vO(true, 3) : t == 4 ? vO(true, 4) : vO(false);
            return Vals { vS(o.bareJid()), vS(o.name()), sub, vS(o.subscriptionStatus()), vB(o.isApproved()), vL(gs),
                          o.isMixChannel() ? vR({ vS(o.mixParticipantId()) }) : vA() };
        };
        auto itemOf = [](const Vals &v) {
            I o; o.setBareJid(v.at(0).s); o.setName(v.at(1).s);
            static const I::SubscriptionType T[] = { I::None, I::Both, I::From, I::To, I::Remove };
            o.setSubscriptionType(v.at(2).has ? T[v.at(2).n] : I::NotSet);
            o.setSubscriptionStatus(v.at(3).s); o.setIsApproved(v.at(4).b);
            QSet<QString> g; for (auto &it : v.at(5).items) g.insert(it.s.isNull() ? QString("") : it.s); o.setGroups(g);
            if (v.at(6).kind == 'R') { o.setIsMixChannel(true); o.setMixParticipantId(v.at(6).items.at(0).s); }
            return o;
        };
        plain("RosterItem", { "bareJid", "name", "subscriptionType", "subscriptionStatus", "approved", "groups", "mixChannel" }, itemVals, itemOf);
        t.back().cxx = "QXmppRosterIq::Item"; t.back().sortTag = "group";
        t.push_back(payload<QXmppRosterIq>("RosterIq", { "version", "mixAnnotate", "items" },
            [=](const QXmppRosterIq &o) { Vals items; for (auto &i : o.items()) items.push_back(vR(itemVals(i))); return Vals { vS(o.version()), o.mixAnnotate() ? vR({}) : vA(), vL(items) }; },
            [=](QXmppRosterIq &o, const Vals &v) { o.setVersion(v.at(0).s); o.setMixAnnotate(v.at(1).kind == 'R'); for (auto &it : v.at(2).items) o.addItem(itemOf(it.items)); }));
        t.back().sortTag = "group";
    }
    // ---- XEP-0004 data forms (see Classes.lean: formValue)
    auto formVals = [](const QXmppDataForm &f) {
        using F = QXmppDataForm::Field;
        if (f.isNull()) {
            // a null form is "no form" for the class (toXml writes nothing): reported as all-unset
            if (!f.fields().isEmpty() || !f.title().isEmpty() || !f.instructions().isEmpty()) stat("data_form_null_with_content");
            return vR({ vO(false), vR({ vS(QString()) }), vR({ vS(QString()) }), vL({}) });
        }
        Vals fields;
        for (auto &fl : f.fields()) {
            if (!fl.mediaSources().isEmpty()) g_outsideModel = true;   // <media/>: QUrl / QMimeType, not modelled
            Val v; Vals opts;
            switch (fl.type()) {
            case F::BooleanField: v = vB(fl.value().toBool()); break;
            case F::ListMultiField: case F::JidMultiField: case F::TextMultiField: {
                Vals items; for (auto &s : fl.value().toStringList()) items.push_back(vS(s));
                v = vL(items); break; }
            default:
                // a QString that may be null (no <value/>): null and empty are different values
                v = fl.value().isNull() ? vA() : vS(fl.value().toString());
            }
            if (fl.type() == F::ListMultiField || fl.type() == F::ListSingleField)
                for (auto &o : fl.options()) opts.push_back(vR({ vS(o.first), vR({ vS(o.second) }) }));
            fields.push_back(vR({ vR({ vN(quint64(int(fl.type()))), v, vL(opts) }), vS(fl.label()), vS(fl.key()), vR({ vS(fl.description()) }),
                                  fl.isRequired() ? vR({}) : vA() }));
        }
        return vR({ vO(true, quint64(int(f.type()) - 1)), vR({ vS(f.title()) }), vR({ vS(f.instructions()) }), vL(fields) });
    };
    auto formOf = [](const Val &w) {
        using F = QXmppDataForm::Field;
        QXmppDataForm f; auto &v = w.items;
        f.setType(v.at(0).has ? QXmppDataForm::Type(int(v.at(0).n) + 1) : QXmppDataForm::None);
        f.setTitle(v.at(1).items.at(0).s); f.setInstructions(v.at(2).items.at(0).s);
        QList<F> fl;
        for (auto &it : v.at(3).items) {
            auto &x = it.items; auto &tv = x.at(0).items;
            F fd(F::Type(int(tv.at(0).n)));
            const Val &val = tv.at(1);
            if (val.kind == 'b') fd.setValue(val.b);
            else if (val.kind == 'L') { QStringList l; for (auto &s : val.items) l << (s.s.isNull() ? QString("") : s.s); fd.setValue(l); }
            else if (val.kind == 's') fd.setValue(val.s.isNull() ? QString("") : val.s);   // non-null, possibly empty
            QList<QPair<QString, QString>> opts;
            for (auto &o : tv.at(2).items) opts << qMakePair(o.items.at(0).s, o.items.at(1).items.at(0).s);
            if (!opts.isEmpty()) fd.setOptions(opts);
            fd.setLabel(x.at(1).s); fd.setKey(x.at(2).s); fd.setDescription(x.at(3).items.at(0).s); fd.setRequired(x.at(4).kind == 'R');
            fl << fd;
        }
        f.setFields(fl);
        return f;
    };
    {
        ClassEntry e; e.name = "DataForm"; e.cxx = "QXmppDataForm"; e.fieldNames = { "form" };
        auto held = [](const QXmppDataForm &o) { QByteArray out; QBuffer buf(&out); buf.open(QIODevice::WriteOnly); QXmlStreamWriter w(&buf); w.writeStartElement("holder"); o.toXml(&w); w.writeEndElement(); return out; };
        e.run = [=](const QDomElement &el, QByteArray &out, Vals &vals) {
            QXmppDataForm f; f.parse(firstChildElement(el, u"x", u"jabber:x:data"));
            out = held(f); vals = Vals { formVals(f) }; return true;
        };
        e.build = [=](const Vals &v, Vals &rep) { auto f = formOf(v.at(0)); rep = Vals { formVals(f) }; return held(f); };
        t.push_back(e);
    }
    t.push_back(payload<QXmppMucOwnerIq>("MucOwnerIq", { "form" },
        [=](const QXmppMucOwnerIq &o) { return Vals { formVals(o.form()) }; },
        [=](QXmppMucOwnerIq &o, const Vals &v) { o.setForm(formOf(v.at(0))); }));
    {
        // XEP-0030: one entry per query type; a <query/> of the other type, or with several data forms (parsed into ONE form object
        // whose field list grows), is outside the respective schema
        auto countForms = [](const QDomElement &iq) {
            int n = 0; auto q = firstChildElement(iq, u"query");
            for (auto c = q.firstChildElement(); !c.isNull(); c = c.nextSiblingElement()) if (c.tagName() == u"x" && c.namespaceURI() == u"jabber:x:data") n++;
            return n;
        };
        {
            ClassEntry e; e.name = "DiscoInfoIq"; e.cxx = "QXmppDiscoveryIq"; e.iqPayload = true; e.fieldNames = { "node", "identities", "features", "form" };
            auto tv = [=](const QXmppDiscoveryIq &o) {
                if (o.queryType() != QXmppDiscoveryIq::InfoQuery) g_outsideModel = true;
                Vals ids; for (auto &i : o.identities()) ids.push_back(vR({ vS(i.language()), vS(i.category()), vS(i.name()), vS(i.type()) }));
                Vals fs; for (auto &f : o.features()) fs.push_back(vR({ vS(f) }));
                return Vals { vS(o.queryNode()), vL(ids), vL(fs), formVals(o.form()) };
            };
            e.run = [=](const QDomElement &iq, QByteArray &out, Vals &vals) {
                Open<QXmppDiscoveryIq> o; o.parseElementFromChild(iq); out = serPayload(o); vals = tv(o);
                if (countForms(iq) > 1) g_outsideModel = true;
                return true;
            };
            e.build = [=](const Vals &v, Vals &rep) {
                Open<QXmppDiscoveryIq> o; o.setQueryType(QXmppDiscoveryIq::InfoQuery); o.setQueryNode(v.at(0).s);
                QList<QXmppDiscoveryIq::Identity> ids;
                for (auto &it : v.at(1).items) { QXmppDiscoveryIq::Identity i; i.setLanguage(it.items.at(0).s); i.setCategory(it.items.at(1).s); i.setName(it.items.at(2).s); i.setType(it.items.at(3).s); ids << i; }
                o.setIdentities(ids);
                QStringList fs; for (auto &it : v.at(2).items) fs << it.items.at(0).s; o.setFeatures(fs);
                o.setForm(formOf(v.at(3)));
                rep = tv(o); return serPayload(o);
            };
            t.push_back(e);
        }
        {
            ClassEntry e; e.name = "DiscoItemsIq"; e.cxx = "QXmppDiscoveryIq"; e.iqPayload = true; e.fieldNames = { "node", "items", "form" };
            auto tv = [=](const QXmppDiscoveryIq &o) {
                if (o.queryType() != QXmppDiscoveryIq::ItemsQuery) g_outsideModel = true;
                Vals its; for (auto &i : o.items()) its.push_back(vR({ vS(i.jid()), vS(i.name()), vS(i.node()) }));
                return Vals { vS(o.queryNode()), vL(its), formVals(o.form()) };
            };
            e.run = [=](const QDomElement &iq, QByteArray &out, Vals &vals) {
                Open<QXmppDiscoveryIq> o; o.parseElementFromChild(iq); out = serPayload(o); vals = tv(o);
                if (countForms(iq) > 1) g_outsideModel = true;
                return true;
            };
            e.build = [=](const Vals &v, Vals &rep) {
                Open<QXmppDiscoveryIq> o; o.setQueryType(QXmppDiscoveryIq::ItemsQuery); o.setQueryNode(v.at(0).s);
                QList<QXmppDiscoveryIq::Item> its;
                for (auto &it : v.at(1).items) { QXmppDiscoveryIq::Item i; i.setJid(it.items.at(0).s); i.setName(it.items.at(1).s); i.setNode(it.items.at(2).s); its << i; }
                o.setItems(its); o.setForm(formOf(v.at(2)));
                rep = tv(o); return serPayload(o);
            };
            t.push_back(e);
        }
    }
    {
        auto fl = [](int bits, int n) { Vals v; for (int i = 0; i < n; i++) v.push_back((bits >> i) & 1 ? vR({}) : vA()); return v; };
        auto bitsOf = [](const Vals &v, int n) { int b = 0; for (int i = 0; i < n; i++) if (v.at(i).kind == 'R') b |= 1 << i; return b; };
        plain("VCardAddress", { "home", "work", "postal", "preferred", "country", "locality", "postcode", "region", "street" },
            [=](const QXmppVCardAddress &o) { Vals v = fl(int(o.type()), 4); for (auto &s : { o.country(), o.locality(), o.postcode(), o.region(), o.street() }) v.push_back(vR({ vS(s) })); return v; },
            [=](const Vals &v) { QXmppVCardAddress o; o.setType(QXmppVCardAddress::Type(bitsOf(v, 4))); o.setCountry(v.at(4).items.at(0).s); o.setLocality(v.at(5).items.at(0).s);
                                 o.setPostcode(v.at(6).items.at(0).s); o.setRegion(v.at(7).items.at(0).s); o.setStreet(v.at(8).items.at(0).s); return o; });
        plain("VCardEmail", { "home", "work", "internet", "preferred", "x400", "address" },
            [=](const QXmppVCardEmail &o) { Vals v = fl(int(o.type()), 5); v.push_back(vR({ vS(o.address()) })); return v; },
            [=](const Vals &v) { QXmppVCardEmail o; o.setType(QXmppVCardEmail::Type(bitsOf(v, 5))); o.setAddress(v.at(5).items.at(0).s); return o; });
        plain("VCardPhone", { "home", "work", "voice", "fax", "pager", "msg", "cell", "video", "bbs", "modem", "isdn", "pcs", "preferred", "number" },
            [=](const QXmppVCardPhone &o) { Vals v = fl(int(o.type()), 13); v.push_back(vR({ vS(o.number()) })); return v; },
            [=](const Vals &v) { QXmppVCardPhone o; o.setType(QXmppVCardPhone::Type(bitsOf(v, 13))); o.setNumber(v.at(13).items.at(0).s); return o; });
    }
    {
        auto optI = [](int i) { return i < 0 ? vO(false) : vO(true, quint64(i)); };
        auto intOf = [](const Val &w) { const Val &o = w.items.at(0); return o.has ? int(o.n) : -1; };
        auto optS = [](const QString &s) { return s.isNull() ? vA() : vR({ vS(s) }); };
        auto strOf = [](const Val &w) { if (w.kind != 'R') return QString(); QString s = w.items.at(0).s; return s.isNull() ? QString("") : s; };
        t.push_back(payload<QXmppMamQueryIq>("MamQueryIq", { "node", "queryId", "form", "resultSetQuery" },
            [=](const QXmppMamQueryIq &o) {
                auto q = o.resultSetQuery();
                return Vals { vS(o.node()), vS(o.queryId()), formVals(o.form()), vR({ vR({ optI(q.max()) }), optS(q.after()), optS(q.before()), vR({ optI(q.index()) }) }) };
            },
            [=](QXmppMamQueryIq &o, const Vals &v) {
                o.setNode(v.at(0).s); o.setQueryId(v.at(1).s); o.setForm(formOf(v.at(2)));
                QXmppResultSetQuery q; auto &f = v.at(3).items; q.setMax(intOf(f.at(0))); q.setAfter(strOf(f.at(1))); q.setBefore(strOf(f.at(2))); q.setIndex(intOf(f.at(3)));
                o.setResultSetQuery(q);
            }));
    }
    {
        // QXmppPubSubSubscription: what parse() reads depends on the namespace the element is in; one entry per namespace
        using S = QXmppPubSubSubscription;
        auto stateV = [](const S &o) { return int(o.state()) == 0 ? vO(false) : vO(true, quint64(int(o.state()) - 1)); };
        auto stateOf = [](const Val &v) { return v.has ? S::State(int(v.n) + 1) : S::Invalid; };
        auto entry = [&t](const std::string &name, const char *ns, std::vector<std::string> fields, std::function<Vals(const S &)> tv, std::function<S(const Vals &)> fv) {
            ClassEntry e; e.name = name; e.cxx = "QXmppPubSubSubscription"; e.fieldNames = fields; e.wrapNs = ns;
            QString nsq = QString::fromLatin1(ns);
            e.run = [tv, nsq](const QDomElement &el, QByteArray &out, Vals &vals) {
                S o; o.parse(el); out = ser(o); vals = tv(o);
                if (el.namespaceURI() != nsq) g_outsideModel = true;   // re-namespaced root: another schema's case
                return true;
            };
            e.build = [fv, tv](const Vals &v, Vals &rep) { S o = fv(v); rep = tv(o); return ser(o); };
            t.push_back(e);
        };
        entry("PubSubSubscription", "http://jabber.org/protocol/pubsub", { "jid", "node", "state", "subId", "configurationSupport" },
            [=](const S &o) {
                if (o.expiry().isValid()) g_outsideModel = true;
                auto cs = o.configurationSupport();
                return Vals { vS(o.jid()), vS(o.node()), stateV(o), vS(o.subId()), cs == S::Unavailable ? vA() : vR({ cs == S::Required ? vR({}) : vA() }) };
            },
            [=](const Vals &v) {
                S o; o.setJid(v.at(0).s); o.setNode(v.at(1).s); o.setState(stateOf(v.at(2))); o.setSubId(v.at(3).s);
                o.setConfigurationSupport(v.at(4).kind != 'R' ? S::Unavailable : v.at(4).items.at(0).kind == 'R' ? S::Required : S::Available);
                return o;
            });
        entry("PubSubSubscriptionEvent", "http://jabber.org/protocol/pubsub#event", { "jid", "node", "state", "subId", "expiry" },
            [=](const S &o) {
                if (o.configurationSupport() != S::Unavailable) g_outsideModel = true;
                // (a valid date-time that datetimeToString() cannot print, UTC year > 9999, is not written since /repo 339fb3c and
                //  reported as "no date" by vD: fixed finding C02:not-fixpoint:PubSubSubscriptionEvent)
                return Vals { vS(o.jid()), vS(o.node()), stateV(o), vS(o.subId()), vD(o.expiry()) };
            },
            [=](const Vals &v) { S o; o.setJid(v.at(0).s); o.setNode(v.at(1).s); o.setState(stateOf(v.at(2))); o.setSubId(v.at(3).s); o.setExpiry(dateOf(v.at(4))); return o; });
        entry("PubSubSubscriptionOwner", "http://jabber.org/protocol/pubsub#owner", { "jid", "state" },
            [=](const S &o) {
                if (o.configurationSupport() != S::Unavailable || o.expiry().isValid() || !o.node().isEmpty() || !o.subId().isEmpty()) g_outsideModel = true;
                return Vals { vS(o.jid()), stateV(o) };
            },
            [=](const Vals &v) { S o; o.setJid(v.at(0).s); o.setState(stateOf(v.at(1))); return o; });
    }
    {
        // the IQ envelope: typed attributes, error, and everything else as uninterpreted extensions
        using E = QXmppStanza::Error;
        auto errVals = [](const E &o) {
            const bool uriCond = o.condition() == E::Gone || o.condition() == E::Redirect;
            if (o.fileTooLarge() || o.retryDate().isValid()) g_outsideModel = true;
            if (o.type() == E::NoType && o.condition() == E::NoCondition)
                return vR({ vS(QString()), vO(false), vO(false), vR({ vO(false), vS(QString()) }), vR({ vS(QString()) }) });
            return vR({ vS(o.by()), int(o.type()) < 0 ? vO(false) : vO(true, quint64(int(o.type()))), o.code() > 0 ? vO(true, quint64(o.code())) : vO(false),
                        vR({ int(o.condition()) < 0 ? vO(false) : vO(true, quint64(int(o.condition()))), vS(uriCond ? o.redirectionUri() : QString()) }),
                        vR({ vS(o.text()) }) });
        };
        auto errOf = [](const Val &w) {
            E o; auto &f = w.items;
            o.setBy(f.at(0).s); if (f.at(1).has) o.setType(E::Type(int(f.at(1).n))); if (f.at(2).has) o.setCode(int(f.at(2).n));
            auto &c = f.at(3).items; if (c.at(0).has) o.setCondition(E::Condition(int(c.at(0).n))); o.setRedirectionUri(c.at(1).s);
            o.setText(f.at(4).items.at(0).s);
            return o;
        };
        ClassEntry e; e.name = "Iq"; e.cxx = "QXmppIq"; e.fieldNames = { "lang", "id", "to", "from", "type", "extensions", "error" };
        e.wrapNs = "jabber:client"; e.hasRest = true;
        auto tv = [=](const QXmppIq &o) { return Vals { vS(o.lang()), vS(o.id()), vS(o.to()), vS(o.from()), vN(quint64(int(o.type()))), vL(restVals(o.extensions())), errVals(o.error()) }; };
        e.run = [=](const QDomElement &el, QByteArray &out, Vals &vals) {
            QXmppIq o; o.parse(el); out = ser(o); vals = tv(o);
            if (el.namespaceURI() != u"jabber:client" || stanzaHazard(el)) g_outsideModel = true;   // a stanza lives in the stream's namespace
            return true;
        };
        e.build = [=](const Vals &v, Vals &rep) {
            QXmppIq o; o.setLang(v.at(0).s); o.setId(v.at(1).s); o.setTo(v.at(2).s); o.setFrom(v.at(3).s); o.setType(QXmppIq::Type(int(v.at(4).n)));
            QXmppElementList l; for (auto &t : v.at(5).items) l << elementOf(t, "jabber:client"); o.setExtensions(l);
            o.setError(errOf(v.at(6)));
            rep = tv(o); return ser(o);
        };
        t.push_back(e);
    }
    {
        // the presence envelope
        using P = QXmppPresence;
        ClassEntry e; e.name = "Presence"; e.cxx = "QXmppPresence"; e.wrapNs = "jabber:client"; e.hasRest = true;
        e.fieldNames = { "lang", "id", "to", "from", "type", "show", "status", "priority", "error", "muc", "mucUser", "caps", "moved", "idle", "mix", "addresses", "extensions" };
        auto mucItemVals = [](const QXmppMucItem &o) {
            return Vals { int(o.affiliation()) == 0 ? vO(false) : vO(true, quint64(int(o.affiliation()) - 1)), vS(o.jid()), vS(o.nick()),
                          int(o.role()) == 0 ? vO(false) : vO(true, quint64(int(o.role()) - 1)), vR({ vS(o.actor()) }), vR({ vS(o.reason()) }) };
        };
        auto tv = [=](const P &o) {
            if (o.vCardUpdateType() != P::VCardUpdateNone || o.isPreparingMujiSession() || !o.mujiContents().isEmpty()) g_outsideModel = true;   // not modelled
            int t = int(o.type());   // enum: Error, Available, Unavailable, ...; the schema lists the types without Available
            Val type = t == 1 ? vO(false) : vO(true, quint64(t == 0 ? 0 : t - 1));
            int sh = int(o.availableStatusType());
            Vals codes; for (int c : o.mucStatusCodes()) codes.push_back(vR({ vI(c) }));
            const bool caps = !o.capabilityHash().isEmpty() && !o.capabilityNode().isEmpty() && !o.capabilityVer().isEmpty();
            if (!caps && (!o.capabilityHash().isEmpty() || !o.capabilityNode().isEmpty() || !o.capabilityVer().isEmpty())) stat("presence_partial_caps_reported_unset");
            QByteArray ver = o.capabilityVer();
            return Vals { vS(o.lang()), vS(o.id()), vS(o.to()), vS(o.from()), type,
                          vR({ sh == 0 ? vO(false) : vO(true, quint64(sh - 1)) }), vR({ vS(o.statusText()) }), vR({ vI(o.priority()) }),
                          stanzaErrorVal(o.error()),
                          o.isMucSupported() ? vR({ vR({ vS(o.mucPassword()) }) }) : vA(),
                          vR({ vR(mucItemVals(o.mucItem())), vL(codes) }),
                          caps ? vR({ vS(o.capabilityHash()), vS(o.capabilityNode()), vS(QString::fromLatin1(ver.constData(), ver.size())) }) : vR({ vS(QString()), vS(QString()), vS(QString()) }),
                          vR({ vR({ vS(o.oldJid()) }) }), vR({ vD(o.lastUserInteraction()) }),
                          vR({ vR({ vS(o.mixUserJid()) }), vR({ vS(o.mixUserNick()) }) }),
                          addressesVal(o.extendedAddresses()), vL(restVals(o.extensions())) };
        };
        e.run = [=](const QDomElement &el, QByteArray &out, Vals &vals) {
            P o; o.parse(el); out = ser(o); vals = tv(o);
            if (el.namespaceURI() != u"jabber:client" || stanzaHazard(el)) g_outsideModel = true;
            int idle = 0, invalidAddr = 0;
            for (auto c = el.firstChildElement(); !c.isNull(); c = c.nextSiblingElement()) {
                if (c.tagName() == u"idle" && c.namespaceURI() == u"urn:xmpp:idle:1") idle++;   // a later <idle/> without `since` keeps the earlier date
            }
            auto addrs = firstChildElement(el, u"addresses");
            for (auto a = addrs.firstChildElement("address"); !a.isNull(); a = a.nextSiblingElement("address")) invalidAddr++;
            if (idle > 1) g_outsideModel = true;
            // a valid date-time that cannot be printed (UTC year > 9999): <idle/> is written without `since`
            // (a valid but unprintable date, UTC year > 9999, is not written since /repo 9ef1911 and reported as "no date" by vD)
            if (o.lastUserInteraction().isValid() && QXmppUtils::datetimeToString(o.lastUserInteraction()).isEmpty()) g_failHint = ":idle-unprintable-date";
            return true;
        };
        e.build = [=](const Vals &v, Vals &rep) {
            P o;
            o.setLang(v.at(0).s); o.setId(v.at(1).s); o.setTo(v.at(2).s); o.setFrom(v.at(3).s);
            o.setType(v.at(4).has ? P::Type(v.at(4).n == 0 ? 0 : int(v.at(4).n) + 1) : P::Available);
            { const Val &s = v.at(5).items.at(0); o.setAvailableStatusType(P::AvailableStatusType(s.has ? int(s.n) + 1 : 0)); }
            o.setStatusText(v.at(6).items.at(0).s); o.setPriority(int(intOfVal(v.at(7).items.at(0))));
            o.setError(stanzaErrorOf(v.at(8)));
            if (v.at(9).kind == 'R') { o.setMucSupported(true); o.setMucPassword(v.at(9).items.at(0).items.at(0).s); }
            {
                auto &mu = v.at(10).items; auto &it = mu.at(0).items; QXmppMucItem mi;
                mi.setAffiliation(QXmppMucItem::Affiliation(it.at(0).has ? int(it.at(0).n) + 1 : 0)); mi.setJid(it.at(1).s); mi.setNick(it.at(2).s);
                mi.setRole(QXmppMucItem::Role(it.at(3).has ? int(it.at(3).n) + 1 : 0)); mi.setActor(it.at(4).items.at(0).s); mi.setReason(it.at(5).items.at(0).s);
                o.setMucItem(mi);
                QList<int> codes; for (auto &c : mu.at(1).items) codes << int(intOfVal(c.items.at(0))); o.setMucStatusCodes(codes);
            }
            { auto &c = v.at(11).items; o.setCapabilityHash(c.at(0).s); o.setCapabilityNode(c.at(1).s); o.setCapabilityVer(c.at(2).s.toLatin1()); }
            o.setOldJid(v.at(12).items.at(0).items.at(0).s); o.setLastUserInteraction(dateOf(v.at(13).items.at(0)));
            o.setMixUserJid(v.at(14).items.at(0).items.at(0).s); o.setMixUserNick(v.at(14).items.at(1).items.at(0).s);
            o.setExtendedAddresses(addressesOf(v.at(15)));
            QXmppElementList l; for (auto &t : v.at(16).items) l << elementOf(t, "jabber:client"); o.setExtensions(l);
            rep = tv(o); return ser(o);
        };
        t.push_back(e);
    }
    {
        // the message envelope, core (see Classes.lean: Message)
        using M = QXmppMessage;
        ClassEntry e; e.name = "Message"; e.cxx = "QXmppMessage"; e.wrapNs = "jabber:client"; e.hasRest = true;
        e.fieldNames = { "lang", "id", "to", "from", "type", "error", "private", "noPermanentStore", "noStore", "noCopy", "store", "stanzaIds", "originId",
                         "subject", "body", "thread", "outOfBandUrls", "state", "receiptRequested", "attention", "mucInvitation", "replaceId", "markable",
                         "attachId", "spoiler", "mixInvitation", "trustMessage", "reply", "addresses", "extensions" };
        auto vBytes2 = [](const QByteArray &b) { return vS(QString::fromLatin1(b.constData(), b.size())); };
        auto keyList2 = [vBytes2](const QList<QByteArray> &l) { Vals items; for (auto &b : l) items.push_back(vR({ vBytes2(b) })); return vL(items); };
        auto keyListOf2 = [](const Val &l) { QList<QByteArray> o; for (auto &it : l.items) o.append(it.items.at(0).s.toLatin1()); return o; };
        auto flag = [](bool b) { return b ? vR({}) : vA(); };
        auto tv = [=](const M &o) {
            // parts of the class the schema does not describe
            if (!o.mixUserJid().isEmpty() || !o.mixUserNick().isEmpty() || !o.encryptionMethodNs().isEmpty() || !o.xhtml().isEmpty() || o.stamp().isValid()
                || !o.receiptId().isEmpty() || !o.bitsOfBinaryData().isEmpty() || o.marker() != M::NoMarker || o.jingleMessageInitiationElement()
                || o.reaction() || !o.sharedFiles().isEmpty() || !o.fileSourcesAttachments().isEmpty() || o.callInviteElement() || !o.fallbackMarkers().isEmpty()
                || !o.e2eeFallbackBody().isEmpty())
                g_outsideModel = true;
            Vals sids; for (auto &s : o.stanzaIds()) sids.push_back(vR({ vS(s.id), vS(s.by) }));
            Vals oobs; for (auto &u : o.outOfBandUrls()) oobs.push_back(vR({ vR({ vS(u.url()) }), u.description() ? vR({ vS(*u.description()) }) : vA() }));
            int st = int(o.state());
            Val mixInv = vA();
            if (auto mi = o.mixInvitation()) mixInv = vR({ vR({ vS(mi->inviterJid()) }), vR({ vS(mi->inviteeJid()) }), vR({ vS(mi->channelJid()) }), vR({ vS(mi->token()) }) });
            Val trust = vA();
            if (auto tm = o.trustMessageElement()) {
                Vals owners;
                for (auto &k : tm->keyOwners()) owners.push_back(vR({ vS(k.jid()), keyList2(k.trustedKeys()), keyList2(k.distrustedKeys()) }));
                trust = vR({ vS(tm->usage()), vS(tm->encryption()), vL(owners) });
            }
            Val reply = vA();
            if (auto r = o.reply()) reply = vR({ vS(r->to), vS(r->id) });
            return Vals { vS(o.lang()), vS(o.id()), vS(o.to()), vS(o.from()), vN(quint64(int(o.type()))), stanzaErrorVal(o.error()),
                          flag(o.isPrivate()), flag(o.hasHint(M::NoPermanentStore)), flag(o.hasHint(M::NoStore)), flag(o.hasHint(M::NoCopy)), flag(o.hasHint(M::Store)),
                          vL(sids), o.originId().isNull() ? vA() : vR({ vS(o.originId()) }),
                          vR({ vS(o.subject()) }), vR({ vS(o.body()) }),
                          o.thread().isEmpty() ? vR({ vS(QString()), vS(QString()) }) : vR({ vS(o.parentThread()), vS(o.thread()) }),
                          vL(oobs), vR({ (st <= 0 || st > 5) ? vO(false) : vO(true, quint64(st - 1)), vS(QString()) }),
                          flag(o.isReceiptRequested()), flag(o.isAttentionRequested()),
                          o.mucInvitationJid().isEmpty() ? vR({ vS(QString()), vS(QString()), vS(QString()) })
                                                         : vR({ vS(o.mucInvitationJid()), vS(o.mucInvitationPassword()), vS(o.mucInvitationReason()) }),
                          vR({ vS(o.replaceId()) }), flag(o.isMarkable()), vR({ vS(o.attachId()) }),
                          o.isSpoiler() ? vR({ vS(o.spoilerHint()) }) : vA(), mixInv, trust, reply,
                          addressesVal(o.extendedAddresses()), vL(restVals(o.extensions())) };
        };
        e.run = [=](const QDomElement &el, QByteArray &out, Vals &vals) {
            M o; o.parse(el); out = ser(o); vals = tv(o);
            if (el.namespaceURI() != u"jabber:client" || stanzaHazard(el)) g_outsideModel = true;
            static const char *UNMODELLED[][2] = { { "mix", "urn:xmpp:mix:core:1" }, { "encryption", "urn:xmpp:eme:0" }, { "html", "http://jabber.org/protocol/xhtml-im" },
                { "delay", "urn:xmpp:delay" }, { "x", "jabber:x:delay" }, { "received", "urn:xmpp:receipts" }, { "data", "urn:xmpp:bob" }, { "", "urn:xmpp:jingle-message:0" },
                { "reactions", "urn:xmpp:reactions:0" }, { "", "urn:xmpp:sfs:0" }, { "", "urn:xmpp:call-invites:0" }, { "fallback", "urn:xmpp:fallback:0" }, { "", "urn:xmpp:omemo:2" } };
            for (auto c = el.firstChildElement(); !c.isNull(); c = c.nextSiblingElement()) {
                for (auto &u : UNMODELLED) if (c.namespaceURI() == QLatin1String(u[1]) && (!*u[0] || c.tagName() == QLatin1String(u[0]))) g_outsideModel = true;
                if (c.namespaceURI() == u"urn:xmpp:chat-markers:0" && c.tagName() != u"markable") g_outsideModel = true;
                // a QString that is null without the attribute and empty with id="": only the latter is written back
                if (c.tagName() == u"origin-id" && c.namespaceURI() == u"urn:xmpp:sid:0" && !c.hasAttribute("id")) g_outsideModel = true;
            }
            return true;
        };
        e.build = [=](const Vals &v, Vals &rep) {
            M o; o.setLang(v.at(0).s); o.setId(v.at(1).s); o.setTo(v.at(2).s); o.setFrom(v.at(3).s); o.setType(M::Type(int(v.at(4).n)));
            o.setError(stanzaErrorOf(v.at(5)));
            o.setPrivate(v.at(6).kind == 'R');
            if (v.at(7).kind == 'R') o.addHint(M::NoPermanentStore); if (v.at(8).kind == 'R') o.addHint(M::NoStore);
            if (v.at(9).kind == 'R') o.addHint(M::NoCopy); if (v.at(10).kind == 'R') o.addHint(M::Store);
            { QVector<QXmppStanzaId> l; for (auto &it : v.at(11).items) l.push_back(QXmppStanzaId { it.items.at(0).s, it.items.at(1).s }); o.setStanzaIds(l); }
            if (v.at(12).kind == 'R') { QString s = v.at(12).items.at(0).s; o.setOriginId(s.isNull() ? QString("") : s); }
            o.setSubject(v.at(13).items.at(0).s); o.setBody(v.at(14).items.at(0).s);
            o.setParentThread(v.at(15).items.at(0).s); o.setThread(v.at(15).items.at(1).s);
            { QVector<QXmppOutOfBandUrl> l; for (auto &it : v.at(16).items) { QXmppOutOfBandUrl u; u.setUrl(it.items.at(0).items.at(0).s); if (it.items.at(1).kind == 'R') u.setDescription(it.items.at(1).items.at(0).s); l.push_back(u); } o.setOutOfBandUrls(l); }
            { const Val &st = v.at(17).items.at(0); o.setState(M::State(st.has ? int(st.n) + 1 : 0)); }
            o.setReceiptRequested(v.at(18).kind == 'R'); o.setAttentionRequested(v.at(19).kind == 'R');
            { auto &mi = v.at(20).items; o.setMucInvitationJid(mi.at(0).s); o.setMucInvitationPassword(mi.at(1).s); o.setMucInvitationReason(mi.at(2).s); }
            o.setReplaceId(v.at(21).items.at(0).s); o.setMarkable(v.at(22).kind == 'R'); o.setAttachId(v.at(23).items.at(0).s);
            if (v.at(24).kind == 'R') { o.setIsSpoiler(true); o.setSpoilerHint(v.at(24).items.at(0).s); }
            if (v.at(25).kind == 'R') { auto &f = v.at(25).items; QXmppMixInvitation mi; mi.setInviterJid(f.at(0).items.at(0).s); mi.setInviteeJid(f.at(1).items.at(0).s); mi.setChannelJid(f.at(2).items.at(0).s); mi.setToken(f.at(3).items.at(0).s); o.setMixInvitation(mi); }
            if (v.at(26).kind == 'R') {
                auto &f = v.at(26).items; QXmppTrustMessageElement tm; tm.setUsage(f.at(0).s); tm.setEncryption(f.at(1).s);
                for (auto &it : f.at(2).items) { QXmppTrustMessageKeyOwner k; k.setJid(it.items.at(0).s); k.setTrustedKeys(keyListOf2(it.items.at(1))); k.setDistrustedKeys(keyListOf2(it.items.at(2))); tm.addKeyOwner(k); }
                o.setTrustMessageElement(tm);
            }
            if (v.at(27).kind == 'R') o.setReply(QXmpp::Reply { v.at(27).items.at(0).s, v.at(27).items.at(1).s });
            o.setExtendedAddresses(addressesOf(v.at(28)));
            QXmppElementList l; for (auto &t : v.at(29).items) l << elementOf(t, "jabber:client"); o.setExtensions(l);
            rep = tv(o); return ser(o);
        };
        t.push_back(e);
    }
    {
        // QXmppJingleRtpEncryption inside a holder <x>: parse() gets the <encryption/> child, toXml() writes it only with a valid <crypto/>
        using Enc = QXmppJingleRtpEncryption;
        ClassEntry e; e.name = "JingleRtpEncryption"; e.cxx = "QXmppJingleRtpEncryption"; e.fieldNames = { "encryption" };
        auto heldX = [](const Enc &o) { QByteArray out; QBuffer buf(&out); buf.open(QIODevice::WriteOnly); QXmlStreamWriter w(&buf); w.writeStartElement("x"); o.toXml(&w); w.writeEndElement(); return out; };
        auto tv = [](const Enc &o) {
            Vals cs; for (auto &c : o.cryptoElements()) cs.push_back(vR({ vN(c.tag()), vS(c.cryptoSuite()), vS(c.keyParams()), vS(c.sessionParams()) }));
            // without a crypto element nothing is written ("no encryption"): `required` alone is reported unset
            if (cs.empty()) { if (o.isRequired()) stat("jingle_encryption_required_without_crypto"); return Vals { vR({ vB(false), vL({}) }) }; }
            return Vals { vR({ vB(o.isRequired()), vL(cs) }) };
        };
        e.run = [=](const QDomElement &el, QByteArray &out, Vals &vals) {
            Enc o; auto ee = firstChildElement(el, u"encryption", u"urn:xmpp:jingle:apps:rtp:1");
            if (!ee.isNull()) o.parse(ee);
            out = heldX(o); vals = tv(o); return true;
        };
        e.build = [=](const Vals &v, Vals &rep) {
            Enc o; auto &f = v.at(0).items; o.setRequired(f.at(0).b);
            QVector<QXmppJingleRtpCryptoElement> cs;
            for (auto &it : f.at(1).items) { QXmppJingleRtpCryptoElement c; c.setTag(quint32(it.items.at(0).n)); c.setCryptoSuite(it.items.at(1).s); c.setKeyParams(it.items.at(2).s); c.setSessionParams(it.items.at(3).s); cs.push_back(c); }
            o.setCryptoElements(cs);
            rep = tv(o); return heldX(o);
        };
        t.push_back(e);
    }
    return t;
}

// parse `xml` the way qxmpp receives it and run the real class on it
static bool runReal(const ClassEntry &c, const QByteArray &xml, QByteArray &out, Vals &vals, bool &wellFormed)
{
    QByteArray text = c.iqPayload ? QByteArray("<iq xmlns=\"jabber:client\">") + xml + "</iq>"
        : c.streamChild ? QByteArray("<stream:stream xmlns=\"jabber:client\" xmlns:stream=\"http://etherx.jabber.org/streams\">") + xml + "</stream:stream>"
                        : xml;
    if (!c.wrapNs.isEmpty()) text = QByteArray("<w xmlns=\"") + c.wrapNs + "\">" + xml + "</w>";
    QDomDocument doc;
    wellFormed = doc.setContent(text, true);
    if (!wellFormed) return false;
    if (c.streamChild || !c.wrapNs.isEmpty()) {
        auto el = doc.documentElement().firstChildElement();
        if (el.isNull()) { wellFormed = false; return false; }
        return c.run(el, out, vals);
    }
    return c.run(doc.documentElement(), out, vals);
}

// ---------------------------------------------------------------- driver
static std::vector<std::string> askDriver(const std::vector<std::string> &ops)
{
    // the framework runs harnesses with cwd = <verif>/.build (also in scratch copies of /verif): relative paths
    QDir().mkpath("harness");
    static const std::string tagp = "harness/codec.driver." + std::to_string(QCoreApplication::applicationPid());
    std::string in = tagp + ".in", outp = tagp + ".out";
    { std::ofstream f(in); for (auto &o : ops) f << o << "\n"; }
    std::string drv = QFile::exists("../lean/.lake/build/bin/qxdriver_c01") ? "../lean/.lake/build/bin/qxdriver_c01" : "/verif/lean/.lake/build/bin/qxdriver_c01";
    std::string cmd = drv + " < " + in + " > " + outp;
    if (system(cmd.c_str()) != 0) { fprintf(stderr, "driver failed\n"); exit(3); }
    std::vector<std::string> res; std::ifstream f(outp); std::string line;
    while (std::getline(f, line)) res.push_back(line);
    if (res.size() != ops.size()) { fprintf(stderr, "driver answered %zu lines for %zu ops\n", res.size(), ops.size()); exit(3); }
    f.close(); QFile::remove(QString::fromStdString(in)); QFile::remove(QString::fromStdString(outp));
    return res;
}

// ---------------------------------------------------------------- mutations
static const char *NS_POOL[] = { "", "urn:bogus", "urn:xmpp:sm:3", "urn:ietf:params:xml:ns:xmpp-stanzas", "urn:ietf:params:xml:ns:xmpp-sasl",
    "urn:xmpp:sasl:2", "urn:xmpp:bind:0", "urn:xmpp:fast:0", "urn:xmpp:csi:0", "urn:xmpp:carbons:2", "jabber:client", "urn:ietf:params:xml:ns:xmpp-bind" };
static const char *TAG_POOL[] = { "bogus", "text", "enable", "enabled", "failed", "inline", "feature", "mechanism", "item-not-found", "not-authorized",
    "bad-auth", "aborted", "jid", "resource", "bind", "fast", "sm", "tag", "x" };
static const char *ATTR_POOL[] = { "bogus", "resume", "max", "id", "h", "previd", "location", "var", "count", "invalidate", "tls-0rtt", "mechanism",
    "delivered", "desc", "jid", "type", "sid" };
static const char *VALUE_POOL[] = { "", "true", "1", "0", "false", "TRUE", " true", "yes", "12", " 12 ", "+5", "-1", "007", "4294967295", "4294967296",
    "2024-02-29T12:00:00Z", "2024-02-29T12:00:00.5+01:00", "2023-02-29T12:00:00Z", "9999-12-31T23:59:59-01:00", "0000-01-01T00:00:00Z", "2024-02-29 12:00", "20240229T120000Z", "2024-02-29", "2024-02-29T24:00:00Z", "2024-02-29t12:00:00z",
    "18446744073709551615", "18446744073709551616", "99999999999999999999999999", "1 2", "-5", "-0", "2147483647", "2147483648", "-2147483648", "-2147483649", "\xE2\x88\x92" "0", "1e3", "0x10", "1,000", "\xE2\x88\x92" "5", "\xEF\xBC\x91\xEF\xBC\x92",
    "\xE3\x80\x80" "7 ", "\t7\n", "<&>\"'", "]]>", "a\r\nb", "\xF0\x9F\x98\x80", "item-not-found" };
#define POOL(p, rng) QString::fromUtf8(p[(rng).below(sizeof(p) / sizeof(p[0]))])
// half of the garbled values are near-valid spellings of booleans / small numbers / enum names
static const char *NEAR_POOL[] = { "1", "true", "0", "false", "01", "+1", " 1", "True", "2", "65536", "not-authorized", "aborted", "sha-256", "member" };
static QString garbleValue(Rng &rng) { return rng.coin() ? POOL(NEAR_POOL, rng) : POOL(VALUE_POOL, rng); }

static void collect(Tree &t, std::vector<Tree *> &els) { if (t.isText) return; els.push_back(&t); for (auto &k : t.kids) collect(k, els); }
static bool hasAttr(const Tree &t, const QString &n) { for (auto &a : t.attrs) if (a.first == n) return true; return false; }

enum { M_ATTR_REMOVE, M_ATTR_GARBLE, M_ATTR_RENAME, M_ATTR_ADD, M_CHILD_DELETE, M_CHILD_DUP, M_CHILD_REORDER, M_RENS, M_RETAG,
       M_FOREIGN_CHILD, M_TEXT_INSERT, M_TEXT_GARBLE, M_ROOT, M_SIBLING_VARIANT, M_KINDS };
static const char *M_NAMES[] = { "attr-remove", "attr-garble", "attr-rename", "attr-add", "child-delete", "child-duplicate", "child-reorder",
    "re-namespace", "re-tag", "foreign-child", "text-insert", "text-garble", "root-change", "sibling-variant" };
// tag names the schema of the class under test knows (driver op codec-tags): material for M_SIBLING_VARIANT
static std::vector<QString> g_classTags;

// applies one mutation of the given kind if it is applicable; returns false otherwise
static bool mutate(Tree &root, int kind, Rng &rng)
{
    std::vector<Tree *> els; collect(root, els);
    Tree *e = els[rng.below(els.size())];
    switch (kind) {
    case M_ATTR_REMOVE: {
        std::vector<Tree *> c; for (auto *x : els) if (!x->attrs.empty()) c.push_back(x);
        if (c.empty()) return false;
        e = c[rng.below(c.size())]; e->attrs.erase(e->attrs.begin() + rng.below(e->attrs.size())); return true; }
    case M_ATTR_GARBLE: {
        std::vector<std::pair<Tree *, size_t>> c;
        for (auto *x : els) for (size_t a = 0; a < x->attrs.size(); a++) if (x->attrs[a].first != "xmlns") c.emplace_back(x, a);
        if (c.empty()) return false;
        auto pick = c[rng.below(c.size())]; pick.first->attrs[pick.second].second = garbleValue(rng); return true; }
    case M_ATTR_RENAME: {
        std::vector<Tree *> c; for (auto *x : els) if (!x->attrs.empty()) c.push_back(x);
        if (c.empty()) return false;
        e = c[rng.below(c.size())]; QString n = POOL(ATTR_POOL, rng);
        if (hasAttr(*e, n)) return false;
        e->attrs[rng.below(e->attrs.size())].first = n; return true; }
    case M_ATTR_ADD: {
        QString n = POOL(ATTR_POOL, rng);
        if (hasAttr(*e, n)) return false;
        e->attrs.emplace_back(n, garbleValue(rng)); return true; }
    case M_CHILD_DELETE: {
        std::vector<Tree *> c; for (auto *x : els) if (!x->kids.empty()) c.push_back(x);
        if (c.empty()) return false;
        e = c[rng.below(c.size())]; e->kids.erase(e->kids.begin() + rng.below(e->kids.size())); return true; }
    case M_CHILD_DUP: {
        std::vector<Tree *> c; for (auto *x : els) if (!x->kids.empty()) c.push_back(x);
        if (c.empty()) return false;
        e = c[rng.below(c.size())]; Tree k = e->kids[rng.below(e->kids.size())];
        if (rng.coin()) { std::vector<Tree *> ke; collect(k, ke); if (!ke.empty() && !ke[0]->attrs.empty()) ke[0]->attrs[0].second = POOL(VALUE_POOL, rng); }
        e->kids.insert(e->kids.begin() + rng.below(e->kids.size() + 1), k); return true; }
    case M_CHILD_REORDER: {
        std::vector<Tree *> c; for (auto *x : els) if (x->kids.size() >= 2) c.push_back(x);
        if (c.empty()) return false;
        e = c[rng.below(c.size())];
        if (rng.coin()) std::reverse(e->kids.begin(), e->kids.end());
        else { size_t i = rng.below(e->kids.size()), j = rng.below(e->kids.size()); if (i == j) j = (i + 1) % e->kids.size(); std::swap(e->kids[i], e->kids[j]); }
        return true; }
    case M_RENS: {
        int which = -1; for (size_t i = 0; i < e->attrs.size(); i++) if (e->attrs[i].first == "xmlns") which = int(i);
        if (which >= 0 && rng.below(3) == 0) { e->attrs.erase(e->attrs.begin() + which); return true; }
        QString ns = POOL(NS_POOL, rng);
        if (which >= 0) e->attrs[which].second = ns; else e->attrs.emplace_back("xmlns", ns);
        return true; }
    case M_RETAG: e->name = POOL(TAG_POOL, rng); return true;
    case M_FOREIGN_CHILD: {
        Tree k; k.name = POOL(TAG_POOL, rng);
        if (rng.coin()) k.attrs.emplace_back("xmlns", POOL(NS_POOL, rng));
        if (rng.coin()) { Tree t; t.isText = true; t.name = POOL(VALUE_POOL, rng); if (!t.name.isEmpty()) k.kids.push_back(t); }
        if (rng.below(3) == 0) { Tree g; g.name = POOL(TAG_POOL, rng); Tree t; t.isText = true; t.name = "deep"; g.kids.push_back(t); k.kids.push_back(g); }
        e->kids.insert(e->kids.begin() + rng.below(e->kids.size() + 1), k); return true; }
    case M_TEXT_INSERT: {
        Tree t; t.isText = true; t.name = POOL(VALUE_POOL, rng);
        if (t.name.isEmpty()) t.name = "x";
        e->kids.insert(e->kids.begin() + rng.below(e->kids.size() + 1), t); return true; }
    case M_TEXT_GARBLE: {
        std::vector<Tree *> c; for (auto *x : els) for (auto &k : x->kids) if (k.isText) c.push_back(&k);
        if (c.empty()) return false;
        c[rng.below(c.size())]->name = POOL(VALUE_POOL, rng) + "z"; return true; }
    case M_SIBLING_VARIANT: {
        // a copy of an existing child under ANOTHER tag the class knows, next to it: two condition elements in one <error/>,
        // two query elements in one <pubsub/>, ... (first-match / last-match / priority rules of the parsers differ here)
        if (g_classTags.empty()) return false;
        std::vector<std::pair<Tree *, size_t>> c;
        for (auto *x : els) for (size_t k = 0; k < x->kids.size(); k++) if (!x->kids[k].isText) c.emplace_back(x, k);
        if (c.empty()) return false;
        auto pick = c[rng.below(c.size())];
        Tree k = pick.first->kids[pick.second];
        k.name = g_classTags[rng.below(g_classTags.size())];
        if (rng.below(4) == 0) k.kids.clear();
        pick.first->kids.insert(pick.first->kids.begin() + pick.second + (rng.coin() ? 1 : 0), k); return true; }
    case M_ROOT: {
        if (rng.coin()) root.name = POOL(TAG_POOL, rng);
        else {
            int which = -1; for (size_t i = 0; i < root.attrs.size(); i++) if (root.attrs[i].first == "xmlns") which = int(i);
            if (which >= 0 && rng.coin()) root.attrs.erase(root.attrs.begin() + which);
            else if (which >= 0) root.attrs[which].second = POOL(NS_POOL, rng);
            else root.attrs.emplace_back("xmlns", POOL(NS_POOL, rng));
        }
        return true; }
    }
    return false;
}

// Documents on which QXmppElement (the passthrough of unknown children) is outside its model `normE`: prefixed element names lose their
// prefix (tagName() is the local name) and `xmlns:p` declarations are not attributes under namespace processing.  (An `xmlns=""` that
// un-declares the parent's namespace is kept since /repo 5969ee4: fixed findings …:input-has-xmlns-undeclaration; such inputs are in the model.)
static bool restHazard(const QByteArray &xml)
{
    if (xml.contains("xmlns:")) return true;
    for (int i = 0; (i = xml.indexOf('<', i)) >= 0; i++) {
        int j = i + 1; if (j < xml.size() && xml[j] == '/') j++;
        while (j < xml.size() && xml[j] != ' ' && xml[j] != '>' && xml[j] != '/') { if (xml[j] == ':') return true; j++; }
    }
    return false;
}

// `--mode c01` / `--mode c02`: report only that property's oracle failures (the findings file is per property);
// without --mode both are reported
static std::string g_mode;
static void fail(const std::string &key, const std::string &replay)
{
    if (g_mode == "c01" && key.rfind("C01:", 0) != 0) { stat("oracle_failures_of_other_property"); return; }
    if (g_mode == "c02" && key.rfind("C02:", 0) != 0) { stat("oracle_failures_of_other_property"); return; }
    oracleFail(key, replay);
}

// ---------------------------------------------------------------- one document through the real class
struct DocResult { bool accepted = false; std::string cin, cout; Vals vals; QByteArray out; };

static bool processDoc(const ClassEntry &c, const QByteArray &xml, const std::string &what, DocResult &r)
{
    g_sortTag = c.sortTag;
    r.cin = canonPlain(xml);
    if (r.cin == "none") { stat("documents_not_wellformed"); return false; }
    if (!c.skipRootTag.isEmpty()) {
        QDomDocument probe;
        if (probe.setContent(xml, false) && probe.documentElement().tagName() == c.skipRootTag) { stat("documents_outside_model_skipped"); return false; }
    }
    printf("I %s %s %s\n", c.name.c_str(), what.c_str(), xml.left(160).toHex().constData()); fflush(stdout);
    bool wf = false;
    g_outsideModel = false; g_failHint.clear();
    r.accepted = runReal(c, xml, r.out, r.vals, wf);
    const std::string failHint = g_failHint;
    if (!wf) { stat("documents_not_wellformed"); return false; }
    const bool outside = g_outsideModel || (c.hasRest && restHazard(xml));
    if (outside) stat("documents_outside_model_oracle_only");
    stat("documents"); stat("documents:" + c.name);
    if (!r.accepted) {
        stat("rejected_by_type_check");
        corr("codec-norm " + c.name + " " + r.cin, "reject");
        corr("codec-dec " + c.name + " " + r.cin, "reject");
        return true;
    }
    r.cout = canonWriter(r.out);
    if (!outside) {
        corr("codec-norm " + c.name + " " + r.cin, r.cout);
        corr("codec-dec " + c.name + " " + r.cin, showVals(r.vals));
    }
    // C02 oracle, model independent: one parse/serialize pass is a fixpoint
    QByteArray out2; Vals vals2; bool wf2 = false;
    bool acc2 = runReal(c, r.out, out2, vals2, wf2);
    if (!wf2) fail("C02:output-not-wellformed:" + c.name, xml.toHex().toStdString());
    // (classes that keep unknown children write them with the declarations QXmppElement chose; a declaration that became redundant because the
    //  stanza itself moved into the stream's namespace is not a different document: compared with namespaces resolved)
    else if (c.hasRest && acc2 && canonWriterResolved(out2, QString::fromLatin1(c.wrapNs)) == canonWriterResolved(r.out, QString::fromLatin1(c.wrapNs))) oraclePass()++;
    else if (!acc2 || canonWriter(out2) != r.cout) {
        fail("C02:not-fixpoint:" + c.name + failHint, xml.toHex().toStdString());
    }
    else oraclePass()++;
    return true;
}

int main(int argc, char **argv)
{
    QCoreApplication app(argc, argv);
    Args args = parseArgs(argc, argv);
    Rng rng(args.seed);
    g_mode = args.mode;
    bool thorough = args.tier == "thorough";
    auto table = classTable();

    // 1. which classes does the model know, and how large is each family
    {
        auto names = splitBlank(askDriver({ "codec-classes" })[0]);
        std::set<std::string> model(names.begin(), names.end()), mine;
        for (auto &c : table) mine.insert(c.name);
        if (model != mine) {
            for (auto &n : model) if (!mine.count(n)) fprintf(stderr, "only in model: %s\n", n.c_str());
            for (auto &n : mine) if (!model.count(n)) fprintf(stderr, "only in harness: %s\n", n.c_str());
            fprintf(stderr, "class tables differ between model and harness\n"); return 3;
        }
        // development aid only (never set by the framework): restrict the run to some classes
        QByteArray only = qgetenv("CODEC_ONLY");
        if (!only.isEmpty()) {
            std::set<std::string> keep; for (auto &n : only.split(',')) keep.insert(n.toStdString());
            std::vector<ClassEntry> t2; for (auto &c : table) if (keep.count(c.name)) t2.push_back(c);
            table = t2;
        }
    }
    std::vector<std::string> ops;
    for (auto &c : table) ops.push_back("codec-count " + c.name);
    auto counts = askDriver(ops);
    ops.clear();
    std::vector<std::vector<unsigned>> indices(table.size());
    for (size_t k = 0; k < table.size(); k++) {
        unsigned n = unsigned(strtoul(counts[k].c_str(), nullptr, 10));
        for (unsigned i = 0; i < n; i++) indices[k].push_back(i);
        unsigned extra = n <= 1 ? 0 : (thorough ? 1000 : 150);
        for (unsigned j = 0; j < extra; j++) indices[k].push_back(1000 + rng.below(1u << 30));
        for (unsigned i : indices[k]) { ops.push_back("codec-val " + table[k].name + " " + std::to_string(i)); ops.push_back("codec-gen " + table[k].name + " " + std::to_string(i)); }
    }
    auto gen = askDriver(ops);
    std::vector<std::vector<QString>> classTags(table.size());
    {
        std::vector<std::string> tops; for (auto &c : table) tops.push_back("codec-tags " + c.name);
        auto tres = askDriver(tops);
        for (size_t k = 0; k < table.size(); k++) for (auto &h : splitBlank(tres[k])) if (h != "-") classTags[k].push_back(unhexQ(h));
    }

    // (0) corpus: minimized documents of past oracle failures, first
    {
        static const char *CORPUS[][2] = {
            // count read with toInt() and no fallback: "unset" came back as 0 on the second pass (before /repo 4885fb5)
            { "ResultSetReply", "<x><set xmlns=\"http://jabber.org/protocol/rsm\"><first>a</first><count>-5</count></set></x>" },
            // isNull() tested == -1, toXml tests >= 0: an empty <set/> was written, then nothing (before /repo 4885fb5)
            { "ResultSetQuery", "<x><set xmlns=\"http://jabber.org/protocol/rsm\"><index>-11</index></set></x>" },
            { "ResultSetReply", "<x><set xmlns=\"http://jabber.org/protocol/rsm\"><first index=\"-7\"/></set></x>" },
            // tls-0rtt dropped by toXml before /repo e3c2af8
            { "FastFeature", "<fast xmlns=\"urn:xmpp:fast:0\" tls-0rtt=\"true\"/>" },
            // MAM query id was read from `queryId` but written as `queryid` before /repo dfee378: the second pass lost it
            { "MamQueryIq", "<query xmlns=\"urn:xmpp:mam:2\" queryId=\"q1\"/>" },
            // expiry in UTC year 10000: valid, was written as expiry="" and dropped by the second pass before /repo 339fb3c
            { "PubSubSubscriptionEvent", "<subscription jid=\"a@b\" expiry=\"9999-12-31T23:59:59-01:00\"/>" },
            // an invalid <crypto/> was kept, <encryption/> written empty and nothing on the next pass (before /repo 74a3584)
            // an unknown child that un-declares its parent's namespace: QXmppElement dropped the xmlns="" before /repo 5969ee4
            { "Iq", "<iq type=\"get\"><q xmlns=\"urn:verif:a\"><name xmlns=\"\"/></q></iq>" },
            { "Message", "<message><q xmlns=\"urn:verif:a\"><body xmlns=\"\">t</body></q><z xmlns=\"\"/></message>" },
            { "JingleRtpEncryption", "<x><encryption xmlns=\"urn:xmpp:jingle:apps:rtp:1\"><crypto/></encryption></x>" },
            // XEP-0319 idle time in UTC year 10000: valid, was written as <idle/> without `since` and dropped by the second pass before /repo 9ef1911
            { "Presence", "<presence><idle xmlns=\"urn:xmpp:idle:1\" since=\"9999-12-31T23:59:59-01:00\"/></presence>" },
        };
        for (auto &row : CORPUS)
            for (auto &c : table)
                if (c.name == row[0]) { corr("codec-reset " + c.name, "ok"); DocResult r; if (processDoc(c, QByteArray(row[1]), "corpus", r)) stat("corpus_documents"); }
    }
    // (0b) witnesses of recorded findings that lie outside the canonical values of a schema (evaluated on the real class only)
    {
        // QXmppStanza::Error with by / text but neither type nor condition: the setters accept it, toXml writes nothing
        QXmppStanza::Error e; e.setBy(QStringLiteral("a@b")); e.setText(QStringLiteral("x"));
        QByteArray out; { QBuffer buf(&out); buf.open(QIODevice::WriteOnly); QXmlStreamWriter w(&buf); w.writeStartElement("iq"); w.writeDefaultNamespace("jabber:client"); e.toXml(&w); w.writeEndElement(); }
        QDomDocument doc; QXmppStanza::Error back;
        if (doc.setContent(out, true)) { auto ee = firstChildElement(doc.documentElement(), u"error"); if (!ee.isNull()) back.parse(ee); }
        if (back.text() != e.text() || back.by() != e.by()) fail("C01:field-mismatch:StanzaError:fields-without-type-and-condition", "by=a@b text=x -> " + out.toStdString());
        else oraclePass()++;
    }
    {
        // QXmppIq read xml:lang but never wrote it before /repo fc1d2c5 (fixed finding C01:field-mismatch:Iq:lang); kept as regression
        QXmppIq iq; iq.setId(QStringLiteral("i1")); iq.setLang(QStringLiteral("de"));
        QByteArray out = ser(iq);
        QDomDocument doc; QXmppIq back;
        if (doc.setContent(QByteArray("<w xmlns=\"jabber:client\">") + out + "</w>", true)) back.parse(doc.documentElement().firstChildElement());
        if (back.lang() != iq.lang()) fail("C01:field-mismatch:Iq:lang", "lang=de -> " + out.toStdString()); else oraclePass()++;
    }
    // (0c) RUNTIME oracle (no Lean model: doubles are opaque tokens for tier C): QXmppGeolocItem keeps what it is given
    {
        auto roundtrip = [&](double lat, double lon, double acc, const std::string &what) {
            QXmppGeolocItem it; it.setId(QStringLiteral("i")); it.setLatitude(lat); it.setLongitude(lon); it.setAccuracy(acc);
            QByteArray out = ser(it);
            QDomDocument doc; QXmppGeolocItem back;
            if (!doc.setContent(out, true)) { fail("C01:own-output-not-wellformed:QXmppGeolocItem", what); return; }
            back.parse(doc.documentElement());
            auto same = [](std::optional<double> a, std::optional<double> b) { return a.has_value() == b.has_value() && (!a || *a == *b); };
            std::string rep = what + " -> " + out.toStdString();
            if (!same(it.latitude(), back.latitude())) fail("C01:field-mismatch:QXmppGeolocItem:latitude", rep); else oraclePass()++;
            if (!same(it.longitude(), back.longitude())) fail("C01:field-mismatch:QXmppGeolocItem:longitude", rep); else oraclePass()++;
            if (!same(it.accuracy(), back.accuracy())) fail("C01:field-mismatch:QXmppGeolocItem:accuracy", rep); else oraclePass()++;
            stat("geoloc_double_roundtrips");
        };
        roundtrip(48.123456789, 11.987654321, 12.3456789, "lat=48.123456789 lon=11.987654321 accuracy=12.3456789");   // 6 significant digits only before /repo 9e5c1b3 (fixed findings C01:field-mismatch:QXmppGeolocItem:*)
        roundtrip(48.5, -11.25, 3, "lat=48.5 lon=-11.25 accuracy=3");
        for (int i = 0; i < (thorough ? 2000 : 200); i++) {
            double lat = (double(rng.below(1u << 30)) / double(1u << 30)) * 180.0 - 90.0, lon = (double(rng.below(1u << 30)) / double(1u << 30)) * 360.0 - 180.0;
            double acc = double(rng.below(1u << 30)) / 1024.0;
            char buf[128]; snprintf(buf, sizeof buf, "lat=%.17g lon=%.17g accuracy=%.17g", lat, lon, acc);
            roundtrip(lat, lon, acc, buf);
        }
    }
    // (0d) RUNTIME oracle (no Lean model: QXmppMessage subclasses have no schema): a PubSub event of every type with every optional part
    //      set, followed by stanza-level extensions (XEP-0033 addresses, an unknown element), serializes to well-formed XML that the class
    //      accepts again and writes identically (the event's own elements must be closed before the message continues)
    {
        using Ev = QXmppPubSubEvent<QXmppPubSubBaseItem>;
        for (int type = 0; type <= int(Ev::Subscription); type++)
            for (int variant = 0; variant < 8; variant++) {
                Ev ev; ev.setEventType(Ev::EventType(type)); ev.setNode(QStringLiteral("princely_musings")); ev.setId(QStringLiteral("m1"));
                const bool parts = variant & 1;   // the optional parts that belong to the event type
                if (type == int(Ev::Delete) && parts) ev.setRedirectUri(QStringLiteral("xmpp:hamlet@denmark.lit?;node=blog"));
                if (type == int(Ev::Retract)) ev.setRetractIds(parts ? QStringList { QStringLiteral("r1"), QStringLiteral("r<2>") } : QStringList { QStringLiteral("r1") });
                if (type == int(Ev::Items) && parts) { QXmppPubSubBaseItem it; it.setId(QStringLiteral("i1")); ev.setItems({ it }); }
                if (type == int(Ev::Subscription)) {
                    QXmppPubSubSubscription sub; sub.setJid(QStringLiteral("a@b")); if (parts) { sub.setNode(QStringLiteral("n")); sub.setState(QXmppPubSubSubscription::Subscribed); }
                    ev.setSubscription(sub);
                }
                if (type == int(Ev::Configuration) && parts) {
                    QXmppDataForm f; f.setType(QXmppDataForm::Result); QXmppDataForm::Field fd(QXmppDataForm::Field::TextSingleField); fd.setKey(QStringLiteral("pubsub#title")); fd.setValue(QStringLiteral("t")); f.setFields({ fd });
                    ev.setConfigurationForm(f);
                }
                if (variant & 2) ev.setBody(QStringLiteral("b <&> ]]>"));
                if (variant & 4) {
                    QXmppElement headers; headers.setTagName(QStringLiteral("headers")); headers.setAttribute(QStringLiteral("xmlns"), QStringLiteral("http://jabber.org/protocol/shim"));
                    ev.setExtensions(QXmppElementList() << headers);
                    QXmppExtendedAddress a; a.setJid(QStringLiteral("c@d")); a.setType(QStringLiteral("to")); ev.setExtendedAddresses({ a });
                }
                QByteArray out = ser(ev);
                std::string what = "event type " + std::to_string(type) + " variant " + std::to_string(variant) + " -> " + out.toStdString();
                QDomDocument doc;
                if (!doc.setContent(out, true)) { fail("C02:output-not-wellformed:QXmppPubSubEvent:own-object", what); continue; }
                Ev back; back.parse(doc.documentElement());
                if (ser(back) != out) fail("C01:own-form-roundtrip:QXmppPubSubEvent:own-object", what); else oraclePass()++;
                stat("pubsub_event_objects");
            }
    }
    const int mutationsPerDoc = thorough ? 6 : 3;
    size_t g = 0;
    std::vector<std::string> fullDoc(table.size());  // the largest generated document of each class: spelling sweep, cross-class feeding
    for (size_t k = 0; k < table.size(); k++) {
        const ClassEntry &c = table[k];
        stat("schemas_modelled");
        g_classTags = classTags[k];
        g_sortTag = c.sortTag;
        corr("codec-reset " + c.name, "ok");
        for (unsigned i : indices[k]) {
            const std::string valText = gen[g++], treeText = gen[g++];
            Vals v; Tree doc;
            if (!valsOfText(valText, v) || !treeOfCanon(treeText, doc)) { fprintf(stderr, "cannot read driver output for %s %u: %s / %s\n", c.name.c_str(), i, valText.c_str(), treeText.c_str()); return 3; }
            if (i < 600 && treeText.size() > fullDoc[k].size()) fullDoc[k] = treeText;
            std::string what = "gen" + std::to_string(i);

            // (a) object built from the values with the real setters: real toXml vs model encode; C01 field oracle.
            // `set` = what the object reports after the setters ran (a setter may normalise, e.g. to a bare JID).
            Vals set;
            QByteArray own = c.build(v, set);
            std::string setText = showVals(set);
            if (setText != valText) stat("values_normalised_by_setters");
            std::string ownCanon = canonWriter(own);
            corr("codec-enc " + c.name + " " + setText, ownCanon);
            stat("values");
            if (hasBlank(set)) stat("oracle_skipped_blank_string");
            else {
                QByteArray out; Vals back; bool wf = false;
                bool acc = runReal(c, own, out, back, wf);
                if (!wf) fail("C01:own-output-not-wellformed:" + c.name, setText);
                else if (!acc) fail("C01:own-output-rejected:" + c.name, setText);
                else {
                    std::string p = diffPath(set, back, &c.fieldNames);
                    if (!p.empty()) fail("C01:field-mismatch:" + c.name + ":" + p, setText + " -> " + showVals(back));
                    else oraclePass()++;
                    if (canonWriter(out) != ownCanon) fail("C01:own-form-roundtrip:" + c.name, setText);
                    else oraclePass()++;
                }
            }
            if (i < 3) sample(c.name + " " + valText + " => " + own.left(300).toStdString());

            // (b) the model's document for the same values through the real parser
            DocResult r;
            QByteArray xml = xmlOfTree(doc);
            processDoc(c, xml, what, r);
            if (r.cin == treeText) {
                stat("own_form_documents");
                // own-form round trip on the generated document (the document is the model's; the comparison is on the real output)
                if (!r.accepted || r.cout != r.cin) fail("C01:own-form-roundtrip:" + c.name, xml.toHex().toStdString());
                else oraclePass()++;
            } else stat("documents_changed_by_qdom_blank_text");

            // (c) mutated documents
            for (int m = 0; m < mutationsPerDoc; m++) {
                Tree mt = doc;
                int nm = 1 + (rng.below(4) == 0 ? rng.below(3) : 0);
                std::string label;
                for (int q = 0; q < nm; q++) {
                    int kind = rng.below(M_KINDS);
                    if (mutate(mt, kind, rng)) { label += std::string(label.empty() ? "" : "+") + M_NAMES[kind]; stat(std::string("mutation:") + M_NAMES[kind]); }
                }
                if (label.empty()) continue;
                DocResult mr;
                if (processDoc(c, xmlOfTree(mt), what + ":" + label, mr)) stat("mutated_documents");
            }
        }
    }
    // (e) spelling sweep: every attribute value and every text node of the fullest document of each class replaced by every
    //     pool value in turn (alternative boolean spellings, integers at and beyond the bounds, blanks, unknown enum names, ...)
    for (size_t k = 0; k < table.size(); k++) {
        Tree doc; if (!treeOfCanon(fullDoc[k], doc)) continue;
        corr("codec-reset " + table[k].name, "ok");
        std::vector<Tree *> els; collect(doc, els);
        std::vector<QString> values;
        for (auto *p : NEAR_POOL) values.push_back(QString::fromUtf8(p));
        for (auto *p : VALUE_POOL) values.push_back(QString::fromUtf8(p));
        for (size_t e = 0; e < els.size(); e++) {
            for (size_t a = 0; a < els[e]->attrs.size(); a++) {
                if (els[e]->attrs[a].first == "xmlns") continue;
                for (auto &val : values) {
                    Tree mt = doc; std::vector<Tree *> me; collect(mt, me);
                    me[e]->attrs[a].second = val;
                    DocResult r;
                    if (processDoc(table[k], xmlOfTree(mt), "sweep-attr", r)) stat("spelling_sweep_documents");
                }
            }
            for (size_t c = 0; c < els[e]->kids.size(); c++) {
                if (!els[e]->kids[c].isText) continue;
                for (auto &val : values) {
                    if (val.isEmpty()) continue;
                    Tree mt = doc; std::vector<Tree *> me; collect(mt, me);
                    me[e]->kids[c].name = val;
                    DocResult r;
                    if (processDoc(table[k], xmlOfTree(mt), "sweep-text", r)) stat("spelling_sweep_documents");
                }
            }
        }
    }
    // (d) every parser on the documents of every other class
    for (size_t k = 0; k < table.size(); k++) {
        corr("codec-reset " + table[k].name, "ok");
        for (size_t j = 0; j < table.size(); j++) {
            if (j == k) continue;
            Tree doc; if (!treeOfCanon(fullDoc[j], doc)) continue;
            DocResult r;
            if (processDoc(table[k], xmlOfTree(doc), "foreign:" + table[j].name, r)) stat("foreign_class_documents");
        }
    }

    // measured: toXml definitions in the library vs classes modelled
    {
        long found = 0;
        QByteArray repo = qgetenv("VERIF_REPO"); if (repo.isEmpty()) repo = "/repo";
        QDir d(QString::fromLocal8Bit(repo) + "/src/base");
        for (auto &f : d.entryList({ "*.cpp" })) {
            QFile file(d.filePath(f));
            if (!file.open(QIODevice::ReadOnly)) continue;
            QByteArray src = file.readAll();
            for (int p = 0; (p = src.indexOf("::toXml(", p)) >= 0; p += 8) found++;
            for (int p = 0; (p = src.indexOf("::toXmlElementFromChild(", p)) >= 0; p += 8) found++;
        }
        stat("classes_found_toXml_definitions", found);
        std::set<std::string> defs; for (auto &c : table) defs.insert(c.cxx.empty() ? c.name : c.cxx);
        stat("classes_modelled", (long long)defs.size());
        // how many schemas are covered by the generic theorems (well-formed), how many model a recorded defect as it is
        std::vector<std::string> wops; for (auto &c : table) wops.push_back("codec-wf " + c.name);
        auto wres = askDriver(wops);
        std::set<std::string> wfDefs, codeDefs;
        for (size_t k = 0; k < table.size(); k++) {
            const std::string def = table[k].cxx.empty() ? table[k].name : table[k].cxx;
            if (wres[k] == "wf") { stat("schemas_wellformed_proved"); wfDefs.insert(def); } else { stat("schemas_modelling_a_recorded_defect"); codeDefs.insert(def); }
        }
        for (auto &d2 : codeDefs) wfDefs.erase(d2);
        stat("classes_fully_proved", (long long)wfDefs.size());
    }
    stat("mutation_kinds", M_KINDS);
    finish();
    return 0;
}
