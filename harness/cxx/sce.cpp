// C17 harness: Stanza-Content-Encryption split of QXmppMessage.
// For many combinations of message extensions set through the public API it serialises the REAL QXmppMessage in
// public / sensitive / combined mode (toXml) and through serializeExtensions (what the OMEMO manager encrypts), parses every
// part back in every mode, and prints element inventories for the Lean model (C lines).  Independently of the model it
// evaluates the property itself (O lines):
//   leak       no distinctive payload string, and no element outside the "routing / hint / id / explicit fallback" whitelist,
//              occurs in the bytes of toXml(ScePublic);
//   partition  children(toXml(SceAll)) == children(public) (+) children(content) as multisets, explicit fallback aside;
//   recover    parse(public, ScePublic) then parseExtensions(content, SceSensitive) gives back every getter value
//              (fallback markers aside); the same through parse(toXml(SceSensitive), SceSensitive).
//   client     the same message goes through a REAL QXmppClient with a dummy QXmppE2eeExtension (shaped like the OMEMO manager:
//              encryptMessage puts serializeExtensions(SceSensitive) into an SCE envelope carried by a marker element,
//              handleMessage/decryptMessage read it back with parseExtensions(SceSensitive) and injectMessage): the bytes
//              QXmppClient::sendSensitive hands to the stream must be the public part only, and feeding those bytes to the stream's
//              receive path (handlePacketReceived -> MessagePipeline) must deliver a message equal to the original, also when
//              an attacker adds plaintext <thread/>, <subject/>, receipt, marker (and <body/>) next to the encrypted payload.
#include "common.h"
#include "QXmppBitsOfBinaryContentId.h"
#include "QXmppClient.h"
#include "QXmppClientExtension.h"
#include "QXmppClient_p.h"
#include "QXmppE2eeExtension.h"
#include "QXmppE2eeMetadata.h"
#include "QXmppIq.h"
#include "QXmppLogger.h"
#include "QXmppMessageHandler.h"
#include "QXmppOutgoingClient.h"
#include "QXmppPromise.h"
#include "QXmppTask.h"
#include "QXmppBitsOfBinaryData.h"
#include "QXmppBitsOfBinaryDataList.h"
#include "QXmppElement.h"
#include "QXmppFallback.h"
#include "QXmppFileMetadata.h"
#include "QXmppFileShare.h"
#include "QXmppHttpFileSource.h"
#include "QXmppJingleData.h"
#include "QXmppMessage.h"
#include "QXmppMessageReaction.h"
#include "QXmppMixInvitation.h"
#include "QXmppOutOfBandUrl.h"
#include "QXmppSceEnvelope_p.h"
#include "QXmppTrustMessageElement.h"
#include "QXmppTrustMessageKeyOwner.h"
#include <QCoreApplication>
#include <QDomDocument>
#include <QMimeDatabase>
#include <QTimeZone>
#include <QUrl>
#include <QXmlStreamWriter>
#include <algorithm>
#include <functional>
#include <set>

using namespace vh;
using Msg = QXmppMessage;

static QString operator""_q(const char16_t *s, size_t n) { return QString::fromUtf16(s, int(n)); }
static std::string S(const QString &s) { return s.toUtf8().toStdString(); }
static QString Q(const std::string &s) { return QString::fromUtf8(s.c_str()); }

// ------------------------------------------------------------------------------------------------ field catalogue
struct Variant {
    std::string item;                        // item of the model's reset spec (row name [=tags | *N])
    std::function<void(Msg &)> apply;        // sets the field through the public API
    std::vector<std::string> secrets;        // distinctive strings carried by the value
};
struct Field {
    std::string name;
    bool payload;                            // by hand, from the property text: must never be visible in the public part
    std::vector<Variant> variants;
};

static QDomElement domOf(const QByteArray &xml, QDomDocument &doc)
{
    QString err;
    if (!doc.setContent(xml, true, &err)) {
        oracleFail("C17:harness:unparsable-output", std::string(xml.constData()));
        return {};
    }
    return doc.documentElement();
}

static const char *HINTS[] = { "no-permanent-store", "no-store", "no-copy", "store" };
static const char *STATES[] = { "", "active", "inactive", "gone", "composing", "paused" };
static const char *MARKERS[] = { "", "received", "displayed", "acknowledged" };
static const char *JMI[] = { "", "propose", "ringing", "proceed", "reject", "retract", "finish" };
static const char *CALLINV[] = { "", "invite", "retract", "accept", "reject", "left" };

static std::vector<Field> catalogue()
{
    std::vector<Field> F;
    auto one = [&](const std::string &name, bool payload, std::function<void(Msg &)> f, std::vector<std::string> secrets) {
        F.push_back(Field { name, payload, { Variant { name, f, secrets } } });
    };
    // ---- written by the public block today
    one("e2eeFallbackBody", false, [](Msg &m) { m.setE2eeFallbackBody(u"FALLBACKTEXTe2ee"_q); }, { "FALLBACKTEXTe2ee" });
    one("privatemsg", false, [](Msg &m) { m.setPrivate(true); }, {});
    {
        Field f { "hints", false, {} };
        for (int mask : { 1, 2, 4, 8, 3, 10, 15 }) {
            std::string tags;
            for (int i = 0; i < 4; i++) if (mask & (1 << i)) tags += std::string(tags.empty() ? "" : ",") + HINTS[i];
            f.variants.push_back({ "hints=" + tags, [mask](Msg &m) { for (int i = 0; i < 4; i++) if (mask & (1 << i)) m.addHint(Msg::Hint(1 << i)); }, {} });
        }
        F.push_back(f);
    }
    {
        Field f { "stanzaIds", false, {} };
        for (int n : { 1, 2, 3 })
            f.variants.push_back({ "stanzaIds*" + std::to_string(n), [n](Msg &m) {
                QVector<QXmppStanzaId> v;
                for (int i = 0; i < n; i++) v.push_back({ u"PUBsid%1"_q.arg(i), u"by%1.example"_q.arg(i) });
                m.setStanzaIds(v); }, {} });
        F.push_back(f);
    }
    one("originId", false, [](Msg &m) { m.setOriginId(u"PUBoriginid"_q); }, {});
    {
        Field f { "mixUserJid", false, {} };
        f.variants.push_back({ "mixUserJid", [](Msg &m) { m.setMixUserJid(u"PUBmixjid@example.org"_q); m.setMixUserNick(u"PUBmixnick"_q); }, {} });
        f.variants.push_back({ "mixUserJid", [](Msg &m) { m.setMixUserNick(u"PUBmixnickonly"_q); }, {} });
        F.push_back(f);
    }
    one("encryptionMethod", false, [](Msg &m) { m.setEncryptionMethodNs(u"urn:xmpp:omemo:2"_q); m.setEncryptionName(u"PUBencname"_q); }, {});
    // ---- conversational payload
    one("subject", true, [](Msg &m) { m.setSubject(u"SECRETsubject"_q); }, { "SECRETsubject" });
    one("body", true, [](Msg &m) { m.setBody(u"SECRETbody"_q); }, { "SECRETbody" });
    {
        Field f { "thread", true, {} };
        f.variants.push_back({ "thread", [](Msg &m) { m.setThread(u"SECRETthread"_q); }, { "SECRETthread" } });
        f.variants.push_back({ "thread", [](Msg &m) { m.setThread(u"SECRETthread"_q); m.setParentThread(u"SECRETparentthread"_q); }, { "SECRETthread", "SECRETparentthread" } });
        F.push_back(f);
    }
    {
        Field f { "outOfBandUrls", true, {} };
        for (int n : { 1, 2 })
            f.variants.push_back({ "outOfBandUrls*" + std::to_string(n), [n](Msg &m) {
                QVector<QXmppOutOfBandUrl> v;
                for (int i = 0; i < n; i++) { QXmppOutOfBandUrl u; u.setUrl(u"https://secret.example/SECREToob%1"_q.arg(i)); u.setDescription(u"SECREToobdesc%1"_q.arg(i)); v.push_back(u); }
                m.setOutOfBandUrls(v); }, { "SECREToob0", "SECREToobdesc0" } });
        F.push_back(f);
    }
    one("xhtml", true, [](Msg &m) { m.setXhtml(u"<p>SECRETxhtml</p>"_q); }, { "SECRETxhtml" });
    {
        Field f { "state", true, {} };
        for (int s = 1; s <= 5; s++)
            f.variants.push_back({ std::string("state=") + STATES[s], [s](Msg &m) { m.setState(Msg::State(s)); }, {} });
        F.push_back(f);
    }
    {
        Field f { "stamp", true, {} };
        f.variants.push_back({ "stamp:delay", [](Msg &m) { m.setStamp(QDateTime(QDate(2031, 7, 9), QTime(11, 22, 33), Qt::UTC)); }, { "2031-07-09T11:22:33" } });
        // the legacy XEP-0091 form can only be reached by parsing one (there is no setter for the stamp type)
        f.variants.push_back({ "stamp:x", [](Msg &m) {
            QDomDocument d; d.setContent(QByteArray("<message><x xmlns='jabber:x:delay' stamp='20310709T11:22:33'/></message>"), true);
            m.parseExtensions(d.documentElement(), QXmpp::SceAll); }, { "20310709T11:22:33" } });
        F.push_back(f);
    }
    one("receiptId", true, [](Msg &m) { m.setReceiptId(u"SECRETreceiptid"_q); }, { "SECRETreceiptid" });
    one("receiptRequested", true, [](Msg &m) { m.setReceiptRequested(true); }, {});
    one("attentionRequested", true, [](Msg &m) { m.setAttentionRequested(true); }, {});
    one("mucInvitationJid", true, [](Msg &m) { m.setMucInvitationJid(u"SECRETmuc@conf.example"_q); m.setMucInvitationPassword(u"SECRETmucpw"_q); m.setMucInvitationReason(u"SECRETmucreason"_q); },
        { "SECRETmuc", "SECRETmucpw", "SECRETmucreason" });
    {
        Field f { "bitsOfBinaryData", true, {} };
        for (int n : { 1, 2 })
            f.variants.push_back({ "bitsOfBinaryData*" + std::to_string(n), [n](Msg &m) {
                QXmppBitsOfBinaryDataList l;
                for (int i = 0; i < n; i++) {
                    auto d = QXmppBitsOfBinaryData::fromByteArray(QByteArray("SECRETbobdata") + QByteArray::number(i));
                    d.setContentType(QMimeDatabase().mimeTypeForName(u"text/plain"_q));
                    l << d;
                }
                m.setBitsOfBinaryData(l); }, { QByteArray("SECRETbobdata0").toBase64().toStdString() } });
        F.push_back(f);
    }
    one("replaceId", true, [](Msg &m) { m.setReplaceId(u"SECRETreplaceid"_q); }, { "SECRETreplaceid" });
    one("markable", true, [](Msg &m) { m.setMarkable(true); }, {});
    {
        Field f { "marker", true, {} };
        for (int k = 1; k <= 3; k++)
            f.variants.push_back({ std::string("marker=") + MARKERS[k], [k](Msg &m) { m.setMarker(Msg::Marker(k)); m.setMarkerId(u"SECRETmarkedid"_q); m.setMarkedThread(u"SECRETmarkedthread"_q); },
                                   { "SECRETmarkedid", "SECRETmarkedthread" } });
        F.push_back(f);
    }
    {
        Field f { "jingleMessageInitiationElement", true, {} };
        for (int k = 1; k <= 6; k++)
            f.variants.push_back({ std::string("jingleMessageInitiationElement=") + JMI[k], [k](Msg &m) {
                QXmppJingleMessageInitiationElement e; e.setType(QXmppJingleMessageInitiationElement::Type(k)); e.setId(u"SECRETjmiid"_q);
                m.setJingleMessageInitiationElement(e); }, { "SECRETjmiid" } });
        F.push_back(f);
    }
    one("attachId", true, [](Msg &m) { m.setAttachId(u"SECRETattachid"_q); }, { "SECRETattachid" });
    {
        Field f { "isSpoiler", true, {} };
        f.variants.push_back({ "isSpoiler", [](Msg &m) { m.setIsSpoiler(true); m.setSpoilerHint(u"SECRETspoilerhint"_q); }, { "SECRETspoilerhint" } });
        f.variants.push_back({ "isSpoiler", [](Msg &m) { m.setIsSpoiler(true); }, {} });
        F.push_back(f);
    }
    one("mixInvitation", true, [](Msg &m) {
        QXmppMixInvitation i; i.setInviterJid(u"SECRETinviter@example.org"_q); i.setInviteeJid(u"SECRETinvitee@example.org"_q);
        i.setChannelJid(u"SECRETchannel@mix.example.org"_q); i.setToken(u"SECRETmixtoken"_q);
        m.setMixInvitation(i); }, { "SECRETinviter", "SECRETinvitee", "SECRETchannel", "SECRETmixtoken" });
    one("trustMessageElement", true, [](Msg &m) {
        QXmppTrustMessageKeyOwner o; o.setJid(u"SECRETkeyowner@example.org"_q); o.setTrustedKeys({ QByteArray("SECRETtrustedkey") });
        QXmppTrustMessageElement t; t.setUsage(u"urn:xmpp:atm:1"_q); t.setEncryption(u"urn:xmpp:omemo:2"_q); t.setKeyOwners({ o });
        m.setTrustMessageElement(t); }, { "SECRETkeyowner", QByteArray("SECRETtrustedkey").toBase64().toStdString() });
    one("reaction", true, [](Msg &m) {
        QXmppMessageReaction r; r.setMessageId(u"SECRETreactedid"_q); r.setEmojis({ u"SECRETemoji"_q, QString::fromUtf8("\xF0\x9F\x90\xA2") });   // parse() sorts them
        m.setReaction(r); }, { "SECRETreactedid", "SECRETemoji", "\xF0\x9F\x90\xA2" });
    {
        Field f { "sharedFiles", true, {} };
        for (int n : { 1, 2 })
            f.variants.push_back({ "sharedFiles*" + std::to_string(n), [n](Msg &m) {
                QVector<QXmppFileShare> v;
                for (int i = 0; i < n; i++) {
                    QXmppFileMetadata md; md.setFilename(u"SECRETfilename%1.jpg"_q.arg(i)); md.setSize(1234 + i);
                    QXmppFileShare s; s.setId(u"SECRETsfsid%1"_q.arg(i)); s.setMetadata(md);
                    s.setHttpSources({ QXmppHttpFileSource(QUrl(u"https://secret.example/SECRETsfsurl%1"_q.arg(i))) });
                    v.push_back(s);
                }
                m.setSharedFiles(v); }, { "SECRETfilename0", "SECRETsfsid0", "SECRETsfsurl0" } });
        F.push_back(f);
    }
    {
        Field f { "fileSourcesAttachments", true, {} };
        for (int n : { 1, 2 })
            f.variants.push_back({ "fileSourcesAttachments*" + std::to_string(n), [n](Msg &m) {
                QVector<QXmppFileSourcesAttachment> v;
                for (int i = 0; i < n; i++) {
                    QXmppFileSourcesAttachment a; a.setId(u"SECRETsrcattid%1"_q.arg(i));
                    a.setHttpSources({ QXmppHttpFileSource(QUrl(u"https://secret.example/SECRETsrcatturl%1"_q.arg(i))) });
                    v.push_back(a);
                }
                m.setFileSourcesAttachments(v); }, { "SECRETsrcattid0", "SECRETsrcatturl0" } });
        F.push_back(f);
    }
    one("reply", true, [](Msg &m) { m.setReply(QXmpp::Reply { u"SECRETreplyto@example.org/r"_q, u"SECRETreplyid"_q }); }, { "SECRETreplyto", "SECRETreplyid" });
    {
        Field f { "callInviteElement", true, {} };
        for (int k = 1; k <= 5; k++)
            f.variants.push_back({ std::string("callInviteElement=") + CALLINV[k], [k](Msg &m) {
                QXmppCallInviteElement e; e.setType(QXmppCallInviteElement::Type(k)); e.setId(u"SECRETcallid"_q);
                if (k == 1 || k == 3) { e.setJingle(QXmppCallInviteElement::Jingle { u"SECRETcallsid"_q, u"SECRETcalljid@example.org/x"_q });
                                        e.setExternal(QVector<QXmppCallInviteElement::External> { { u"tel:SECRETcalltel"_q } }); }
                m.setCallInviteElement(e); }, { k == 1 ? "SECRETcallsid" : "SECRETcallid" } });
        F.push_back(f);
    }
    // ---- explicit fallback markers: accompany both parts
    {
        Field f { "fallbackMarkers", false, {} };
        for (int n : { 1, 2 })
            f.variants.push_back({ "fallbackMarkers*" + std::to_string(n), [n](Msg &m) {
                QVector<QXmppFallback> v;
                for (int i = 0; i < n; i++)
                    v.push_back(QXmppFallback { i == 0 ? u"urn:xmpp:reply:0"_q : u"urn:xmpp:sfs:0"_q,
                                                { QXmppFallback::Reference { QXmppFallback::Body, QXmppFallback::Range { 0, uint32_t(7 + i) } } } });
                m.setFallbackMarkers(v); }, {} });
        F.push_back(f);
    }
    // ---- application-supplied unknown extensions (QXmppStanza::setExtensions): how applications attach custom payload
    {
        Field f { "extensions", true, {} };
        for (int n : { 1, 2 })
            f.variants.push_back({ "extensions*" + std::to_string(n), [n](Msg &m) {
                QXmppElementList l;
                for (int i = 0; i < n; i++) {
                    QXmppElement e; e.setTagName(u"app-ext"_q); e.setAttribute(u"xmlns"_q, u"verif:app"_q);
                    e.setAttribute(u"n"_q, QString::number(i)); e.setValue(u"SECRETappext%1"_q.arg(i));
                    l << e;
                }
                m.setExtensions(l); }, { "SECRETappext0" } });
        F.push_back(f);
    }
    // ---- XEP-0033 (QXmppStanza)
    one("extendedAddresses", false, [](Msg &m) {
        QXmppExtendedAddress a; a.setType(u"cc"_q); a.setJid(u"PUBcc@example.org"_q); a.setDescription(u"PUBaddrdesc"_q);
        m.setExtendedAddresses({ a }); }, {});
    return F;
}

// ------------------------------------------------------------------------------------------------ observations
struct Child { std::string tag, ns, canon; };

static std::string canonOf(const QDomElement &e, bool top)
{
    QString ns = e.namespaceURI();
    if (top && ns == u"jabber:client") ns.clear();   // serializeExtensions(…, ns_client) vs toXml: same element
    std::string s = S(e.tagName()) + "{" + (top ? S(ns) : "") + "}[";
    std::vector<std::string> at;
    auto am = e.attributes();
    for (int i = 0; i < am.count(); i++) {
        auto a = am.item(i).toAttr();
        if (a.name() == u"xmlns" || a.name().startsWith(u"xmlns:")) continue;
        at.push_back(S(a.name()) + "=" + S(a.value()));
    }
    std::sort(at.begin(), at.end());
    for (auto &a : at) s += a + ";";
    s += "](";
    for (auto n = e.firstChild(); !n.isNull(); n = n.nextSibling()) {
        if (n.isElement()) s += canonOf(n.toElement(), false);
        else if (n.isText()) s += "'" + S(n.toText().data()) + "'";
    }
    return s + ")";
}

static std::vector<Child> childrenOf(const QDomElement &root)
{
    std::vector<Child> v;
    for (auto c = root.firstChildElement(); !c.isNull(); c = c.nextSiblingElement())
        v.push_back({ S(c.tagName()), S(c.namespaceURI()), canonOf(c, true) });
    return v;
}

static std::string inv(const std::vector<Child> &cs)
{
    if (cs.empty()) return "-";
    std::string s;
    for (auto &c : cs) s += (s.empty() ? "" : " ") + c.tag + "{" + c.ns + "}";
    return s;
}

static std::string rep(const std::string &t, int n)
{
    std::string s;
    for (int i = 0; i < n; i++) s += (i ? "," : "") + t;
    return s;
}

// which rows are set, by getters only
static std::map<std::string, std::string> fieldsOf(const Msg &m)
{
    std::map<std::string, std::string> f;
    if (!m.e2eeFallbackBody().isEmpty()) f["e2eeFallbackBody"] = "body";
    if (m.isPrivate()) f["privatemsg"] = "private";
    {
        std::string h;
        for (int i = 0; i < 4; i++) if (m.hasHint(Msg::Hint(1 << i))) h += std::string(h.empty() ? "" : ",") + HINTS[i];
        if (!h.empty()) f["hints"] = h;
    }
    if (!m.stanzaIds().isEmpty()) f["stanzaIds"] = rep("stanza-id", m.stanzaIds().size());
    if (!m.originId().isEmpty()) f["originId"] = "origin-id";
    if (!m.mixUserJid().isEmpty() || !m.mixUserNick().isEmpty()) f["mixUserJid"] = "mix";
    if (!m.encryptionMethodNs().isEmpty()) f["encryptionMethod"] = "encryption";
    if (!m.subject().isEmpty()) f["subject"] = "subject";
    if (!m.body().isEmpty()) f["body"] = "body";
    if (!m.thread().isEmpty()) f["thread"] = "thread";
    if (!m.outOfBandUrls().isEmpty()) f["outOfBandUrls"] = rep("x", m.outOfBandUrls().size());
    if (!m.xhtml().isEmpty()) f["xhtml"] = "html";
    if (m.state() != Msg::None) f["state"] = STATES[m.state()];
    if (m.stamp().isValid()) f["stamp"] = "set";
    if (!m.receiptId().isEmpty()) f["receiptId"] = "received";
    if (m.isReceiptRequested()) f["receiptRequested"] = "request";
    if (m.isAttentionRequested()) f["attentionRequested"] = "attention";
    if (!m.mucInvitationJid().isEmpty()) f["mucInvitationJid"] = "x";
    if (!m.bitsOfBinaryData().isEmpty()) f["bitsOfBinaryData"] = rep("data", m.bitsOfBinaryData().size());
    if (!m.replaceId().isEmpty()) f["replaceId"] = "replace";
    if (m.isMarkable()) f["markable"] = "markable";
    if (m.marker() != Msg::NoMarker) f["marker"] = MARKERS[m.marker()];
    if (auto e = m.jingleMessageInitiationElement()) f["jingleMessageInitiationElement"] = JMI[int(e->type())];
    if (!m.attachId().isEmpty()) f["attachId"] = "attach-to";
    if (m.isSpoiler()) f["isSpoiler"] = "spoiler";
    if (m.mixInvitation()) f["mixInvitation"] = "invitation";
    if (m.trustMessageElement()) f["trustMessageElement"] = "trust-message";
    if (m.reaction()) f["reaction"] = "reactions";
    if (!m.sharedFiles().isEmpty()) f["sharedFiles"] = rep("file-sharing", m.sharedFiles().size());
    if (!m.fileSourcesAttachments().isEmpty()) f["fileSourcesAttachments"] = rep("sources", m.fileSourcesAttachments().size());
    if (m.reply()) f["reply"] = "reply";
    if (auto e = m.callInviteElement()) f["callInviteElement"] = CALLINV[int(e->type())];
    if (!m.fallbackMarkers().isEmpty()) f["fallbackMarkers"] = rep("fallback", m.fallbackMarkers().size());
    if (!m.extendedAddresses().isEmpty()) f["extendedAddresses"] = rep("addresses", m.extendedAddresses().size());
    return f;
}

static std::string showParsed(const Msg &m)
{
    std::string s;
    for (auto &kv : fieldsOf(m)) s += (s.empty() ? "" : " ") + kv.first + "=" + kv.second;
    if (s.empty()) s = "-";
    std::string u;
    for (const auto &e : m.extensions()) u += (u.empty() ? "" : " ") + S(e.tagName()) + "{" + S(e.attribute(u"xmlns"_q)) + "}";
    return s + " | " + (u.empty() ? "-" : u);
}

// every getter value, per field, for the recovery oracle
static std::map<std::string, std::string> valuesOf(const Msg &m)
{
    std::map<std::string, std::string> v;
    auto q = [](const QString &s) { return S(s); };
    v["e2eeFallbackBody"] = q(m.e2eeFallbackBody());
    v["privatemsg"] = m.isPrivate() ? "1" : "0";
    { std::string h; for (int i = 0; i < 4; i++) h += m.hasHint(Msg::Hint(1 << i)) ? "1" : "0"; v["hints"] = h; }
    { std::string s; for (auto &x : m.stanzaIds()) s += q(x.id) + "/" + q(x.by) + ";"; v["stanzaIds"] = s; }
    v["originId"] = q(m.originId());
    v["mixUserJid"] = q(m.mixUserJid()) + "|" + q(m.mixUserNick());
    v["encryptionMethod"] = q(m.encryptionMethodNs()) + "|" + q(m.encryptionName());
    v["subject"] = q(m.subject());
    v["body"] = q(m.body());
    v["thread"] = q(m.thread()) + "|" + q(m.parentThread());
    { std::string s; for (auto &x : m.outOfBandUrls()) s += q(x.url()) + "/" + q(x.description().value_or(u"<none>"_q)) + ";"; v["outOfBandUrls"] = s; }
    v["xhtml"] = q(m.xhtml());
    v["state"] = std::to_string(int(m.state()));
    v["stamp"] = m.stamp().isValid() ? q(m.stamp().toUTC().toString(Qt::ISODate)) : "";
    v["receiptId"] = q(m.receiptId());
    v["receiptRequested"] = m.isReceiptRequested() ? "1" : "0";
    v["attentionRequested"] = m.isAttentionRequested() ? "1" : "0";
    v["mucInvitationJid"] = q(m.mucInvitationJid()) + "|" + q(m.mucInvitationPassword()) + "|" + q(m.mucInvitationReason());
    { std::string s; for (auto &x : m.bitsOfBinaryData()) s += q(x.cid().toContentId()) + "/" + x.data().toBase64().toStdString() + "/" + q(x.contentType().name()) + ";"; v["bitsOfBinaryData"] = s; }
    v["replaceId"] = q(m.replaceId());
    v["markable"] = m.isMarkable() ? "1" : "0";
    v["marker"] = std::to_string(int(m.marker())) + "|" + (m.marker() != Msg::NoMarker ? q(m.markedId()) + "|" + q(m.markedThread()) : std::string());
    if (auto e = m.jingleMessageInitiationElement()) v["jingleMessageInitiationElement"] = std::string(JMI[int(e->type())]) + "|" + q(e->id()); else v["jingleMessageInitiationElement"] = "";
    v["attachId"] = q(m.attachId());
    v["isSpoiler"] = std::string(m.isSpoiler() ? "1" : "0") + "|" + q(m.spoilerHint());
    if (auto e = m.mixInvitation()) v["mixInvitation"] = q(e->inviterJid()) + "|" + q(e->inviteeJid()) + "|" + q(e->channelJid()) + "|" + q(e->token()); else v["mixInvitation"] = "";
    if (auto e = m.trustMessageElement()) {
        std::string s = q(e->usage()) + "|" + q(e->encryption());
        for (auto &o : e->keyOwners()) { s += "|" + q(o.jid()); for (auto &k : o.trustedKeys()) s += "+" + k.toBase64().toStdString(); for (auto &k : o.distrustedKeys()) s += "-" + k.toBase64().toStdString(); }
        v["trustMessageElement"] = s;
    } else v["trustMessageElement"] = "";
    if (auto e = m.reaction()) { std::string s = q(e->messageId()); for (auto &x : e->emojis()) s += "|" + q(x); v["reaction"] = s; } else v["reaction"] = "";
    { std::string s; for (auto &x : m.sharedFiles()) { s += q(x.id()) + "/" + q(x.metadata().filename().value_or(u""_q)) + "/" + std::to_string(x.metadata().size().value_or(0)); for (auto &h : x.httpSources()) s += "/" + q(h.url().toString()); s += ";"; } v["sharedFiles"] = s; }
    { std::string s; for (auto &x : m.fileSourcesAttachments()) { s += q(x.id()); for (auto &h : x.httpSources()) s += "/" + q(h.url().toString()); s += ";"; } v["fileSourcesAttachments"] = s; }
    if (auto e = m.reply()) v["reply"] = q(e->to) + "|" + q(e->id); else v["reply"] = "";
    if (auto e = m.callInviteElement()) {
        std::string s = std::string(CALLINV[int(e->type())]) + "|" + q(e->id());
        if (auto j = e->jingle()) s += "|" + q(j->sid) + "|" + q(j->jid.value_or(u""_q));
        if (auto x = e->external()) for (auto &u : *x) s += "|" + q(u.uri);
        v["callInviteElement"] = s;
    } else v["callInviteElement"] = "";
    { std::string s; for (auto &x : m.extendedAddresses()) s += q(x.type()) + "/" + q(x.jid()) + "/" + q(x.description()) + ";"; v["extendedAddresses"] = s; }
    { std::string s; for (const auto &x : m.extensions()) if (!(x.tagName() == u"enc" && x.attribute(u"xmlns"_q) == u"verif:e2ee"))
          s += q(x.tagName()) + "{" + q(x.attribute(u"xmlns"_q)) + "}" + q(x.attribute(u"n"_q)) + "=" + q(x.value()) + ";";
      v["extensions"] = s; }
    // fallbackMarkers deliberately absent: "explicit fallback markers … aside"
    return v;
}

static QByteArray toXml(const Msg &m, QXmpp::SceMode mode)
{
    QByteArray out; QXmlStreamWriter w(&out);
    m.toXml(&w, mode);
    return out;
}

// what QXmppOmemoManager's createSceEnvelope encrypts (same writer class, same call)
static QByteArray envelope(const Msg &m)
{
    QByteArray out; QXmlStreamWriter w(&out);
    QXmppSceEnvelopeWriter env(w);
    env.start();
    env.writeTo(u"juliet@example.org"_q);
    env.writeFrom(u"romeo@example.org"_q);
    env.writeContent([&] { m.serializeExtensions(&w, QXmpp::SceSensitive, u"jabber:client"_q); });
    env.end();
    return out;
}

// public-part whitelist, by hand from the property text: routing data, hints, ids, explicit fallback (+ ciphertext container)
static bool publicAllowed(const Child &c, const std::string &fallbackBody)
{
    static const std::set<std::string> ok = {
        "private{urn:xmpp:carbons:2}", "stanza-id{urn:xmpp:sid:0}", "origin-id{urn:xmpp:sid:0}", "mix{urn:xmpp:mix:core:1}",
        "encryption{urn:xmpp:eme:0}", "encrypted{urn:xmpp:omemo:2}", "fallback{urn:xmpp:fallback:0}",
        "addresses{http://jabber.org/protocol/address}", "error{}" };
    std::string k = c.tag + "{" + c.ns + "}";
    if (ok.count(k)) return true;
    if (c.ns == "urn:xmpp:hints") return true;
    if (k == "body{}") return !fallbackBody.empty() && c.canon == "body{}[]('" + fallbackBody + "')";
    return false;
}

static bool isFallbackish(const Child &c, const std::string &fallbackBody)
{
    return (c.tag == "fallback" && c.ns == "urn:xmpp:fallback:0") || (!fallbackBody.empty() && c.canon == "body{}[]('" + fallbackBody + "')");
}


// ------------------------------------------------------------------------------------------------ real client with a dummy e2ee extension
static const QString ENC_NS = QStringLiteral("verif:e2ee");

class TestClient : public QXmppClient   // the library declares `friend class TestClient`
{
public:
    TestClient() : QXmppClient(QXmppClient::NoExtensions) { }
    void receive(const QDomElement &e) { d->stream->handlePacketReceived(e); }
};

static QByteArray envelope(const Msg &m);

// Shaped like QXmppOmemoManager (client extension + e2ee extension + message handler), with base64 instead of a cipher.
class DummyE2ee : public QXmppClientExtension, public QXmppE2eeExtension, public QXmppMessageHandler
{
public:
    template<typename T> static QXmppTask<T> ready(T &&v) { QXmppPromise<T> p; p.finish(std::move(v)); return p.task(); }

    // The encrypted payload is a PUBLIC element of the outgoing message, like OMEMO's <encrypted/> (QXmppMessage::omemoElement,
    // written in the public block).  It is added by overriding the virtual serializeExtensions, so the application's own
    // extensions() stay exactly as the application set them.
    class EncMsg : public QXmppMessage
    {
    public:
        QByteArray cipher;
        EncMsg(QXmppMessage &&m, QByteArray c) : QXmppMessage(std::move(m)), cipher(std::move(c)) { }
        void serializeExtensions(QXmlStreamWriter *w, QXmpp::SceMode mode, const QString &base) const override
        {
            QXmppMessage::serializeExtensions(w, mode, base);
            if (mode & QXmpp::ScePublic) {
                w->writeStartElement(QStringLiteral("enc")); w->writeDefaultNamespace(ENC_NS);
                w->writeCharacters(QString::fromLatin1(cipher)); w->writeEndElement();
            }
        }
    };
    QXmppTask<MessageEncryptResult> encryptMessage(QXmppMessage &&message, const std::optional<QXmppSendStanzaParams> &) override
    {
        // as ManagerPrivate::encryptMessageForRecipients: the message object keeps all its fields; the encrypted payload is added
        QByteArray c = envelope(message).toBase64();
        return ready<MessageEncryptResult>(std::unique_ptr<QXmppMessage>(new EncMsg(std::move(message), std::move(c))));
    }
    QXmppTask<MessageDecryptResult> decryptMessage(QXmppMessage &&message) override
    {
        for (const auto &e : message.extensions())
            if (e.tagName() == u"enc" && e.attribute(QStringLiteral("xmlns")) == ENC_NS) {
                QDomDocument doc;
                if (!doc.setContent(QByteArray::fromBase64(e.value().toLatin1()), true)) break;
                QXmppSceEnvelopeReader reader(doc.documentElement());
                // as ManagerPrivate::decryptMessage
                message.setFallbackMarkers({});
                message.parseExtensions(reader.contentElement(), QXmpp::SceSensitive);
                return ready<MessageDecryptResult>(MessageDecryptResult { std::move(message) });
            }
        return ready<MessageDecryptResult>(MessageDecryptResult { NotEncrypted {} });
    }
    // as QXmppOmemoManager::encryptIq + createSceEnvelope: a fresh outer IQ with id/type/lang/from/to only; the payload
    // (or, for an error reply, the error) is the envelope content
    class EncIq : public QXmppIq
    {
    public:
        QByteArray cipher;
        void toXmlElementFromChild(QXmlStreamWriter *w) const override
        {
            w->writeStartElement(QStringLiteral("enc")); w->writeDefaultNamespace(ENC_NS);
            w->writeCharacters(QString::fromLatin1(cipher)); w->writeEndElement();
        }
    };
    QByteArray lastIqContent;
    QXmppTask<IqEncryptResult> encryptIq(QXmppIq &&iq, const std::optional<QXmppSendStanzaParams> &) override
    {
        QByteArray content;
        { QXmlStreamWriter w(&content); if (auto err = iq.errorOptional()) err->toXml(&w); else iq.toXmlElementFromChild(&w); }
        lastIqContent = content;
        auto out = std::make_unique<EncIq>();
        out->setId(iq.id()); out->setType(iq.type()); out->setLang(iq.lang()); out->setFrom(iq.from()); out->setTo(iq.to());
        out->cipher = content.toBase64();
        return ready<IqEncryptResult>(IqEncryptResult { std::unique_ptr<QXmppIq>(std::move(out)) });
    }
    void feedDecryptedIq(const QDomElement &el, bool encrypted)
    { injectIq(el, encrypted ? std::optional<QXmppE2eeMetadata>(QXmppE2eeMetadata()) : std::nullopt); }
    QXmppTask<IqDecryptResult> decryptIq(const QDomElement &) override { return ready<IqDecryptResult>(IqDecryptResult { NotEncrypted {} }); }
    bool isEncrypted(const QDomElement &el) override
    {
        for (auto c = el.firstChildElement(); !c.isNull(); c = c.nextSiblingElement())
            if (c.tagName() == u"enc" && c.namespaceURI() == ENC_NS) return true;
        return false;
    }
    bool isEncrypted(const QXmppMessage &m) override
    {
        for (const auto &e : m.extensions()) if (e.tagName() == u"enc" && e.attribute(QStringLiteral("xmlns")) == ENC_NS) return true;
        return false;
    }
    bool handleMessage(const QXmppMessage &message) override      // as QXmppOmemoManager::handleMessage
    {
        if (!isEncrypted(message)) return false;
        decryptMessage(QXmppMessage(message)).then(this, [this](MessageDecryptResult &&r) {
            if (auto *m = std::get_if<QXmppMessage>(&r)) injectMessage(std::move(*m));
        });
        return true;
    }
};

struct ClientRig {
    TestClient client;
    DummyE2ee *ext = nullptr;
    std::vector<QString> sent;
    std::vector<Msg> delivered;
    ClientRig()
    {
        auto *lg = new QXmppLogger(&client);
        lg->setLoggingType(QXmppLogger::SignalLogging);
        client.setLogger(lg);
        QObject::connect(lg, &QXmppLogger::message, [this](QXmppLogger::MessageType t, const QString &text) {
            if (t == QXmppLogger::SentMessage) sent.push_back(text);
        });
        client.configuration().setJid(QStringLiteral("juliet@example.org/balcony"));
        ext = new DummyE2ee;
        client.addExtension(ext);
        client.setEncryptionExtension(ext);
        QObject::connect(&client, &QXmppClient::messageReceived, [this](const QXmppMessage &m) { delivered.push_back(m); });
    }
};
static ClientRig *g_rig = nullptr;

static std::vector<Child> withoutEnc(std::vector<Child> v)
{
    v.erase(std::remove_if(v.begin(), v.end(), [](const Child &c) { return c.tag == "enc" && c.ns == "verif:e2ee"; }), v.end());
    return v;
}

// Every symptom that concerns the unknown-extension field (or its element) is reported under ONE key: it is one defect.
static const char *EXT_KEY = "C17:unknown-extensions-outside-envelope";
static void failOn(const std::string &key, const std::string &subject, const std::string &replay)
{
    bool ext = subject == "extensions" || subject == "app-ext" || subject.rfind("app-ext{", 0) == 0;
    oracleFail(ext ? std::string(EXT_KEY) : key + subject, (ext ? "[" + key + subject + "] " : std::string()) + replay);
}

struct Case { std::vector<std::pair<const Field *, const Variant *>> parts; };

static const char *MODES[] = { "all", "pub", "sens" };   // index = QXmpp::SceMode value

static void runCase(const Case &cs, const std::vector<Field> &cat)
{
    // ---- build the message through the public API
    Msg m;
    m.setId(u"msgid1"_q); m.setTo(u"juliet@example.org/balcony"_q); m.setFrom(u"romeo@example.org/orchard"_q); m.setType(Msg::Chat);
    std::string spec;
    // stamp:x goes first: it is set by parsing, which would reset nothing else, but keep the order deterministic
    for (auto &p : cs.parts) if (p.second->item == "stamp:x") p.second->apply(m);
    for (auto &p : cs.parts) {
        if (p.second->item != "stamp:x") p.second->apply(m);
        spec += (spec.empty() ? "" : ";") + p.second->item;
    }
    if (spec.empty()) spec = "-";
    printf("I %s\n", spec.c_str()); fflush(stdout);
    stat("cases");
    stat("fields_per_case_" + std::to_string(std::min<size_t>(cs.parts.size(), 9)) + (cs.parts.size() >= 9 ? "+" : ""));
    for (auto &p : cs.parts) stat("row_set_" + p.first->name);

    corr("reset " + spec, "ok");

    // ---- serialise
    QByteArray bytes[3] = { toXml(m, QXmpp::SceAll), toXml(m, QXmpp::ScePublic), toXml(m, QXmpp::SceSensitive) };
    QByteArray env = envelope(m);
    QDomDocument docs[3], envDoc;
    QDomElement roots[3];
    std::vector<Child> kids[3];
    for (int i = 0; i < 3; i++) { roots[i] = domOf(bytes[i], docs[i]); kids[i] = childrenOf(roots[i]); }
    QXmppSceEnvelopeReader reader(domOf(env, envDoc));
    QDomElement contentEl = reader.contentElement();
    std::vector<Child> content = childrenOf(contentEl);

    corr("w pub", inv(kids[1]));
    corr("w sens", inv(kids[2]));
    corr("w all", inv(kids[0]));
    corr("w content", inv(content));
    sample(spec + "  PUBLIC=" + std::string(bytes[1].constData()));

    // ---- parse every part in every mode (fresh object)
    for (int part : { 1, 2, 0 })
        for (int mode : { 1, 2, 0 }) {
            Msg rx; rx.parse(roots[part], QXmpp::SceMode(mode));
            corr(std::string("p ") + MODES[part] + " " + MODES[mode], showParsed(rx));
        }
    // ---- receive path: public, then decrypted content, into one object
    Msg real; real.parse(roots[1], QXmpp::ScePublic);
    real.parseExtensions(contentEl, QXmpp::SceSensitive);
    corr("r real", showParsed(real));
    Msg viaToXml; viaToXml.parse(roots[1], QXmpp::ScePublic);
    viaToXml.parse(roots[2], QXmpp::SceSensitive);
    corr("r toxml", showParsed(viaToXml));

    // ================================================================ oracle (independent of the model and of the table)
    std::string fb = S(m.e2eeFallbackBody());
    bool ok = true;
    // 1. leak
    std::string pub(bytes[1].constData(), size_t(bytes[1].size()));
    for (auto &p : cs.parts)
        if (p.first->payload)
            for (auto &s : p.second->secrets)
                if (pub.find(s) != std::string::npos) { failOn("C17:leak:", p.first->name, spec + " public=" + pub); ok = false; }
    for (auto &c : kids[1])
        if (!publicAllowed(c, fb)) { failOn("C17:public-element:", c.tag + "{" + c.ns + "}", spec + " public=" + pub); ok = false; }
    // the secrets must be somewhere: in the content (otherwise the check above is vacuous)
    std::string envs(env.constData(), size_t(env.size()));
    bool receiptSuppressed = !m.receiptId().isEmpty();
    for (auto &p : cs.parts)
        if (p.first->payload && !(p.first->name == "receiptRequested" && receiptSuppressed))
            for (auto &s : p.second->secrets)
                if (envs.find(s) == std::string::npos) { failOn("C17:payload-missing-from-content:", p.first->name, spec + " content=" + envs); ok = false; }
    // 2. partition: all == pub (+) content, explicit fallback aside; fallback markers in both parts
    {
        std::multiset<std::string> all, parts;
        int fbAll = 0, fbPub = 0, fbContent = 0;
        for (auto &c : kids[0]) { if (isFallbackish(c, fb)) fbAll += c.tag == "fallback"; else all.insert(c.canon); }
        for (auto &c : kids[1]) { if (isFallbackish(c, fb)) fbPub += c.tag == "fallback"; else parts.insert(c.canon); }
        for (auto &c : content) { if (isFallbackish(c, fb)) fbContent += c.tag == "fallback"; else parts.insert(c.canon); }
        if (all != parts) {
            std::string d;
            for (auto &x : all) if (parts.count(x) != all.count(x)) d += " all-only-or-count:" + x;
            for (auto &x : parts) if (!all.count(x)) d += " parts-only:" + x;
            oracleFail("C17:partition", spec + d); ok = false;
        }
        if (fbAll != fbPub || fbAll != fbContent || fbAll != int(m.fallbackMarkers().size())) { oracleFail("C17:partition:fallback-markers", spec); ok = false; }
        // same with toXml(SceSensitive) as the sensitive part
        std::multiset<std::string> parts2;
        for (auto &c : kids[1]) if (!isFallbackish(c, fb)) parts2.insert(c.canon);
        for (auto &c : kids[2]) if (!isFallbackish(c, fb)) parts2.insert(c.canon);
        if (all != parts2) {
            std::set<std::string> tags;
            for (auto &c : kids[2]) if (!isFallbackish(c, fb) && parts2.count(c.canon) != all.count(c.canon)) tags.insert(c.tag);
            for (auto &t : tags) failOn("C17:toxml-split:", t, spec + " toXml(SceSensitive)=" + std::string(bytes[2].constData()));
            if (tags.empty()) oracleFail("C17:toxml-split:?", spec);
            ok = false;
        }
    }
    // 3. recovery
    auto want = valuesOf(m);
    if (receiptSuppressed) want["receiptRequested"] = "0";     // documented: an ack never carries a request (not an SCE matter)
    auto got = valuesOf(real);
    for (auto &kv : want)
        if (got[kv.first] != kv.second) { failOn("C17:recover:", kv.first, spec + " want=" + kv.second + " got=" + got[kv.first]); ok = false; }
    if (!real.extensions().isEmpty()) {
        // an element of ours that the receive path did not understand
        for (const auto &e : real.extensions()) stat("unknown_after_recover_" + S(e.tagName()));
    }
    auto got2 = valuesOf(viaToXml);
    for (auto &kv : want)
        if (got2[kv.first] != kv.second) {
            bool sameAsReal = got[kv.first] == got2[kv.first];
            failOn(sameAsReal ? "C17:recover:" : "C17:toxml-split:", (!sameAsReal && kv.first == "extendedAddresses") ? std::string("addresses") : kv.first,
                   spec + " (toXml/parse pair) want=" + kv.second + " got=" + got2[kv.first]);
            ok = false;
        }
    // sanity of the harness itself: the unsplit message round-trips (otherwise a "recover" failure is not about the split)
    { Msg rt; rt.parse(roots[0], QXmpp::SceAll);
      auto g = valuesOf(rt);
      for (auto &kv : want) if (kv.first != "e2eeFallbackBody" /* written in ScePublic only */ && g[kv.first] != kv.second) { oracleFail("C17:harness:unsplit-roundtrip:" + kv.first, spec + " want=" + kv.second + " got=" + g[kv.first]); ok = false; } }

    // ================================================================ through a real QXmppClient (send path, then receive path)
    {
        ClientRig &R = *g_rig;
        R.sent.clear(); R.delivered.clear();
        R.client.sendSensitive(Msg(m));
        std::string wire = R.sent.empty() ? std::string() : S(R.sent.back());
        QDomDocument wdoc;
        QByteArray wbytes = QByteArray::fromStdString(wire);
        wbytes.replace("<message ", "<message xmlns=\"jabber:client\" ");     // as inside a client stream
        QDomElement wroot = R.sent.size() == 1 ? domOf(wbytes, wdoc) : QDomElement();
        std::vector<Child> wkids;
        for (auto c : withoutEnc(childrenOf(wroot))) { if (c.ns == "jabber:client") c.ns.clear(); wkids.push_back(c); }
        corr("c send", R.sent.size() == 1 ? inv(wkids) : "sent-" + std::to_string(R.sent.size()) + "-packets");
        // send oracle: what reaches the stream is the public part, nothing else
        for (auto &p : cs.parts)
            if (p.first->payload)
                for (auto &sct : p.second->secrets)
                    if (wire.find(sct) != std::string::npos) { failOn("C17:send-path:leak:", p.first->name, spec + " wire=" + wire); ok = false; }
        for (auto &c : wkids)
            if (!publicAllowed(c, fb)) { failOn("C17:send-path:public-element:", c.tag + "{" + c.ns + "}", spec + " wire=" + wire); ok = false; }
        {
            std::multiset<std::string> a, b;
            for (auto &c : wkids) a.insert(c.canon);
            for (auto &c : kids[1]) b.insert(c.canon);
            if (a != b) { oracleFail("C17:send-path:not-the-public-part", spec + " wire=" + wire + " toXml(ScePublic)=" + pub); ok = false; }
        }
        // receive path: the bytes just sent come back from the stream
        auto expectDelivered = [&](const char *what, const Msg *got, const std::map<std::string, std::string> &wantv) {
            if (!got) { oracleFail(std::string("C17:client-receive:") + what + ":not-delivered", spec + " wire=" + wire); ok = false; return; }
            auto g = valuesOf(*got);
            for (auto &kv : wantv)
                if (g[kv.first] != kv.second) { failOn(std::string("C17:client-receive:") + what + ":", kv.first, spec + " want=" + kv.second + " got=" + g[kv.first] + " wire=" + wire); ok = false; }
        };
        if (!wroot.isNull()) {
            R.client.receive(wroot);
            corr("c recv", R.delivered.size() == 1 ? showParsed(R.delivered[0]) : "delivered-" + std::to_string(R.delivered.size()));
            expectDelivered("plain", R.delivered.size() == 1 ? &R.delivered[0] : nullptr, want);
            // an attacker (server, MITM) adds plaintext payload elements next to the encrypted payload: they must not be accepted
            bool injectBody = fb.empty();
            QByteArray inj = "<thread>INJECTEDthread</thread><subject>INJECTEDsubject</subject>"
                             "<received xmlns=\"urn:xmpp:receipts\" id=\"INJECTEDreceipt\"/>"
                             "<displayed xmlns=\"urn:xmpp:chat-markers:0\" id=\"INJECTEDmarker\"/>";
            inj += "<app-ext xmlns=\"verif:app\" n=\"9\">INJECTEDext</app-ext>";
            std::string injOp = "c recvinj thread{} subject{} received{urn:xmpp:receipts} displayed{urn:xmpp:chat-markers:0} app-ext{verif:app}";
            if (injectBody) { inj += "<body>INJECTEDbody</body>"; injOp += " body{}"; }
            QByteArray ibytes = wbytes;
            int at = ibytes.lastIndexOf("</message>");
            if (at < 0) { ibytes.replace("/>", "></message>"); at = ibytes.lastIndexOf("</message>"); }   // childless <message …/>
            ibytes.insert(at, inj);
            QDomDocument idoc; QDomElement iroot = domOf(ibytes, idoc);
            R.delivered.clear();
            R.client.receive(iroot);
            corr(injOp, R.delivered.size() == 1 ? showParsed(R.delivered[0]) : "delivered-" + std::to_string(R.delivered.size()));
            auto wanti = want;
            if (injectBody) wanti["e2eeFallbackBody"] = "INJECTEDbody";     // plaintext <body/> of an encrypted message IS the fallback text
            expectDelivered("injected", R.delivered.size() == 1 ? &R.delivered[0] : nullptr, wanti);
            if (R.delivered.size() == 1 && valuesOf(R.delivered[0])["extensions"].find("INJECTEDext") != std::string::npos) {
                oracleFail("C17:client-receive:injected:plaintext-extension-accepted", spec + " wire=" + std::string(ibytes.constData())); ok = false; }
            stat("client_roundtrips");
        }
    }
    // ================================================================ histories: the message is stored / received first, split later
    // build -> [toXml(SceAll) -> parse(SceAll) into a fresh object]^k -> split (k = 1, 2; k = 0 is everything above), and
    // receive path (parse public, parseExtensions content) -> split again.  The model-independent oracle judges EVERY split:
    // no payload value in the public part, public elements whitelisted (the clear-text <body/> only if it is the fallback text
    // the application set), the parts partition the unsplit form of the same object, the fallback text is never invented.
    {
        auto judge = [&](const std::string &hist, const Msg &x, bool fallbackDoubled) {
            QByteArray xa = toXml(x, QXmpp::SceAll), xp = toXml(x, QXmpp::ScePublic), xe = envelope(x);
            QDomDocument da, dp, de;
            auto ka = childrenOf(domOf(xa, da)), kp = childrenOf(domOf(xp, dp));
            QXmppSceEnvelopeReader rd(domOf(xe, de));
            auto kc = childrenOf(rd.contentElement());
            corr("w pub", inv(kp));
            corr("w content", inv(kc));
            std::string ps(xp.constData(), size_t(xp.size()));
            for (auto &p : cs.parts)
                if (p.first->payload)
                    for (auto &sct : p.second->secrets)
                        if (ps.find(sct) != std::string::npos) { failOn("C17:history:leak:", p.first->name, spec + " after " + hist + " public=" + ps); ok = false; }
            for (auto &c : kp)
                if (!publicAllowed(c, fb)) { failOn("C17:history:public-element:", c.tag + "{" + c.ns + "}", spec + " after " + hist + " public=" + ps); ok = false; }
            std::string xfb = S(x.e2eeFallbackBody());
            if (!xfb.empty() && xfb != fb) { oracleFail("C17:history:fallback-text-invented", spec + " after " + hist + " e2eeFallbackBody=" + xfb); ok = false; }
            std::multiset<std::string> all, parts;
            for (auto &c : ka) if (!isFallbackish(c, fb)) all.insert(c.canon);
            for (auto &c : kp) if (!isFallbackish(c, fb)) parts.insert(c.canon);
            for (auto &c : kc) if (!isFallbackish(c, fb)) parts.insert(c.canon);
            if (all != parts) { oracleFail("C17:history:partition", spec + " after " + hist + " public=" + ps); ok = false; }
            (void)fallbackDoubled;
            stat("history_splits");
        };
        Msg cur = m;
        for (int k = 1; k <= 2; k++) {
            QByteArray b = toXml(cur, QXmpp::SceAll);
            QDomDocument d; Msg next; next.parse(domOf(b, d), QXmpp::SceAll);
            corr("h cycle", showParsed(next));
            // an unsplit cycle keeps every value (the fallback text is not part of the unsplit form)
            auto g = valuesOf(next);
            for (auto &kv : want)
                if (kv.first != "e2eeFallbackBody" && g[kv.first] != kv.second) {
                    failOn("C17:history:cycle-changes:", kv.first, spec + " cycle " + std::to_string(k) + " want=" + kv.second + " got=" + g[kv.first]); ok = false; }
            cur = next;
            judge("cycle x" + std::to_string(k), cur, false);
        }
        corr("h orig", "ok");
        corr("h resplit", showParsed(real));
        judge("receive path", real, true);
    }
    if (ok) oraclePass()++;
    (void)cat;
}

int main(int argc, char **argv)
{
    QCoreApplication app(argc, argv);
    Args args = parseArgs(argc, argv);
    Rng rng(args.seed);
    bool thorough = args.tier == "thorough";
    auto cat = catalogue();
    ClientRig rig; g_rig = &rig;
    auto find = [&](const std::string &n) -> const Field * { for (auto &f : cat) if (f.name == n) return &f; return nullptr; };

    std::vector<Case> cases;
    // corpus: minimized past failures first (JMI / Call-Invite lost on the receive path, fixed in /repo 968e727;
    // <addresses/> in both toXml parts, fixed in 7d68095; unknown extension in clear and outside the envelope, fixed in
    // e2ea074) - the oracle keys stay, so a regression is reported again
    cases.push_back({ { { find("extensions"), &find("extensions")->variants[0] } } });
    cases.push_back({ { { find("jingleMessageInitiationElement"), &find("jingleMessageInitiationElement")->variants[0] } } });
    cases.push_back({ { { find("callInviteElement"), &find("callInviteElement")->variants[0] } } });
    cases.push_back({ { { find("extendedAddresses"), &find("extendedAddresses")->variants[0] } } });
    cases.push_back({ {} });
    // every field singly, every variant
    for (auto &f : cat) for (auto &v : f.variants) cases.push_back({ { { &f, &v } } });
    // all pairs (first variants), plus one random-variant pass
    for (size_t i = 0; i < cat.size(); i++)
        for (size_t j = i + 1; j < cat.size(); j++) {
            cases.push_back({ { { &cat[i], &cat[i].variants[0] }, { &cat[j], &cat[j].variants[0] } } });
            cases.push_back({ { { &cat[i], &cat[i].variants[rng.below(cat[i].variants.size())] }, { &cat[j], &cat[j].variants[rng.below(cat[j].variants.size())] } } });
        }
    // everything together: with and without the receipt ack that suppresses the request
    for (int skipAck = 0; skipAck < 2; skipAck++) {
        Case c;
        for (auto &f : cat) { if (skipAck && f.name == "receiptId") continue; c.parts.push_back({ &f, &f.variants[f.variants.size() - 1] }); }
        cases.push_back(c);
    }
    // all triples (thorough)
    if (thorough)
        for (size_t i = 0; i < cat.size(); i++) for (size_t j = i + 1; j < cat.size(); j++) for (size_t k = j + 1; k < cat.size(); k++)
            cases.push_back({ { { &cat[i], &cat[i].variants[rng.below(cat[i].variants.size())] }, { &cat[j], &cat[j].variants[rng.below(cat[j].variants.size())] },
                                { &cat[k], &cat[k].variants[rng.below(cat[k].variants.size())] } } });
    // random subsets of any size
    int nrand = thorough ? 6000 : 400;
    for (int n = 0; n < nrand; n++) {
        Case c;
        uint32_t density = 1 + rng.below(9);    // inclusion probability density/10
        for (auto &f : cat) if (rng.below(10) < density) c.parts.push_back({ &f, &f.variants[rng.below(f.variants.size())] });
        cases.push_back(c);
    }
    for (auto &c : cases) runCase(c, cat);

    // outside the property's quantifier (known extensions only), reported as statistics: application-supplied unknown
    // extensions and the stanza error are written by toXml in every mode
    {
        Msg m; m.setBody(u"b"_q);
        QXmppElement e; e.setTagName(u"custom"_q); e.setAttribute(u"xmlns"_q, u"app:custom"_q); e.setValue(u"APPPAYLOAD"_q);
        m.setExtensions({ e });
        stat("info_unknown_extension_in_public_bytes", toXml(m, QXmpp::ScePublic).contains("APPPAYLOAD") ? 1 : 0);
        stat("info_unknown_extension_in_toXml_sensitive_bytes", toXml(m, QXmpp::SceSensitive).contains("APPPAYLOAD") ? 1 : 0);
        stat("info_unknown_extension_in_content_bytes", envelope(m).contains("APPPAYLOAD") ? 1 : 0);
    }
    // ---- encrypted IQs (not messages, so outside C17's own quantifier; cheap to watch): what QXmppClient hands to the stream for
    // sendSensitive(iq) / sendSensitiveIq(iq) is the extension's outer IQ only, and the automatic error reply to an encrypted
    // request neither leaves the envelope nor echoes the request's payload
    {
        class SecretIq : public QXmppIq
        {
        public:
            void toXmlElementFromChild(QXmlStreamWriter *w) const override
            { w->writeStartElement(QStringLiteral("query")); w->writeDefaultNamespace(QStringLiteral("verif:iq")); w->writeCharacters(QStringLiteral("SECRETiqpayload")); w->writeEndElement(); }
        };
        auto mk = [] { SecretIq iq; iq.setType(QXmppIq::Set); iq.setId(QStringLiteral("iq1")); iq.setTo(QStringLiteral("juliet@example.org/balcony")); return iq; };
        auto check = [&](const char *what, bool mustBeEncrypted, bool contentHasSecret) {
            bool ok = rig.sent.size() == 1;
            std::string wire = ok ? S(rig.sent.back()) : std::string();
            std::string content(rig.ext->lastIqContent.constData(), size_t(rig.ext->lastIqContent.size()));
            if (!ok) oracleFail(std::string("C17:iq:") + what + ":packets", std::to_string(rig.sent.size()));
            if (wire.find("SECRETiqpayload") != std::string::npos) { oracleFail(std::string("C17:iq:") + what + ":payload-in-cleartext", wire); ok = false; }
            if (mustBeEncrypted && (wire.find("<enc ") == std::string::npos || wire.find("<error") != std::string::npos || wire.find("<query") != std::string::npos)) {
                oracleFail(std::string("C17:iq:") + what + ":not-inside-envelope", wire); ok = false; }
            if (mustBeEncrypted && contentHasSecret != (content.find("SECRETiqpayload") != std::string::npos)) {
                oracleFail(std::string("C17:iq:") + what + (contentHasSecret ? ":payload-missing-from-envelope" : ":error-reply-echoes-payload"), content); ok = false; }
            if (ok) oraclePass()++;
            stat("iq_checks");
            sample(std::string("iq ") + what + "  WIRE=" + wire);
        };
        rig.sent.clear(); rig.ext->lastIqContent.clear(); rig.client.sendSensitive(mk()); check("sendSensitive", true, true);
        rig.sent.clear(); rig.ext->lastIqContent.clear(); rig.client.sendSensitiveIq(mk()); check("sendSensitiveIq", true, true);
        QDomDocument d;
        d.setContent(QByteArray("<iq xmlns='jabber:client' type='get' id='iq2' from='romeo@example.org/orchard'><query xmlns='verif:iq'>SECRETiqpayload</query></iq>"), true);
        rig.sent.clear(); rig.ext->lastIqContent.clear(); rig.ext->feedDecryptedIq(d.documentElement(), true); check("error-reply-to-encrypted", true, false);
        rig.sent.clear(); rig.ext->lastIqContent.clear(); rig.ext->feedDecryptedIq(d.documentElement(), false); check("error-reply-to-plain", false, false);
    }
    stat("fields_in_catalogue", (long long)cat.size());
    finish();
    return 0;
}
