// Dispatch table over the XML parsers/serializers of qxmpp (src/base and the few in src/client).
//
//   name  -> { covers (qualified class names as `nm -DC` prints them, used by tools/codec_coverage.py),
//              typeChecked (false = parser has no type check of its own and is handed EVERY document),
//              parseOnly   (class has a DOM parser but no serializer: only the crash/hang oracle applies),
//              admits(QDomElement)            the class's OWN type check (isXyz / fromDom().has_value() / bool parse()),
//              parseAndSerialize(QDomElement) construct, parse, toXml into a QXmlStreamWriter; bytes returned }
//
// Conventions
//  * list-like classes whose toXml writes several sibling elements (or none) are wrapped in <verif-wrap> by the entry, and
//    their parser takes the parent element, so wrapped output re-parses the same way;
//  * data-form based classes (QXmppPubSubNodeConfig, ...) go QDomElement -> QXmppDataForm -> fromDataForm -> toDataForm -> toXml;
//  * classes parsing from a QXmlStreamReader (HtToken, QXmppCredentials) get the element re-rendered to text first.
#pragma once

#include "QXmppArchiveIq.h"
#include "QXmppBindIq.h"
#include "QXmppBitsOfBinaryData.h"
#include "QXmppBitsOfBinaryDataList.h"
#include "QXmppBitsOfBinaryIq.h"
#include "QXmppBookmarkSet.h"
#include "QXmppByteStreamIq.h"
#include "QXmppDataForm.h"
#include "QXmppDiscoveryIq.h"
#include "QXmppElement.h"
#include "QXmppEncryptedFileSource.h"
#include "QXmppEntityTimeIq.h"
#include "QXmppExternalService.h"
#include "QXmppExternalServiceDiscoveryIq.h"
#include "QXmppFallback.h"
#include "QXmppFileMetadata.h"
#include "QXmppFileShare.h"
#include "QXmppGeolocItem.h"
#include "QXmppHash.h"
#include "QXmppHttpFileSource.h"
#include "QXmppHttpUploadIq.h"
#include "QXmppIbbIq.h"
#include "QXmppIq.h"
#include "QXmppJingleData.h"
#include "QXmppMamIq.h"
#include "QXmppMessage.h"
#include "QXmppMessageReaction.h"
#include "QXmppMixConfigItem.h"
#include "QXmppMixInfoItem.h"
#include "QXmppMixInvitation.h"
#include "QXmppMixIq.h"
#include "QXmppMixIq_p.h"
#include "QXmppMixParticipantItem.h"
#include "QXmppMucIq.h"
#include "QXmppNonSASLAuth.h"
#include "QXmppOutOfBandUrl.h"
#include "QXmppPingIq.h"
#include "QXmppPresence.h"
#include "QXmppPubSubAffiliation.h"
#include "QXmppPubSubBaseItem.h"
#include "QXmppPubSubEvent.h"
#include "QXmppPubSubIq_p.h"
#include "QXmppPubSubMetadata.h"
#include "QXmppPubSubNodeConfig.h"
#include "QXmppPubSubSubAuthorization.h"
#include "QXmppPubSubSubscribeOptions.h"
#include "QXmppPubSubSubscription.h"
#include "QXmppPushEnableIq.h"
#include "QXmppRegisterIq.h"
#include "QXmppResultSet.h"
#include "QXmppRosterIq.h"
#include "QXmppRpcIq.h"
#include "QXmppSasl_p.h"
#include "QXmppStanza.h"
#include "QXmppStreamError_p.h"
#include "QXmppStreamFeatures.h"
#include "QXmppStreamInitiationIq_p.h"
#include "QXmppStreamManagement_p.h"
#include "QXmppThumbnail.h"
#include "QXmppTrustMessageElement.h"
#include "QXmppTrustMessageKeyOwner.h"
#include "QXmppUserTuneItem.h"
#include "QXmppVCardIq.h"
#include "QXmppVersionIq.h"
#include "Stream.h"
// src/client
#include "QXmppAccountMigrationManager.h"
#include "QXmppCredentials.h"
#include "QXmppMovedItem_p.h"
#include "QXmppSceEnvelope_p.h"
#include "QXmppTransferManager.h"
// src/server
#include "QXmppDialback.h"
// src/base/compat (deprecated API that is still compiled and exported)
#undef QXMPPPUBSUBIQ_H   // same include guard as QXmppPubSubIq_p.h, different class
#include "compat/QXmppPubSubIq.h"
#include "compat/QXmppPubSubItem.h"
#include "compat/QXmppSessionIq.h"
#include "compat/QXmppStartTlsPacket.h"

#include <QBuffer>
#include <QDomDocument>
#include <QDomElement>
#include <QXmlStreamReader>
#include <QXmlStreamWriter>
#include <functional>
#include <string>
#include <vector>

#pragma GCC diagnostic push
#pragma GCC diagnostic ignored "-Wdeprecated-declarations"

namespace vt {

struct Codec {
    std::string name;
    std::vector<std::string> covers;
    bool typeChecked = true;
    bool parseOnly = false;
    std::function<bool(const QDomElement &)> admits;
    std::function<QByteArray(const QDomElement &)> parseAndSerialize;
    // serialization of a default-constructed object of the class (own output form with every optional field absent); may be null
    std::function<QByteArray()> defaultOutput;
    // the class is a verbatim container (QXmppElement): its output must be the input tree
    bool identity = false;
};

// ---- serialization helpers -----------------------------------------------------------------------------------------
template<typename F>
inline QByteArray withWriter(F &&f)
{
    QByteArray out;
    {
        QXmlStreamWriter w(&out);
        f(w);
        // several toXml() end with writeEmptyElement()+attributes; the writer only emits the closing "/>" with the next token
        // (inside a parent that is the parent's end tag). Writing an empty text closes a pending start tag without closing any
        // element the serializer left open, so unbalanced output stays visible.
        w.writeCharacters(QString());
    }
    return out;
}
template<typename T>
inline QByteArray ser(const T &t)
{
    return withWriter([&](QXmlStreamWriter &w) { t.toXml(&w); });
}
template<typename T>
inline QByteArray serWrapped(const T &t)
{
    return withWriter([&](QXmlStreamWriter &w) { w.writeStartElement(QStringLiteral("verif-wrap")); t.toXml(&w); w.writeEndElement(); });
}
inline void writeDom(QXmlStreamWriter &w, const QDomElement &e, const QString &parentNs)
{
    const QString ns = e.namespaceURI();
    w.writeStartElement(e.localName().isEmpty() ? e.tagName() : e.localName());
    if (ns != parentNs) w.writeDefaultNamespace(ns);
    const auto am = e.attributes();
    for (int i = 0; i < am.count(); i++) {
        const auto a = am.item(i).toAttr();
        if (a.name() == u"xmlns" || a.name().startsWith(u"xmlns:")) continue;
        if (a.prefix().isEmpty() || a.prefix() == u"xml") w.writeAttribute(a.name(), a.value());
        else w.writeAttribute(a.namespaceURI(), a.localName(), a.value());
    }
    for (auto c = e.firstChild(); !c.isNull(); c = c.nextSibling()) {
        if (c.isElement()) writeDom(w, c.toElement(), ns);
        else if (c.isText() || c.isCDATASection()) w.writeCharacters(c.nodeValue());
    }
    w.writeEndElement();
}
inline QByteArray elementText(const QDomElement &e)
{
    // namespace-complete text of one element (used for the QXmlStreamReader based parsers); the element's namespace is always
    // declared, also when the DOM element inherited it from its parent
    return withWriter([&](QXmlStreamWriter &w) { writeDom(w, e, QString()); });
}

// ---- entry constructors --------------------------------------------------------------------------------------------
// void parse(const QDomElement&), no type check
template<typename T>
Codec untyped(const char *name, std::vector<std::string> covers)
{
    return { name, std::move(covers), false, false,
             [](const QDomElement &) { return true; },
             [](const QDomElement &e) { T t; t.parse(e); return ser(t); },
             []() { T t; return ser(t); } };
}
// void parse(const QDomElement&) + static bool isXyz(const QDomElement&)
template<typename T>
Codec typed(const char *name, std::vector<std::string> covers, bool (*is)(const QDomElement &))
{
    return { name, std::move(covers), true, false,
             [is](const QDomElement &e) { return is(e); },
             [](const QDomElement &e) { T t; t.parse(e); return ser(t); },
             []() { T t; return ser(t); } };
}
// bool parse(const QDomElement&): the return value is the type check
template<typename T>
Codec boolParse(const char *name, std::vector<std::string> covers)
{
    return { name, std::move(covers), true, false,
             [](const QDomElement &e) { T t; return t.parse(e); },
             [](const QDomElement &e) { T t; t.parse(e); return ser(t); },
             []() { T t; return ser(t); } };
}
// static std::optional<T> fromDom(const QDomElement&)
template<typename T>
Codec fromDom(const char *name, std::vector<std::string> covers)
{
    return { name, std::move(covers), true, false,
             [](const QDomElement &e) { return T::fromDom(e).has_value(); },
             [](const QDomElement &e) { auto t = T::fromDom(e); return t ? ser(*t) : QByteArray(); },
             []() {
                 if constexpr (std::is_default_constructible_v<T>) { T t {}; return ser(t); }
                 else return QByteArray();
             } };
}
// data-form based
template<typename T>
Codec formBased(const char *name, std::vector<std::string> covers)
{
    return { name, std::move(covers), true, false,
             [](const QDomElement &e) { QXmppDataForm f; f.parse(e); return T::fromDataForm(f).has_value(); },
             [](const QDomElement &e) {
                 QXmppDataForm f; f.parse(e);
                 auto t = T::fromDataForm(f);
                 return t ? ser(t->toDataForm()) : QByteArray();
             },
             []() { T t; return ser(t.toDataForm()); } };
}

// QXmppDataFormBase::fromDataForm is protected and QXmppPubSubMetadata has no public wrapper: reach it through a derived class
struct PublishOptionsAccess : QXmppPubSubPublishOptions {
    static bool from(const QXmppDataForm &f, QXmppPubSubPublishOptions &m) { return QXmppDataFormBase::fromDataForm(f, m); }
};
struct MetadataAccess : QXmppPubSubMetadata {
    static bool from(const QXmppDataForm &f, QXmppPubSubMetadata &m) { return QXmppDataFormBase::fromDataForm(f, m); }
};

inline std::vector<Codec> buildTable()
{
    using namespace QXmpp::Private;
    std::vector<Codec> t;

    // ---------------------------------------------------------------- stanzas and their generic parts (no type check)
    t.push_back(untyped<QXmppMessage>("QXmppMessage", { "QXmppMessage" }));
    t.push_back({ "QXmppMessage/ScePublic", { "QXmppMessage" }, false, false,
                  [](const QDomElement &) { return true; },
                  [](const QDomElement &e) {
                      QXmppMessage m; m.parse(e, QXmpp::ScePublic);
                      return withWriter([&](QXmlStreamWriter &w) { m.toXml(&w, QXmpp::ScePublic); });
                  } });
    t.push_back({ "QXmppMessage/SceSensitive", { "QXmppMessage" }, false, false,
                  [](const QDomElement &) { return true; },
                  [](const QDomElement &e) {
                      QXmppMessage m; m.parse(e, QXmpp::SceSensitive);
                      return withWriter([&](QXmlStreamWriter &w) { m.toXml(&w, QXmpp::SceSensitive); });
                  } });
    t.push_back(untyped<QXmppPresence>("QXmppPresence", { "QXmppPresence" }));
    t.push_back(untyped<QXmppIq>("QXmppIq", { "QXmppIq" }));
    t.push_back(untyped<QXmppStanza::Error>("QXmppStanza::Error", { "QXmppStanza::Error" }));
    t.push_back(untyped<QXmppExtendedAddress>("QXmppExtendedAddress", { "QXmppExtendedAddress" }));
    t.push_back(untyped<QXmppDataForm>("QXmppDataForm", { "QXmppDataForm" }));
    t.push_back({ "QXmppElement", { "QXmppElement" }, false, false,
                  [](const QDomElement &) { return true; },
                  [](const QDomElement &e) { return ser(QXmppElement(e)); } });
    t.back().identity = true;
    t.push_back(untyped<QXmppResultSetQuery>("QXmppResultSetQuery", { "QXmppResultSetQuery" }));
    t.push_back(untyped<QXmppResultSetReply>("QXmppResultSetReply", { "QXmppResultSetReply" }));
    t.push_back(untyped<QXmppMucItem>("QXmppMucItem", { "QXmppMucItem" }));
    t.push_back(untyped<QXmppRosterIq::Item>("QXmppRosterIq::Item", { "QXmppRosterIq::Item" }));
    t.push_back(untyped<QXmppArchiveChat>("QXmppArchiveChat", { "QXmppArchiveChat" }));
    t.push_back(untyped<QXmppVCardAddress>("QXmppVCardAddress", { "QXmppVCardAddress" }));
    t.push_back(untyped<QXmppVCardEmail>("QXmppVCardEmail", { "QXmppVCardEmail" }));
    t.push_back(untyped<QXmppVCardPhone>("QXmppVCardPhone", { "QXmppVCardPhone" }));
    // writes its ORG/TITLE/ROLE elements as siblings into the vCard and parses from the vCard element: wrapped
    t.push_back({ "QXmppVCardOrganization", { "QXmppVCardOrganization" }, false, false,
                  [](const QDomElement &) { return true; },
                  [](const QDomElement &e) { QXmppVCardOrganization o; o.parse(e); return serWrapped(o); } });
    t.push_back(untyped<QXmppTransferFileInfo>("QXmppTransferFileInfo", { "QXmppTransferFileInfo" }));
    t.push_back(untyped<QXmppPubSubItem>("QXmppPubSubItem(compat)", { "QXmppPubSubItem" }));
    t.push_back(untyped<QXmppStartTlsPacket>("QXmppStartTlsPacket(compat)", { "QXmppStartTlsPacket" }));
    // jingle parts without a type check
    t.push_back(untyped<QXmppJingleIq::Content>("QXmppJingleIq::Content", { "QXmppJingleIq::Content" }));
    t.push_back(untyped<QXmppJingleReason>("QXmppJingleReason", { "QXmppJingleReason" }));
    t.push_back(untyped<QXmppJingleCandidate>("QXmppJingleCandidate", { "QXmppJingleCandidate" }));
    t.push_back(untyped<QXmppJinglePayloadType>("QXmppJinglePayloadType", { "QXmppJinglePayloadType" }));
    t.push_back(untyped<QXmppJingleDescription>("QXmppJingleDescription", { "QXmppJingleDescription" }));
    t.push_back({ "QXmppCallInviteElement::Jingle", { "QXmppCallInviteElement::Jingle" }, false, false,
                  [](const QDomElement &) { return true; },
                  [](const QDomElement &e) { QXmppCallInviteElement::Jingle j; j.parse(e); return ser(j); } });
    // list-like (wrapped)
    t.push_back({ "QXmppBitsOfBinaryDataList", { "QXmppBitsOfBinaryDataList" }, false, false,
                  [](const QDomElement &) { return true; },
                  [](const QDomElement &e) { QXmppBitsOfBinaryDataList l; l.parse(e); return serWrapped(l); } });
    // XML-RPC value marshaller
    t.push_back({ "QXmppRpcMarshaller", { "QXmppRpcMarshaller" }, false, false,
                  [](const QDomElement &) { return true; },
                  [](const QDomElement &e) {
                      QStringList errors;
                      QVariant v = QXmppRpcMarshaller::demarshall(e, errors);
                      return withWriter([&](QXmlStreamWriter &w) { QXmppRpcMarshaller::marshall(&w, v); });
                  } });

    // ---------------------------------------------------------------- IQ classes (type check = isXyzIq)
#define IQ(T, is) t.push_back(typed<T>(#T, { #T }, &T::is))
    IQ(QXmppArchiveChatIq, isArchiveChatIq);
    IQ(QXmppArchiveListIq, isArchiveListIq);
    IQ(QXmppArchiveRemoveIq, isArchiveRemoveIq);
    IQ(QXmppArchiveRetrieveIq, isArchiveRetrieveIq);
    IQ(QXmppArchivePrefIq, isArchivePrefIq);
    IQ(QXmppBindIq, isBindIq);
    IQ(QXmppBitsOfBinaryIq, isBitsOfBinaryIq);
    IQ(QXmppByteStreamIq, isByteStreamIq);
    IQ(QXmppDiscoveryIq, isDiscoveryIq);
    IQ(QXmppEntityTimeIq, isEntityTimeIq);
    IQ(QXmppExternalServiceDiscoveryIq, isExternalServiceDiscoveryIq);
    IQ(QXmppHttpUploadRequestIq, isHttpUploadRequestIq);
    IQ(QXmppHttpUploadSlotIq, isHttpUploadSlotIq);
    IQ(QXmppIbbOpenIq, isIbbOpenIq);
    IQ(QXmppIbbCloseIq, isIbbCloseIq);
    IQ(QXmppIbbDataIq, isIbbDataIq);
    IQ(QXmppJingleIq, isJingleIq);
    IQ(QXmppMamQueryIq, isMamQueryIq);
    IQ(QXmppMamResultIq, isMamResultIq);
    IQ(QXmppMixIq, isMixIq);
    IQ(QXmppMixSubscriptionUpdateIq, isMixSubscriptionUpdateIq);
    IQ(QXmppMixInvitationRequestIq, isMixInvitationRequestIq);
    IQ(QXmppMixInvitationResponseIq, isMixInvitationResponseIq);
    IQ(QXmppMucAdminIq, isMucAdminIq);
    IQ(QXmppMucOwnerIq, isMucOwnerIq);
    IQ(QXmppNonSASLAuthIq, isNonSASLAuthIq);
    IQ(QXmppPingIq, isPingIq);
    IQ(QXmppPushEnableIq, isPushEnableIq);
    IQ(QXmppRegisterIq, isRegisterIq);
    IQ(QXmppRosterIq, isRosterIq);
    IQ(QXmppRpcResponseIq, isRpcResponseIq);
    IQ(QXmppRpcInvokeIq, isRpcInvokeIq);
    IQ(QXmppRpcErrorIq, isRpcErrorIq);
    IQ(QXmppStreamInitiationIq, isStreamInitiationIq);
    IQ(QXmppVCardIq, isVCard);
    IQ(QXmppVersionIq, isVersionIq);
    IQ(QXmppSessionIq, isSessionIq);
    IQ(QXmppPubSubIq, isPubSubIq);
#undef IQ
    // pubsub IQ / event templates over every bundled item type
#define PSIQ(Item) t.push_back(typed<PubSubIq<Item>>("PubSubIq<" #Item ">", { "QXmpp::Private::PubSubIqBase", #Item }, &PubSubIq<Item>::isPubSubIq))
    PSIQ(QXmppPubSubBaseItem);
    PSIQ(QXmppGeolocItem);
    PSIQ(QXmppTuneItem);
    PSIQ(QXmppMixInfoItem);
    PSIQ(QXmppMixParticipantItem);
    PSIQ(QXmppMixConfigItem);
    PSIQ(QXmppMovedItem);
#undef PSIQ
#define PSEV(Item) t.push_back(typed<QXmppPubSubEvent<Item>>("QXmppPubSubEvent<" #Item ">", { "QXmppPubSubEventBase", #Item }, &QXmppPubSubEvent<Item>::isPubSubEvent))
    PSEV(QXmppPubSubBaseItem);
    PSEV(QXmppGeolocItem);
    PSEV(QXmppTuneItem);
    PSEV(QXmppMixInfoItem);
    PSEV(QXmppMixParticipantItem);
    PSEV(QXmppMixConfigItem);
    PSEV(QXmppMovedItem);
#undef PSEV

    // ---------------------------------------------------------------- typed elements: static bool isXyz + void parse
#define EL(T, is) t.push_back(typed<T>(#T, { #T }, &T::is))
    EL(QXmppBookmarkSet, isBookmarkSet);
    EL(QXmppExternalService, isExternalService);
    EL(QXmppSdpParameter, isSdpParameter);
    EL(QXmppJingleRtpCryptoElement, isJingleRtpCryptoElement);
    EL(QXmppJingleRtpEncryption, isJingleRtpEncryption);
    EL(QXmppJingleRtpFeedbackProperty, isJingleRtpFeedbackProperty);
    EL(QXmppJingleRtpFeedbackInterval, isJingleRtpFeedbackInterval);
    EL(QXmppJingleRtpHeaderExtensionProperty, isJingleRtpHeaderExtensionProperty);
    EL(QXmppJingleMessageInitiationElement, isJingleMessageInitiationElement);
    EL(QXmppCallInviteElement, isCallInviteElement);
    EL(QXmppMessageReaction, isMessageReaction);
    EL(QXmppMixInvitation, isMixInvitation);
    EL(QXmppPubSubAffiliation, isAffiliation);
    EL(QXmppPubSubSubscription, isSubscription);
    EL(QXmppTrustMessageElement, isTrustMessageElement);
    EL(QXmppTrustMessageKeyOwner, isTrustMessageKeyOwner);
    EL(QXmppStreamFeatures, isStreamFeatures);
    EL(QXmppDialback, isDialback);
    EL(QXmppPubSubBaseItem, isItem);
    EL(QXmppGeolocItem, isItem);
    EL(QXmppTuneItem, isItem);
    EL(QXmppMixInfoItem, isItem);
    EL(QXmppMixParticipantItem, isItem);
    EL(QXmppMixConfigItem, isItem);
    EL(QXmppMovedItem, isItem);
#undef EL
    t.push_back({ "QXmppBitsOfBinaryData", { "QXmppBitsOfBinaryData" }, true, false,
                  [](const QDomElement &e) { return QXmppBitsOfBinaryData::isBitsOfBinaryData(e); },
                  [](const QDomElement &e) {
                      QXmppBitsOfBinaryData d; d.parseElementFromChild(e);
                      return withWriter([&](QXmlStreamWriter &w) { d.toXmlElementFromChild(&w); });
                  } });

    // ---------------------------------------------------------------- bool parse()
    t.push_back(boolParse<QXmppFileShare>("QXmppFileShare", { "QXmppFileShare" }));
    t.push_back(boolParse<QXmppFileMetadata>("QXmppFileMetadata", { "QXmppFileMetadata" }));
    t.push_back(boolParse<QXmppHash>("QXmppHash", { "QXmppHash" }));
    t.push_back(boolParse<QXmppHashUsed>("QXmppHashUsed", { "QXmppHashUsed" }));
    t.push_back(boolParse<QXmppThumbnail>("QXmppThumbnail", { "QXmppThumbnail" }));
    t.push_back(boolParse<QXmppHttpFileSource>("QXmppHttpFileSource", { "QXmppHttpFileSource" }));
    t.push_back(boolParse<QXmppEncryptedFileSource>("QXmppEncryptedFileSource", { "QXmppEncryptedFileSource" }));
    t.push_back(boolParse<QXmppOutOfBandUrl>("QXmppOutOfBandUrl", { "QXmppOutOfBandUrl" }));

    // ---------------------------------------------------------------- static std::optional<T> fromDom()
    t.push_back(fromDom<QXmppFallback>("QXmppFallback", { "QXmppFallback" }));
    t.push_back(fromDom<Sasl::Auth>("Sasl::Auth", { "QXmpp::Private::Sasl::Auth" }));
    t.push_back(fromDom<Sasl::Challenge>("Sasl::Challenge", { "QXmpp::Private::Sasl::Challenge" }));
    t.push_back(fromDom<Sasl::Failure>("Sasl::Failure", { "QXmpp::Private::Sasl::Failure" }));
    t.push_back(fromDom<Sasl::Response>("Sasl::Response", { "QXmpp::Private::Sasl::Response" }));
    t.push_back(fromDom<Sasl::Success>("Sasl::Success", { "QXmpp::Private::Sasl::Success" }));
    t.push_back(fromDom<Bind2Feature>("Bind2Feature", { "QXmpp::Private::Bind2Feature" }));
    t.push_back(fromDom<Bind2Request>("Bind2Request", { "QXmpp::Private::Bind2Request" }));
    t.push_back(fromDom<Bind2Bound>("Bind2Bound", { "QXmpp::Private::Bind2Bound" }));
    t.push_back(fromDom<FastFeature>("FastFeature", { "QXmpp::Private::FastFeature" }));
    t.push_back(fromDom<FastTokenRequest>("FastTokenRequest", { "QXmpp::Private::FastTokenRequest" }));
    t.push_back(fromDom<FastToken>("FastToken", { "QXmpp::Private::FastToken" }));
    t.push_back(fromDom<FastRequest>("FastRequest", { "QXmpp::Private::FastRequest" }));
    t.push_back(fromDom<Sasl2::StreamFeature>("Sasl2::StreamFeature", { "QXmpp::Private::Sasl2::StreamFeature" }));
    t.push_back(fromDom<Sasl2::UserAgent>("Sasl2::UserAgent", { "QXmpp::Private::Sasl2::UserAgent" }));
    t.push_back(fromDom<Sasl2::Authenticate>("Sasl2::Authenticate", { "QXmpp::Private::Sasl2::Authenticate" }));
    t.push_back(fromDom<Sasl2::Challenge>("Sasl2::Challenge", { "QXmpp::Private::Sasl2::Challenge" }));
    t.push_back(fromDom<Sasl2::Response>("Sasl2::Response", { "QXmpp::Private::Sasl2::Response" }));
    t.push_back(fromDom<Sasl2::Success>("Sasl2::Success", { "QXmpp::Private::Sasl2::Success" }));
    t.push_back(fromDom<Sasl2::Failure>("Sasl2::Failure", { "QXmpp::Private::Sasl2::Failure" }));
    t.push_back(fromDom<Sasl2::Continue>("Sasl2::Continue", { "QXmpp::Private::Sasl2::Continue" }));
    t.push_back(fromDom<Sasl2::Abort>("Sasl2::Abort", { "QXmpp::Private::Sasl2::Abort" }));
    t.push_back(fromDom<SmEnable>("SmEnable", { "QXmpp::Private::SmEnable" }));
    t.push_back(fromDom<SmEnabled>("SmEnabled", { "QXmpp::Private::SmEnabled" }));
    t.push_back(fromDom<SmResume>("SmResume", { "QXmpp::Private::SmResume" }));
    t.push_back(fromDom<SmResumed>("SmResumed", { "QXmpp::Private::SmResumed" }));
    t.push_back(fromDom<SmFailed>("SmFailed", { "QXmpp::Private::SmFailed" }));
    t.push_back(fromDom<SmAck>("SmAck", { "QXmpp::Private::SmAck" }));
    t.push_back(fromDom<SmRequest>("SmRequest", { "QXmpp::Private::SmRequest" }));
    t.push_back(fromDom<StarttlsRequest>("StarttlsRequest", { "QXmpp::Private::StarttlsRequest" }));
    t.push_back(fromDom<StarttlsProceed>("StarttlsProceed", { "QXmpp::Private::StarttlsProceed" }));

    // ---------------------------------------------------------------- variant-returning fromDom
    t.push_back({ "QXmppExportData", { "QXmppExportData" }, true, false,
                  [](const QDomElement &e) { return std::holds_alternative<QXmppExportData>(QXmppExportData::fromDom(e)); },
                  [](const QDomElement &e) {
                      auto r = QXmppExportData::fromDom(e);
                      if (auto *d = std::get_if<QXmppExportData>(&r)) return ser(*d);
                      return QByteArray();
                  } });
    t.push_back({ "StreamErrorElement", {}, true, true,
                  [](const QDomElement &e) { return std::holds_alternative<StreamErrorElement>(StreamErrorElement::fromDom(e)); },
                  [](const QDomElement &e) { (void)StreamErrorElement::fromDom(e); return QByteArray(); } });

    // ---------------------------------------------------------------- data-form based option/config classes
    t.push_back(formBased<QXmppPubSubNodeConfig>("QXmppPubSubNodeConfig", {}));
    // QXmppPubSubPublishOptions::fromDataForm is declared in the header but defined nowhere in the library: use the base helper
    t.push_back({ "QXmppPubSubPublishOptions", {}, true, false,
                  [](const QDomElement &e) { QXmppDataForm f; f.parse(e); QXmppPubSubPublishOptions m; return PublishOptionsAccess::from(f, m); },
                  [](const QDomElement &e) {
                      QXmppDataForm f; f.parse(e);
                      QXmppPubSubPublishOptions m;
                      return PublishOptionsAccess::from(f, m) ? ser(m.toDataForm()) : QByteArray();
                  } });
    t.push_back({ "QXmppPubSubMetadata", {}, true, false,
                  [](const QDomElement &e) { QXmppDataForm f; f.parse(e); QXmppPubSubMetadata m; return MetadataAccess::from(f, m); },
                  [](const QDomElement &e) {
                      QXmppDataForm f; f.parse(e);
                      QXmppPubSubMetadata m;
                      return MetadataAccess::from(f, m) ? ser(m.toDataForm()) : QByteArray();
                  } });
    t.push_back(formBased<QXmppPubSubSubAuthorization>("QXmppPubSubSubAuthorization", {}));
    t.push_back(formBased<QXmppPubSubSubscribeOptions>("QXmppPubSubSubscribeOptions", {}));

    // ---------------------------------------------------------------- QXmlStreamReader based
    t.push_back({ "HtToken", { "QXmpp::Private::HtToken" }, true, false,
                  [](const QDomElement &e) {
                      QXmlStreamReader r(elementText(e)); r.readNextStartElement();
                      return HtToken::fromXml(r).has_value();
                  },
                  [](const QDomElement &e) {
                      QXmlStreamReader r(elementText(e)); r.readNextStartElement();
                      auto tok = HtToken::fromXml(r);
                      if (!tok) return QByteArray();
                      return withWriter([&](QXmlStreamWriter &w) { tok->toXml(w); });
                  } });
    t.push_back({ "QXmppCredentials", { "QXmppCredentials" }, true, false,
                  [](const QDomElement &e) {
                      QXmlStreamReader r(elementText(e)); r.readNextStartElement();
                      return QXmppCredentials::fromXml(r).has_value();
                  },
                  [](const QDomElement &e) {
                      QXmlStreamReader r(elementText(e)); r.readNextStartElement();
                      auto c = QXmppCredentials::fromXml(r);
                      if (!c) return QByteArray();
                      return withWriter([&](QXmlStreamWriter &w) { c->toXml(w); });
                  } });

    // ---------------------------------------------------------------- SCE envelope (reader + writer pair, src/client)
    t.push_back({ "QXmppSceEnvelope", {}, true, false,
                  [](const QDomElement &e) { return e.tagName() == u"envelope" && e.namespaceURI() == u"urn:xmpp:sce:1"; },
                  [](const QDomElement &e) {
                      QXmppSceEnvelopeReader rd { QDomElement(e) };
                      auto content = rd.contentElement();
                      auto from = rd.from(), to = rd.to();
                      auto ts = rd.timestamp();
                      return withWriter([&](QXmlStreamWriter &w) {
                          QXmppSceEnvelopeWriter ew(w);
                          ew.start();
                          ew.writeContent([&]() {
                              for (auto c = content.firstChildElement(); !c.isNull(); c = c.nextSiblingElement()) QXmppElement(c).toXml(&w);
                          });
                          if (ts.isValid()) ew.writeTimestamp(ts);
                          if (!to.isEmpty()) ew.writeTo(to);
                          if (!from.isEmpty()) ew.writeFrom(from);
                          ew.end();
                      });
                  } });
    return t;
}

// Classes that define toXml but have NO parser of any kind in the library (serialize-only); listed so that the coverage
// tool can report them separately instead of counting them as missing.
inline std::vector<std::string> serializeOnly()
{
    return { "QXmpp::Private::StreamOpen", "QXmpp::Private::CsiActive", "QXmpp::Private::CsiInactive",
             "QXmppCallInviteElement::External" };
}

}  // namespace vt

#pragma GCC diagnostic pop
