// C04 / C10 harness: a REAL QXmppClient (default extension set) connects over loopback TCP to an in-process scripted
// server (QTcpServer + QSslSocket) that speaks the alphabet of lean/Qx/Model/C04Negotiation.lean, one symbol per op.
// After every op the event loop is pumped until both sockets are quiescent, then one correspondence line is printed:
//     C <op>\t<ordered client events>|<state flags>
// events = every QXmppLogger::SentMessage classified (+ whether the client socket was encrypted and connected at that
// instant) and the client signals connected / disconnected / error, in the order they happened.
// Independent oracles (written from the property texts, never consulting the model):
//   C04: with TLS required, everything the SERVER side read before its TLS handshake completed (= what went over the
//        wire in clear) may only be stream open / <starttls/> / stream close, and must not contain the password, the
//        token or any of their encodings; features without STARTTLS => the client closes.
//   C10: after a cut: state()==Disconnected, !isConnected(), !isAuthenticated(); `connected` at most once per TCP
//        connection and only after the scripted negotiation was delivered completely; an outstanding sendIq() task is
//        finished unless the session is resumable; a following full conforming script reaches `connected`.
#include "common.h"

#include "QXmppClient.h"
#include "QXmppClient_p.h"
#include "QXmppConfiguration.h"
#include "QXmppCredentials.h"
#include "QXmppIq.h"
#include "QXmppLogger.h"
#include "QXmppOutgoingClient.h"
#include "QXmppOutgoingClient_p.h"
#include "QXmppSasl2UserAgent.h"
#include "QXmppSasl_p.h"
#include "QXmppTask.h"
#include "QXmppVersionIq.h"

#include <QCoreApplication>
#include <QAbstractEventDispatcher>
#include <QCryptographicHash>
#include <QElapsedTimer>
#include <QFile>
#include <QMessageAuthenticationCode>
#include <QPasswordDigestor>
#include <QProcess>
#include <QRegularExpression>
#include <QSslCertificate>
#include <QSslKey>
#include <QSslSocket>
#include <QTcpServer>
#include <QThread>
#include "QXmppRegistrationManager.h"
#include "QXmppRegisterIq.h"
#include <QTimer>
#include <QTimerEvent>
#include <QUuid>
#include <QXmlStreamReader>

#include <algorithm>
#include <functional>
#include <memory>
#include <set>
#include <sys/ioctl.h>
#include <sys/socket.h>
#include <linux/sockios.h>
#include <linux/tcp.h>
#include <netinet/in.h>

using namespace vh;

#ifndef NEG_DEFAULT_MODE
#define NEG_DEFAULT_MODE "c04"
#endif

static const QString PASSWORD = QStringLiteral("S3cr3tPassw0rdXyZ");
static const QString TOKEN = QStringLiteral("T0kenSecretQwErTy");
static const QString USER = QStringLiteral("alice");
static const QString DOMAIN = QStringLiteral("example.test");
static const QString STREAM_ID = QStringLiteral("strm4711");

// ------------------------------------------------------------------------------------------------ the real client
class TestClient : public QXmppClient   // the library declares `friend class TestClient`
{
public:
    TestClient() : QXmppClient() { }
    QXmppOutgoingClient *strm() const { return d->stream; }
    QXmppOutgoingClientPrivate *sp() const { return d->stream->d.get(); }
    static void resetIds() { QXmppStanza::s_uniqeIdNo = 0; }
    bool bind2BoundSet() const { return d->stream->d->bind2Bound.has_value(); }
    int listenerIndex() const { return int(d->stream->d->listener.index()); }
};

// ------------------------------------------------------------------------------------------------ configuration
struct Cfg {
    int tls = 2;          // 0 TLSDisabled, 1 TLSEnabled, 2 TLSRequired
    bool sasl2 = true, sasl = true, nonsasl = true;
    bool plainOk = false; // PLAIN removed from the disabled list
    int token = 0;        // FAST: 0 nothing, 1 user agent + HT token, 2 user agent only
    bool nsPlain = false; // XEP-0078 preference plain instead of digest
    bool inactive = false; // client state indication: inactive before connecting
    int reg = 0;           // QXmppRegistrationManager with registerOnConnect: 0 not installed, 1 enabled, 2 enabled with a cached form (username + password)
    bool ar = false;       // automatic reconnection (the reconnect timer is fired by the op `rtick`, never by real time: its first delay is seconds)
    int ka = 0;            // keep-alive pings: 0 off, 1 on (interval one hour, the op `tick` fires the timer), 2 on with a real interval of 1 s
    std::string str() const
    {
        char b[128];
        snprintf(b, sizeof b, "tls=%d s2=%d s1=%d ns=%d pl=%d tok=%d nsp=%d ina=%d", tls, sasl2, sasl, nonsasl, plainOk, token, nsPlain, inactive);
        return std::string(b) + (ka ? " ka=" + std::to_string(ka) : "") + (ar ? " ar=1" : "") + (reg ? " reg=" + std::to_string(reg) : "");
    }
};

static QXmppConfiguration makeConfig(const Cfg &c, quint16 port)
{
    QXmppConfiguration cfg;
    cfg.setJid(USER + "@" + DOMAIN);
    cfg.setPassword(PASSWORD);
    cfg.setHost("127.0.0.1");
    cfg.setPort(port);
    cfg.setAutoReconnectionEnabled(c.ar);
    cfg.setKeepAliveInterval(c.ka == 0 ? 0 : c.ka == 2 ? 1 : 3600);   // ka=1: an hour, fired by the op `tick`; ka=2: one real second
    cfg.setKeepAliveTimeout(0);
    cfg.setIgnoreSslErrors(true);
    cfg.setStreamSecurityMode(c.tls == 0 ? QXmppConfiguration::TLSDisabled : c.tls == 1 ? QXmppConfiguration::TLSEnabled : QXmppConfiguration::TLSRequired);
    cfg.setUseSasl2Authentication(c.sasl2);
    cfg.setUseSASLAuthentication(c.sasl);
    cfg.setUseNonSASLAuthentication(c.nonsasl);
    cfg.setNonSASLAuthMechanism(c.nsPlain ? QXmppConfiguration::NonSASLPlain : QXmppConfiguration::NonSASLDigest);
    if (c.plainOk) cfg.setDisabledSaslMechanisms({});
    if (c.token >= 1) cfg.setSasl2UserAgent(QXmppSasl2UserAgent(QUuid("11111111-2222-3333-4444-555555555555"), "verif", "harness"));
    if (c.token == 1) {
        QByteArray xml = "<credentials xmlns=\"org.qxmpp.credentials\"><ht-token mechanism=\"HT-SHA-256-NONE\" secret=\"" + TOKEN.toUtf8() +
            "\" expiry=\"2099-01-01T00:00:00Z\"/></credentials>";
        QXmlStreamReader r(xml);
        r.readNextStartElement();
        if (auto cr = QXmppCredentials::fromXml(r)) cfg.setCredentials(*cr);
        else { fprintf(stderr, "harness: cannot build credentials\n"); exit(3); }
        if (!cfg.credentialData().htToken) { fprintf(stderr, "harness: token not set\n"); exit(3); }
        cfg.setPassword(PASSWORD);   // setCredentials() replaced the whole credential set
    }
    return cfg;
}

// ------------------------------------------------------------------------------------------------ classification
struct Secrets {
    std::vector<std::pair<std::string, QByteArray>> needles;
    Secrets()
    {
        auto add = [&](const char *n, const QByteArray &b) { needles.push_back({ n, b }); };
        const QByteArray pw = PASSWORD.toUtf8(), tok = TOKEN.toUtf8(), user = USER.toUtf8();
        add("password", pw);
        add("password-b64", pw.toBase64());
        QByteArray plain = QByteArray(1, '\0') + user + QByteArray(1, '\0') + pw;
        add("sasl-plain", plain.toBase64());
        add("digest", QCryptographicHash::hash(STREAM_ID.toUtf8() + pw, QCryptographicHash::Sha1).toHex());
        add("digest-noid", QCryptographicHash::hash(pw, QCryptographicHash::Sha1).toHex());
        add("token", tok);
        QMessageAuthenticationCode hmac(QCryptographicHash::Sha256, tok);
        hmac.addData("Initiator");
        add("token-ht", (user + QByteArray(1, '\0') + hmac.result()).toBase64());
        // the token a scripted <success/> may hand out (FAST token rotation): the next SASL2 exchange uses it
        const QByteArray tok2 = QByteArrayLiteral("N3wTokenFromServer");
        add("token2", tok2);
        QMessageAuthenticationCode hmac2(QCryptographicHash::Sha256, tok2);
        hmac2.addData("Initiator");
        add("token2-ht", (user + QByteArray(1, '\0') + hmac2.result()).toBase64());
    }
    std::string find(const QByteArray &hay) const
    {
        for (auto &n : needles)
            if (hay.contains(n.second)) return n.first;
        // base64 at the two other alignments of the PLAIN message / password is not produced by the client (it encodes whole messages)
        return {};
    }
};
static const Secrets &secrets() { static Secrets s; return s; }

// kind of one client-to-server element, from its serialisation
static std::string classify(const QString &x)
{
    auto has = [&](const char *s) { return x.contains(QLatin1String(s)); };
    if (x.startsWith("<?xml") || x.startsWith("<stream:stream")) return "StreamOpen";
    if (x.startsWith("</stream:stream")) return "StreamClose";
    if (x.startsWith("<starttls")) return "StartTls";
    if (x.startsWith("<auth ") || x.startsWith("<auth>")) {
        if (has("mechanism=\"PLAIN\"")) return "SaslAuth:plain";
        if (has("mechanism=\"SCRAM")) return "SaslAuth:scram";
        if (has("mechanism=\"HT-")) return "SaslAuth:ht";
        return "SaslAuth:other";
    }
    if (x.startsWith("<authenticate")) {
        std::string m = has("mechanism=\"PLAIN\"") ? "plain" : has("mechanism=\"SCRAM") ? "scram" : has("mechanism=\"HT-") ? "ht" : "other";
        std::string s = "Sasl2Auth:" + m;
        if (has("urn:xmpp:bind:0")) s += "+bind2";
        if (has("<enable xmlns=\"urn:xmpp:sm:3\"")) s += "+sm";
        if (has("<resume xmlns=\"urn:xmpp:sm:3\"")) s += "+resume";
        if (has("<inactive xmlns=\"urn:xmpp:csi:0\"")) s += "+inactive";
        if (has("<request-token")) s += "+reqtoken";
        if (has("<fast xmlns")) s += "+fast";
        return s;
    }
    if (x.startsWith("<response")) return has("urn:xmpp:sasl:2") ? "Sasl2Response" : "SaslResponse";
    if (x.startsWith("<abort")) return "Sasl2Abort";
    if (x.startsWith("<enable ") && has("urn:xmpp:sm:3")) return "SmEnable";
    if (x.startsWith("<resume ") && has("urn:xmpp:sm:3")) return "SmResume";
    if (x.startsWith("<r ") && has("urn:xmpp:sm:3")) return "SmReq";
    if (x.startsWith("<a ") && has("urn:xmpp:sm:3")) return "SmAck";
    if (x.startsWith("<active") && has("urn:xmpp:csi:0")) return "CsiActive";
    if (x.startsWith("<inactive") && has("urn:xmpp:csi:0")) return "CsiInactive";
    if (x.startsWith("<iq")) {
        static const QRegularExpression typeRe("^<iq[^>]*\\stype=\"([a-z]+)\"");
        QString type = typeRe.match(x).captured(1);
        if (has("jabber:iq:auth")) {
            if (type == "get") return "NonSaslQuery";
            if (has("<password>")) return "NonSaslAuth:plain";
            if (has("<digest>")) return "NonSaslAuth:digest";
            return "NonSaslAuth:none";
        }
        if (has("urn:ietf:params:xml:ns:xmpp-bind")) return "Bind";
        if (type == "error") return "IqReply:error";
        if (type == "result") return "IqReply:result";
        if (has("jabber:iq:register")) return type == "get" ? "Register:get" : "Register:set";
        if (has("jabber:iq:roster")) return "IqRequest:roster";
        if (has("urn:xmpp:ping")) return "IqRequest:ping";
        return "IqRequest:other";
    }
    if (x.startsWith("<presence")) return "Presence";
    if (x.startsWith("<message")) return "Message";
    return "Other";
}

// ------------------------------------------------------------------------------------------------ TLS material
static QSslCertificate g_cert;
static QSslKey g_key;
static bool g_tlsOk = false;

static void setupTls()
{
    if (!QSslSocket::supportsSsl()) return;
    const QString dir = QStringLiteral("/verif/.build/harness/");
    const QString kp = dir + "negotiation-key.pem", cp = dir + "negotiation-cert.pem";
    auto load = [&]() {
        QFile kf(kp), cf(cp);
        if (!kf.open(QIODevice::ReadOnly) || !cf.open(QIODevice::ReadOnly)) return false;
        g_key = QSslKey(kf.readAll(), QSsl::Rsa, QSsl::Pem, QSsl::PrivateKey);
        auto certs = QSslCertificate::fromData(cf.readAll(), QSsl::Pem);
        if (g_key.isNull() || certs.isEmpty()) return false;
        g_cert = certs.first();
        return true;
    };
    if (!load()) {
        const QString tag = QString::number(QCoreApplication::applicationPid());
        QProcess p;
        p.start("openssl", { "req", "-x509", "-newkey", "rsa:2048", "-nodes", "-subj", "/CN=localhost", "-days", "3", "-keyout", kp + tag, "-out", cp + tag });
        p.waitForFinished(60000);
        QFile::remove(kp); QFile::remove(cp);
        QFile::rename(kp + tag, kp);
        QFile::rename(cp + tag, cp);
        if (!load()) { fprintf(stderr, "harness: openssl could not produce a key/certificate: %s\n", p.readAllStandardError().constData()); return; }
    }
    // certificates are valid for 3 days: regenerate when expired
    if (g_cert.expiryDate() < QDateTime::currentDateTimeUtc().addSecs(3600)) {
        QFile::remove(kp); QFile::remove(cp);
        static bool again = false;
        if (!again) { again = true; setupTls(); }
        return;
    }
    g_tlsOk = true;
}

// ------------------------------------------------------------------------------------------------ scripted server
struct Conn {
    QSslSocket *sock = nullptr;
    QByteArray plain;       // bytes read while the server side was NOT encrypted = what crossed the wire in clear
    QByteArray secure;      // bytes read through TLS
    bool tlsStarted = false, tlsDone = false, tlsFailed = false, garbageOnHello = false, awaitHello = false, closed = false;
    bool tlsShutDown = false;   // the server sent close_notify and kept the TCP connection: `sock` is now a raw view of the same connection
    QByteArray rawTail;         // unparsed rest of the raw byte stream after close_notify (TLS records are skipped, the rest is plain)
    long long cipherAfterShutdown = 0;
    int id = 0;
    // what the script delivered on this connection (for the oracles; independent of the model)
    int delivered = 0;
    bool firstIsHeader = false, sawVersionlessHeader = false, sawIqRequest = false, sawCsiFeature = false, csiSent = false, sawForeignIq = false, sawSmR = false, sawPartial = false;
    QByteArray scramServerFirst;   // last SCRAM server-first message sent on this connection
};

class Server : public QTcpServer
{
public:
    std::vector<std::shared_ptr<Conn>> conns;
    std::function<void()> activity;
    std::shared_ptr<Conn> cur() { return conns.empty() ? nullptr : conns.back(); }

protected:
    void incomingConnection(qintptr fd) override
    {
        auto c = std::make_shared<Conn>();
        c->id = int(conns.size());
        c->sock = new QSslSocket(this);
        c->sock->setSocketDescriptor(fd);
        c->sock->setSocketOption(QAbstractSocket::LowDelayOption, 1);
        if (g_tlsOk) {
            c->sock->setLocalCertificate(g_cert);
            c->sock->setPrivateKey(g_key);
            c->sock->setPeerVerifyMode(QSslSocket::VerifyNone);
        }
        conns.push_back(c);
        Conn *cp = c.get();
        QObject::connect(c->sock, &QSslSocket::readyRead, this, [this, cp]() {
            if (cp->awaitHello) {
                // after <proceed/>: a TLS ClientHello starts the server side handshake; anything else is plaintext and stays visible
                char first = 0;
                if (cp->sock->peek(&first, 1) == 1 && uchar(first) == 0x16) {
                    cp->awaitHello = false;
                    cp->tlsStarted = true;
                    cp->sock->startServerEncryption();
                    if (activity) activity();
                    return;
                }
                cp->awaitHello = false;
            }
            QByteArray d = cp->sock->readAll();
            if (cp->sock->isEncrypted()) cp->secure += d;
            else {
                cp->plain += d;
                if (cp->garbageOnHello && !d.isEmpty()) {
                    cp->garbageOnHello = false;
                    cp->sock->write(QByteArray(96, 'X'));
                    cp->sock->flush();
                }
            }
            if (activity) activity();
        });
        QObject::connect(c->sock, &QSslSocket::encrypted, this, [this, cp]() { cp->tlsDone = true; if (activity) activity(); });
        QObject::connect(c->sock, &QSslSocket::disconnected, this, [this, cp]() { cp->closed = true; if (activity) activity(); });
        QObject::connect(c->sock, QOverload<const QList<QSslError> &>::of(&QSslSocket::sslErrors), this, [cp](const QList<QSslError> &) { cp->sock->ignoreSslErrors(); });
        QObject::connect(c->sock, &QSslSocket::errorOccurred, this, [this, cp](QAbstractSocket::SocketError) {
            if (cp->tlsStarted && !cp->tlsDone) cp->tlsFailed = true;
            if (activity) activity();
        });
        if (activity) activity();
    }
};

// ------------------------------------------------------------------------------------------------ one experiment
struct SentRec { std::string kind; bool enc, conn; std::string secret; QString xml; };

struct World {
    Cfg cfg;
    std::unique_ptr<TestClient> client;
    Server srvA, srvB, srvC;  // B is the see-other-host target, C the `location` of <enabled/> (XEP-0198 resume address)
    long long act = 0;
    std::vector<std::string> events;        // since the last op
    std::vector<SentRec> sent;              // whole experiment
    int connectedSignals = 0, disconnectedSignals = 0, errorSignals = 0;
    int connectedThisConn = 0;
    std::vector<int> sessionBind2Used;      // SessionBegin.bind2Used of every connected()
    std::vector<int> sessionSmResumed;      // SessionBegin.smResumed of every connected()
    int iqStarted = 0, iqFinished = 0, iqFinishedErr = 0;
    QStringList outstandingIds;        // the application's own requests still waiting for an answer
    long long settleTimeouts = 0;
    bool verbose = false;
    bool encryptionDropped = false;    // observed (model independent): a connected, encrypted client socket became unencrypted without reconnecting
    bool enabledLoc = false;           // script view: the last <enabled/> the server sent named a resume location

    World()
    {
        for (Server *s : { &srvA, &srvB, &srvC }) {
            s->activity = [this]() { act++; };
            if (!s->listen(QHostAddress::LocalHost, 0)) { fprintf(stderr, "harness: cannot listen\n"); exit(3); }
        }
    }

    Server *activeServer() const { return lastServer; }
    Server *lastServer = nullptr;
    std::shared_ptr<Conn> conn()
    {
        // the most recently accepted connection on either listener
        std::shared_ptr<Conn> best;
        for (Server *s : { &srvA, &srvB, &srvC }) {
            auto k = s->cur();
            if (k && (!best || seqOf[k.get()] > seqOf[best.get()])) best = k;
        }
        return best;
    }
    std::map<Conn *, int> seqOf;
    int connSeq = 0;
    void noteConns()
    {
        for (Server *s : { &srvA, &srvB, &srvC })
            for (auto &c : s->conns)
                if (!seqOf.count(c.get())) seqOf[c.get()] = ++connSeq;
    }

    void newClient(const Cfg &c)
    {
        cfg = c;
        enabledLoc = false;
        encryptionDropped = false;
        client.reset();
        // drop old server connections
        for (Server *s : { &srvA, &srvB, &srvC }) {
            for (auto &k : s->conns) { k->sock->disconnect(); k->sock->abort(); k->sock->deleteLater(); }
            s->conns.clear();
        }
        seqOf.clear();
        QCoreApplication::sendPostedEvents(nullptr, QEvent::DeferredDelete);
        TestClient::resetIds();
        client = std::make_unique<TestClient>();
        if (c.reg) {
            // a second consumer of stream features: with registerOnConnect the extension takes <stream:features/> through elementReceived()
            auto *rm = new QXmppRegistrationManager;
            client->addExtension(rm);
            rm->setRegisterOnConnectEnabled(true);
            if (c.reg == 2) {
                QXmppRegisterIq form;
                form.setUsername(USER);
                form.setPassword(PASSWORD);
                rm->setRegistrationFormToSend(form);
            }
        }
        client->logger()->setLoggingType(QXmppLogger::SignalLogging);
        client->logger()->disconnect();
        QObject::connect(client->logger(), &QXmppLogger::message, client.get(), [this](QXmppLogger::MessageType t, const QString &text) {
            act++;
            if (verbose) fprintf(stderr, "  log[%d] %s\n", int(t), text.left(300).toUtf8().constData());
            if (t != QXmppLogger::SentMessage) return;
            auto *sock = client->strm()->socket();
            SentRec r;
            r.kind = classify(text);
            r.enc = sock->isEncrypted();
            r.conn = sock->state() == QAbstractSocket::ConnectedState;
            r.secret = secrets().find(text.toUtf8());
            r.xml = text;
            sent.push_back(r);
            events.push_back(r.kind + (r.conn ? (r.enc ? "/e" : "/c") : "/x") + (r.secret.empty() ? "" : "!"));
            if (r.kind.rfind("Csi", 0) == 0) { noteConns(); if (auto k = conn()) k->csiSent = true; }
        });
        QObject::connect(client.get(), &QXmppClient::connected, client.get(), [this]() { act++; connectedSignals++; connectedThisConn++; events.push_back("connected"); });
        QObject::connect(client.get(), &QXmppClient::disconnected, client.get(), [this]() { act++; disconnectedSignals++; events.push_back("disconnected"); });
        QObject::connect(client.get(), &QXmppClient::errorOccurred, client.get(), [this](const QXmppError &) { act++; errorSignals++; events.push_back("error"); });
        QObject::connect(client->strm(), &QXmppOutgoingClient::connected, client.get(), [this](const QXmpp::Private::SessionBegin &s) {
            sessionBind2Used.push_back(s.bind2Used ? 1 : 0);
            sessionSmResumed.push_back(s.smResumed ? 1 : 0);
        });
        QObject::connect(client->strm()->socket(), &QAbstractSocket::connected, client.get(), [this]() {
            act++; connectedThisConn = 0;
            client->strm()->socket()->setSocketOption(QAbstractSocket::LowDelayOption, 1);   // timing only: no Nagle delays on loopback
        });
        if (cfg.inactive) client->setActive(false);
        sent.clear(); events.clear();
        connectedSignals = disconnectedSignals = errorSignals = connectedThisConn = 0;
        sessionBind2Used.clear();
        sessionSmResumed.clear();
        iqStarted = iqFinished = iqFinishedErr = 0;
        outstandingIds.clear();
    }

    // Socket states in transition (looking up, connecting, closing) are "in flight"; they always resolve on loopback, the
    // deadline in settle() is only a safety net.
    bool transitional = false;
    bool pending(QSslSocket *s)
    {
        if (!s || s->state() == QAbstractSocket::UnconnectedState) return false;
        if (s->state() != QAbstractSocket::ConnectedState) { transitional = true; return false; }
        if (s->bytesToWrite() > 0 || s->encryptedBytesToWrite() > 0) return true;
        int fd = int(s->socketDescriptor());
        if (fd < 0) return false;
        int n = 0;
        if (ioctl(fd, FIONREAD, &n) == 0 && n > 0) return true;
        n = 0;
        if (ioctl(fd, SIOCOUTQNSD, &n) == 0 && n > 0) return true;   // not yet sent (acknowledgement delays do not matter)
        return false;
    }
    // bytes one end has put on the wire that the other end's kernel has not yet received (under heavy load loopback
    // delivery can be deferred): compared through the kernel's own per-socket counters
    static bool inFlight(QSslSocket *from, QSslSocket *to)
    {
        if (!from || !to || from->state() != QAbstractSocket::ConnectedState || to->state() != QAbstractSocket::ConnectedState) return false;
        if (from->localPort() != to->peerPort() || from->peerPort() != to->localPort()) return false;
        struct tcp_info a, b;
        socklen_t la = sizeof a, lb = sizeof b;
        memset(&a, 0, sizeof a); memset(&b, 0, sizeof b);
        if (getsockopt(int(from->socketDescriptor()), IPPROTO_TCP, TCP_INFO, &a, &la) != 0) return false;
        if (getsockopt(int(to->socketDescriptor()), IPPROTO_TCP, TCP_INFO, &b, &lb) != 0) return false;
        if (la < offsetof(struct tcp_info, tcpi_bytes_sent) + sizeof a.tcpi_bytes_sent) return false;   // old kernel: no counter
        return (a.tcpi_bytes_sent - a.tcpi_bytes_retrans) > b.tcpi_bytes_received;
    }

    // pump the event loop until nothing is in flight in either direction
    void settle()
    {
        QElapsedTimer t, quietSince; t.start(); quietSince.start();
        int idle = 0, iters = 0;
        auto *disp = QCoreApplication::eventDispatcher();
        while (idle < 3) {
            long long before = act;
            bool any = disp->processEvents(QEventLoop::AllEvents);
            QCoreApplication::sendPostedEvents(nullptr, QEvent::DeferredDelete);
            noteConns();
            transitional = false;
            auto *cs = client->strm()->socket();
            bool pend = pending(cs);
            for (Server *s : { &srvA, &srvB, &srvC })
                for (auto &c : s->conns)
                    if (!c->closed) {
                        if (pending(c->sock)) pend = true;
                        if (inFlight(cs, c->sock) || inFlight(c->sock, cs)) pend = true;
                    }
            // a TLS handshake in progress is "in flight" as well
            auto c = conn();
            {
                bool clientHandshaking = cs->state() == QAbstractSocket::ConnectedState && cs->mode() == QSslSocket::SslClientMode && !cs->isEncrypted();
                if (c && !c->closed && clientHandshaking && (c->garbageOnHello || c->awaitHello || (c->tlsStarted && !c->tlsDone && !c->tlsFailed))) pend = true;
                if (c && !c->closed && c->tlsDone && clientHandshaking) pend = true;
            }
            if (any || act != before) quietSince.restart();
            if (transitional && quietSince.elapsed() < 10000) pend = true;
            if (any || act != before || pend) idle = 0; else idle++;
            if (!any && act == before) QThread::usleep(pend ? 200 : 20);
            // generous deadline (the machine may be heavily loaded); a miss makes the whole experiment run again once
            if (t.elapsed() > 20000) { settleTimeouts++; fprintf(stderr, "harness: settle deadline missed (any=%d pend=%d)\n", any, pend); break; }
            iters++;
        }
        if (verbose) fprintf(stderr, "  settle: %d iterations, %lld us\n", iters, (long long)(t.nsecsElapsed() / 1000));
    }

    QByteArray *capture = nullptr;   // while set, srvSend() collects instead of writing (several elements in ONE segment)
    void srvSend(const QByteArray &xml)
    {
        if (capture) { *capture += xml; return; }
        auto c = conn();
        if (!c || c->closed || c->sock->state() != QAbstractSocket::ConnectedState) return;
        c->sock->write(xml);
        c->sock->flush();
    }

    // last stanza id the client used in an <iq/> on the current connection (the server echoes ids it has seen)
    QString lastIqId()
    {
        auto c = conn();
        if (!c) return "none";
        QString all = QString::fromUtf8(c->plain + c->secure);
        static const QRegularExpression re("<iq[^>]*\\sid=\"([^\"]*)\"");
        auto it = re.globalMatch(all);
        QString id = "none";
        while (it.hasNext()) id = it.next().captured(1);
        return id;
    }
    QString lastIqIdMatching(const char *needle)
    {
        auto c = conn();
        if (!c) return "none";
        QString all = QString::fromUtf8(c->plain + c->secure);
        static const QRegularExpression re("<iq[^>]*\\sid=\"([^\"]*)\"[^>]*>(.*?)</iq>");
        auto it = re.globalMatch(all);
        QString id = "none";
        while (it.hasNext()) { auto m = it.next(); if (m.captured(2).contains(QLatin1String(needle))) id = m.captured(1); }
        return id;
    }

    // SCRAM-SHA-1 server-final message ("v=<signature>", base64) for the exchange that ran on the current connection, or
    // empty when no client-final message has been received (RFC 5802: ServerSignature = HMAC(ServerKey, AuthMessage))
    QByteArray scramServerFinal()
    {
        auto k = conn();
        if (!k || k->scramServerFirst.isEmpty()) return {};
        const QString all = QString::fromUtf8(k->plain + k->secure);
        static const QRegularExpression reFirst("(?:<auth [^>]*>|<initial-response>)([^<]*)<"), reFinal("<response[^>]*>([^<]*)</response>");
        QString first, fin;
        for (auto it = reFirst.globalMatch(all); it.hasNext();) first = it.next().captured(1);
        for (auto it = reFinal.globalMatch(all); it.hasNext();) fin = it.next().captured(1);
        if (first.isEmpty() || fin.isEmpty()) return {};
        QByteArray clientFirst = QByteArray::fromBase64(first.toLatin1()), clientFinal = QByteArray::fromBase64(fin.toLatin1());
        if (!clientFirst.startsWith("n,,")) return {};
        int p = clientFinal.indexOf(",p=");
        if (p < 0) return {};
        const QByteArray authMessage = clientFirst.mid(3) + "," + k->scramServerFirst + "," + clientFinal.left(p);
        const QByteArray salted = QPasswordDigestor::deriveKeyPbkdf2(QCryptographicHash::Sha1, PASSWORD.toUtf8(), QByteArray::fromBase64("c2FsdHNhbHQ="), 1, 20);
        const QByteArray serverKey = QMessageAuthenticationCode::hash(QByteArrayLiteral("Server Key"), salted, QCryptographicHash::Sha1);
        const QByteArray sig = QMessageAuthenticationCode::hash(authMessage, serverKey, QCryptographicHash::Sha1);
        return ("v=" + sig.toBase64()).toBase64();
    }

    // which listener received the current / last connection: a configured host, b see-other-host address, c resume location
    char targetLetter()
    {
        auto k = conn();
        if (!k) return 'a';
        for (auto &x : srvB.conns) if (x == k) return 'b';
        for (auto &x : srvC.conns) if (x == k) return 'c';
        return 'a';
    }

    std::string stateStr()
    {
        auto st = client->state();
        std::string s = st == QXmppClient::ConnectedState ? "connected" : st == QXmppClient::ConnectingState ? "connecting" : "disconnected";
        char b[96];
        snprintf(b, sizeof b, "st=%s ic=%d au=%d enc=%d tg=%c", s.c_str(), client->isConnected() ? 1 : 0, client->isAuthenticated() ? 1 : 0,
                 (client->strm()->socket()->isEncrypted() && client->strm()->socket()->state() == QAbstractSocket::ConnectedState) ? 1 : 0, targetLetter());
        return b;
    }

    std::string takeObs()
    {
        std::string e;
        for (auto &x : events) { if (!e.empty()) e += ","; e += x; }
        events.clear();
        if (e.empty()) e = "-";
        return e + "|" + stateStr();
    }
};

// ------------------------------------------------------------------------------------------------ ops
// An op is a whitespace separated token list; the same text goes to the Lean driver.
static QByteArray featuresXml(const QStringList &t)
{
    // feat t<0|1|2> m<n|p|s|u> a<0|1> b<0|1> s<0|1> c<0|1> z<n|p|s|u><bind2:0|1|2><fast:0|1><smresume:0|1>
    QByteArray x = "<stream:features>";
    auto mech = [](QChar c) -> QByteArray { return c == 'p' ? "PLAIN" : c == 's' ? "SCRAM-SHA-1" : "X-UNSUPPORTED"; };
    for (const QString &tok : t.mid(1)) {
        QChar k = tok.at(0);
        QString v = tok.mid(1);
        if (k == 't' && v != "0") x += v == "2" ? "<starttls xmlns='urn:ietf:params:xml:ns:xmpp-tls'><required/></starttls>" : "<starttls xmlns='urn:ietf:params:xml:ns:xmpp-tls'/>";
        if (k == 'm' && v != "n") x += "<mechanisms xmlns='urn:ietf:params:xml:ns:xmpp-sasl'><mechanism>" + mech(v.at(0)) + "</mechanism></mechanisms>";
        if (k == 'a' && v == "1") x += "<auth xmlns='http://jabber.org/features/iq-auth'/>";
        if (k == 'b' && v == "1") x += "<bind xmlns='urn:ietf:params:xml:ns:xmpp-bind'/>";
        if (k == 's' && v == "1") x += "<sm xmlns='urn:xmpp:sm:3'/>";
        if (k == 'c' && v == "1") x += "<csi xmlns='urn:xmpp:csi:0'/>";
        if (k == 'g' && v == "1") x += "<register xmlns='http://jabber.org/features/iq-register'/>";
        if (k == 'z' && v.at(0) != 'n') {
            x += "<authentication xmlns='urn:xmpp:sasl:2'><mechanism>" + mech(v.at(0)) + "</mechanism>";
            bool b2 = v.at(1) != '0', fast = v.at(2) == '1', smr = v.at(3) == '1';
            if (b2 || fast || smr) {
                x += "<inline>";
                if (b2) {
                    x += "<bind xmlns='urn:xmpp:bind:0'>";
                    if (v.at(1) == '2') x += "<inline><feature var='urn:xmpp:sm:3'/><feature var='urn:xmpp:csi:0'/></inline>";
                    x += "</bind>";
                }
                if (fast) x += "<fast xmlns='urn:xmpp:fast:0'><mechanism>HT-SHA-256-NONE</mechanism></fast>";
                if (smr) x += "<sm xmlns='urn:xmpp:sm:3'/>";
                x += "</inline>";
            }
            x += "</authentication>";
        }
    }
    return x + "</stream:features>";
}

struct Runner {
    World w;
    bool print = true;       // emit C lines
    std::vector<std::string> opsDone;

    // returns the observation
    std::string apply(const std::string &opStr)
    {
        auto *cs0 = w.client->strm()->socket();
        const bool wasEnc = cs0->state() == QAbstractSocket::ConnectedState && cs0->isEncrypted();
        const quint16 port0 = cs0->localPort();
        perform(opStr);
        long long st = w.settleTimeouts;
        w.settle();
        if (wasEnc && cs0->state() == QAbstractSocket::ConnectedState && cs0->localPort() == port0 && !cs0->isEncrypted()) w.encryptionDropped = true;
        if (w.settleTimeouts != st) fprintf(stderr, "harness: ... during op '%s'\n", opStr.c_str());
        return w.takeObs();
    }

    static void sendRequest(World &c, bool retry)
    {
        QXmppIq iq(QXmppIq::Get);
        iq.setTo(DOMAIN);
        QXmppElement el; el.setTagName("query"); el.setAttribute("xmlns", "urn:example:pending");
        iq.setExtensions({ el });
        c.iqStarted++;
        const QString rid = QStringLiteral("user-%1").arg(c.iqStarted);
        iq.setId(rid);
        c.outstandingIds.push_back(rid);
        World *wp = &c;
        c.client->strm()->sendIq(std::move(iq)).then(c.client.get(), [wp, rid, retry](QXmppOutgoingClient::IqResult &&r) {
            World &c = *wp;
            c.iqFinished++;
            c.outstandingIds.removeAll(rid);
            if (std::holds_alternative<QXmppError>(r)) {
                c.iqFinishedErr++;
                c.events.push_back("iqdone:error");
                if (retry) sendRequest(c, false);
            } else c.events.push_back("iqdone:result");
        });
    }

    void perform(const std::string &opStr)
    {
        const QStringList t = QString::fromStdString(opStr).split(' ', Qt::SkipEmptyParts);
        const QString op = t.value(0);
        auto &c = w;
        if (auto k = c.conn(); k && !k->closed && op != "connect" && op != "drop" && op != "sendiq" && op != "sendiq-retry") {
            if (k->delivered == 0) k->firstIsHeader = (op == "hdr") || (op == "seg" && t.value(1) == "hdr");
            k->delivered++;
            if (op == "hdr" && t.value(1) == "0") k->sawVersionlessHeader = true;
            if (op == "iqget" || op == "iqset") k->sawIqRequest = true;
            if (op == "xel" && t.value(2).startsWith("iqget")) k->sawForeignIq = true;
            if (op == "smr") k->sawSmR = true;
            if (op == "partial" || (op == "seg" && opStr.find("partial") != std::string::npos)) k->sawPartial = true;   // the rest of this connection is not well-formed XML
            if (op == "seg") {
                const QString rest = QString::fromStdString(opStr);
                if (rest.contains(" iqget ") || rest.contains(" iqset")) k->sawIqRequest = true;
                if (rest.contains("xel") && rest.contains("iqget")) k->sawForeignIq = true;
                if (rest.contains(" hdr 0")) k->sawVersionlessHeader = true;
                if (rest.contains(" c1")) k->sawCsiFeature = true;
            }
            if (op == "feat" && t.contains("c1")) k->sawCsiFeature = true;
        }
        if (op == "connect") {
            c.client->connectToServer(makeConfig(c.cfg, c.srvA.serverPort()));
        } else if (op == "hdr") {
            QByteArray x = "<?xml version='1.0'?><stream:stream xmlns='jabber:client' xmlns:stream='http://etherx.jabber.org/streams' from='" + DOMAIN.toUtf8() + "'";
            if (t.value(1) == "1") x += " version='1.0'";
            if (t.value(2) == "1") x += " id='" + STREAM_ID.toUtf8() + "'";
            c.srvSend(x + ">");
        } else if (op == "feat") {
            c.srvSend(featuresXml(t));
        } else if (op == "proceed") {
            auto k = c.conn();
            c.srvSend("<proceed xmlns='urn:ietf:params:xml:ns:xmpp-tls'/>");
            if (k && !k->closed && !k->tlsStarted) {
                if (t.value(1) == "1" && g_tlsOk) k->awaitHello = true;
                else k->garbageOnHello = true;
            }
        } else if (op == "tlsfailure") {
            c.srvSend("<failure xmlns='urn:ietf:params:xml:ns:xmpp-tls'/>");
        } else if (op == "success") {
            // success <proof>: 1 = with the SCRAM server signature as success data whenever a SCRAM exchange got that far
            QByteArray v = t.value(1) == "1" ? c.scramServerFinal() : QByteArray();
            c.srvSend("<success xmlns='urn:ietf:params:xml:ns:xmpp-sasl'>" + v + "</success>");
        } else if (op == "failure") {
            c.srvSend("<failure xmlns='urn:ietf:params:xml:ns:xmpp-sasl'><not-authorized/></failure>");
        } else if (op == "challenge" || op == "challenge2") {
            // ok=1: a challenge the running mechanism can answer (SCRAM server-first built from the client nonce)
            QByteArray data = "cj1iYWQ=";
            if (t.value(1) == "1") {
                auto k = c.conn();
                static const QRegularExpression re1("<auth [^>]*>([^<]*)</auth>"), re2("<initial-response>([^<]*)</initial-response>");
                // the most recent authentication request on this connection; if there is none, the most recent one of an earlier
                // connection (a server that continues an exchange the client should have forgotten)
                QString b64;
                std::vector<std::shared_ptr<Conn>> order;
                if (k) order.push_back(k);
                {
                    std::vector<std::pair<int, std::shared_ptr<Conn>>> older;
                    for (Server *sv : { &c.srvA, &c.srvB, &c.srvC })
                        for (auto &x : sv->conns)
                            if (x != k) older.push_back({ c.seqOf[x.get()], x });
                    std::sort(older.begin(), older.end(), [](auto &a, auto &b) { return a.first > b.first; });
                    for (auto &x : older) order.push_back(x.second);
                }
                for (auto &x : order) {
                    QString all = QString::fromUtf8(x->plain + x->secure);
                    int at = -1;
                    for (auto it = re1.globalMatch(all); it.hasNext();) { auto m = it.next(); b64 = m.captured(1); at = m.capturedStart(); }
                    for (auto it = re2.globalMatch(all); it.hasNext();) { auto m = it.next(); if (m.capturedStart() > at) { b64 = m.captured(1); at = m.capturedStart(); } }
                    if (!b64.isEmpty()) break;
                }
                QByteArray first = QByteArray::fromBase64(b64.toLatin1());
                int i = first.indexOf("r=");
                QByteArray nonce = i >= 0 ? first.mid(i + 2) : QByteArray("x");
                QByteArray serverFirst = "r=" + nonce + "srvnonce,s=c2FsdHNhbHQ=,i=1";
                if (k) k->scramServerFirst = serverFirst;
                data = serverFirst.toBase64();
            }
            if (op == "challenge") c.srvSend("<challenge xmlns='urn:ietf:params:xml:ns:xmpp-sasl'>" + data + "</challenge>");
            else c.srvSend("<challenge xmlns='urn:xmpp:sasl:2'>" + data + "</challenge>");
        } else if (op == "success2") {
            // success2 <bound:0|1|2(sm enabled, resume)|3(sm failed)> <resumed:0|1|2(failed)> <token:0|1> <proof:0|1>
            QByteArray x = "<success xmlns='urn:xmpp:sasl:2'>";
            if (QByteArray v = t.value(4) == "1" ? c.scramServerFinal() : QByteArray(); !v.isEmpty()) x += "<additional-data>" + v + "</additional-data>";
            x += "<authorization-identifier>" + (USER + "@" + DOMAIN + "/bound").toUtf8() + "</authorization-identifier>";
            QString b = t.value(1), r = t.value(2), k = t.value(3);
            if (b == "1") x += "<bound xmlns='urn:xmpp:bind:0'/>";
            if (b == "2") x += "<bound xmlns='urn:xmpp:bind:0'><enabled xmlns='urn:xmpp:sm:3' id='smid1' resume='true'/></bound>";
            if (b == "3") x += "<bound xmlns='urn:xmpp:bind:0'><failed xmlns='urn:xmpp:sm:3'/></bound>";
            if (r == "1") x += "<resumed xmlns='urn:xmpp:sm:3' h='0' previd='smid1'/>";
            if (r == "2") x += "<failed xmlns='urn:xmpp:sm:3'/>";
            if (k == "1") x += "<token xmlns='urn:xmpp:fast:0' expiry='2099-01-01T00:00:00Z' token='N3wTokenFromServer'/>";
            c.srvSend(x + "</success>");
        } else if (op == "failure2") {
            c.srvSend("<failure xmlns='urn:xmpp:sasl:2'><not-authorized xmlns='urn:ietf:params:xml:ns:xmpp-sasl'/></failure>");
        } else if (op == "continue2") {
            c.srvSend("<continue xmlns='urn:xmpp:sasl:2'><tasks><task>HOTP-EXAMPLE</task></tasks></continue>");
        } else if (op == "fields") {
            // XEP-0078 field offer: fields <plain> <digest>
            QByteArray x = "<iq type='result' id='" + c.lastIqIdMatching("jabber:iq:auth").toUtf8() + "'><query xmlns='jabber:iq:auth'><username/>";
            if (t.value(1) == "1") x += "<password/>";
            if (t.value(2) == "1") x += "<digest/>";
            c.srvSend(x + "<resource/></query></iq>");
        } else if (op == "authres") {
            // authres <ok:0|1>: answer to the XEP-0078 set, with the id of the last <iq/> the client sent
            QByteArray id = c.lastIqIdMatching("jabber:iq:auth").toUtf8();
            if (t.value(1) == "1") c.srvSend("<iq type='result' id='" + id + "'/>");
            else c.srvSend("<iq type='error' id='" + id + "'><error type='auth'><not-authorized xmlns='urn:ietf:params:xml:ns:xmpp-stanzas'/></error></iq>");
        } else if (op == "bindres") {
            // bindres ok | nojid | err | wrongid
            QByteArray id = c.lastIqIdMatching("xmpp-bind").toUtf8();
            QString k = t.value(1);
            if (k == "ok") c.srvSend("<iq type='result' id='" + id + "'><bind xmlns='urn:ietf:params:xml:ns:xmpp-bind'><jid>" + (USER + "@" + DOMAIN + "/res1").toUtf8() + "</jid></bind></iq>");
            else if (k == "nojid") c.srvSend("<iq type='result' id='" + id + "'><bind xmlns='urn:ietf:params:xml:ns:xmpp-bind'/></iq>");
            else if (k == "err") c.srvSend("<iq type='error' id='" + id + "'><bind xmlns='urn:ietf:params:xml:ns:xmpp-bind'/><error type='cancel'><conflict xmlns='urn:ietf:params:xml:ns:xmpp-stanzas'/></error></iq>");
            else c.srvSend("<iq type='result' id='wrong-id'><bind xmlns='urn:ietf:params:xml:ns:xmpp-bind'><jid>a@b/c</jid></bind></iq>");
        } else if (op == "smenabledat") {
            c.enabledLoc = true;
            c.srvSend("<enabled xmlns='urn:xmpp:sm:3' id='smid1' resume='true' location='127.0.0.1:" + QByteArray::number(c.srvC.serverPort()) + "'/>");
        } else if (op == "smenabled") {
            c.enabledLoc = false;
            c.srvSend(t.value(1) == "1" ? "<enabled xmlns='urn:xmpp:sm:3' id='smid1' resume='true'/>" : "<enabled xmlns='urn:xmpp:sm:3' id='smid1'/>");
        } else if (op == "smfailed") {
            c.srvSend("<failed xmlns='urn:xmpp:sm:3'><item-not-found xmlns='urn:ietf:params:xml:ns:xmpp-stanzas'/></failed>");
        } else if (op == "smresumed") {
            c.srvSend("<resumed xmlns='urn:xmpp:sm:3' h='0' previd='smid1'/>");
        } else if (op == "iqget") {
            // iqget version | disco | unknown
            QString k = t.value(1);
            QByteArray from = " from='" + DOMAIN.toUtf8() + "'";
            if (k == "version") c.srvSend("<iq type='get' id='srv1'" + from + "><query xmlns='jabber:iq:version'/></iq>");
            else if (k == "disco") c.srvSend("<iq type='get' id='srv2'" + from + "><query xmlns='http://jabber.org/protocol/disco#info'/></iq>");
            else c.srvSend("<iq type='get' id='srv3'" + from + "><query xmlns='urn:example:unknown'/></iq>");
        } else if (op == "xel") {
            // xel <f|e|s> <iqget-version|iqget-unknown|iqset|iqresult-pending|message|presence>: a stanza-SHAPED element that is NOT in
            // jabber:client (f: foreign namespace urn:foo, e: empty namespace, s: jabber:server)
            const QByteArray ns = t.value(1) == "f" ? "urn:foo" : t.value(1) == "s" ? "jabber:server" : "";
            const QString k = t.value(2);
            const QByteArray from = " from='" + DOMAIN.toUtf8() + "'";
            if (k == "iqget-version") c.srvSend("<iq xmlns='" + ns + "' type='get' id='xv1'" + from + "><query xmlns='jabber:iq:version'/></iq>");
            else if (k == "iqget-unknown") c.srvSend("<iq xmlns='" + ns + "' type='get' id='xv2'" + from + "><query xmlns='urn:example:unknown'/></iq>");
            else if (k == "iqset") c.srvSend("<iq xmlns='" + ns + "' type='set' id='xv3'" + from + "><query xmlns='urn:example:unknown'/></iq>");
            else if (k == "iqresult-pending") {
                QByteArray id = c.outstandingIds.isEmpty() ? QByteArray("none") : c.outstandingIds.last().toUtf8();
                c.srvSend("<iq xmlns='" + ns + "' type='result' id='" + id + "'/>");
            } else if (k == "message") c.srvSend("<message xmlns='" + ns + "' from='bob@" + DOMAIN.toUtf8() + "/x' type='chat'><body xmlns='" + ns + "'>hi</body></message>");
            else c.srvSend("<presence xmlns='" + ns + "' from='bob@" + DOMAIN.toUtf8() + "/x'/>");
        } else if (op == "seg") {
            // seg <op> + <op> + ...: the elements of several ops written to the socket in ONE segment
            QByteArray buf;
            c.capture = &buf;
            for (const QString &sub : QString::fromStdString(opStr).mid(4).split(" + ", Qt::SkipEmptyParts)) perform(sub.trimmed().toStdString());
            c.capture = nullptr;
            c.srvSend(buf);
        } else if (op == "partial") {
            c.srvSend("<iq type='get' id='half");   // the beginning of an element; the rest never comes
        } else if (op == "errclose") {
            c.srvSend("<stream:error><policy-violation xmlns='urn:ietf:params:xml:ns:xmpp-streams'/></stream:error></stream:stream>");
        } else if (op == "redirectclose") {
            c.srvSend("<stream:error><see-other-host xmlns='urn:ietf:params:xml:ns:xmpp-streams'>127.0.0.1:" + QByteArray::number(c.srvB.serverPort()) + "</see-other-host></stream:error></stream:stream>");
        } else if (op == "rst") {
            // abrupt loss: TCP reset instead of an orderly close
            auto k = c.conn();
            if (k && !k->closed) {
                struct linger lg { 1, 0 };
                setsockopt(int(k->sock->socketDescriptor()), SOL_SOCKET, SO_LINGER, &lg, sizeof lg);
                k->sock->abort();
                k->closed = true;
            }
        } else if (op == "closenotify" || op == "tapview") {
            // tapview (not an op of the scripts, no correspondence line): the harness stops decrypting and watches the raw bytes of the
            // connection like a wire tap, without telling the client anything
            // TLS close_notify WITHOUT closing TCP: a duplicate of the descriptor keeps the connection open when QSslSocket closes its own
            // after the TLS shutdown; from then on the server side reads the raw bytes of the same TCP connection
            auto k = c.conn();
            if (k && !k->closed && k->tlsDone && !k->tlsShutDown) {
                int d = dup(int(k->sock->socketDescriptor()));
                QSslSocket *old = k->sock;
                old->disconnect();          // no signal of the old object reaches the harness any more
                if (op == "tapview") old->abort();   // closes ITS descriptor only, nothing is written
                else old->disconnectFromHost();      // SSL_shutdown (close_notify), then close() of ITS descriptor (no FIN: `d` still refers to the socket)
                for (int i = 0; i < 200 && old->state() != QAbstractSocket::UnconnectedState; i++) QCoreApplication::processEvents(QEventLoop::AllEvents, 5);
                old->deleteLater();
                auto *raw = new QSslSocket(&c.srvA);   // stays in UnencryptedMode: a plain TCP socket
                raw->setSocketDescriptor(d);
                raw->setSocketOption(QAbstractSocket::LowDelayOption, 1);
                k->sock = raw;
                k->tlsShutDown = true;
                Conn *cp = k.get();
                World *wp = &c;
                QObject::connect(raw, &QSslSocket::readyRead, raw, [cp, raw, wp]() {
                    cp->rawTail += raw->readAll();
                    // TLS records (what the client still writes through its half-open TLS session) are opaque; anything else is PLAINTEXT
                    for (;;) {
                        QByteArray &t = cp->rawTail;
                        if (t.isEmpty()) break;
                        uchar ty = uchar(t[0]);
                        if (ty >= 20 && ty <= 23) {
                            if (t.size() < 5) break;
                            if (uchar(t[1]) == 3 && uchar(t[2]) <= 4) {
                                int len = (uchar(t[3]) << 8) | uchar(t[4]);
                                if (t.size() < 5 + len) break;
                                cp->cipherAfterShutdown += 5 + len;
                                t.remove(0, 5 + len);
                                continue;
                            }
                        }
                        cp->plain += t;
                        t.clear();
                    }
                    wp->act++;
                });
                QObject::connect(raw, &QSslSocket::disconnected, raw, [cp, wp]() { cp->closed = true; wp->act++; });
            }
        } else if (op == "rtick") {
            // the reconnect timer of QXmppClient (single shot) fires, if it is running
            for (QTimer *tm : c.client->findChildren<QTimer *>(QString(), Qt::FindDirectChildrenOnly))
                if (tm->isActive() && tm->isSingleShot()) {
                    QTimerEvent ev(tm->timerId());
                    QCoreApplication::sendEvent(tm, &ev);
                }
        } else if (op == "tick") {
            // the keep-alive interval elapses: every running periodic timer of the outgoing client (the ping timer; configured to one
            // hour so that real time never fires it) gets its timer event now
            for (QTimer *tm : c.client->strm()->findChildren<QTimer *>(QString(), Qt::FindDirectChildrenOnly))
                if (tm->isActive() && !tm->isSingleShot()) {
                    QTimerEvent ev(tm->timerId());
                    QCoreApplication::sendEvent(tm, &ev);
                }
        } else if (op == "wait") {
            // 1.4 s of wall-clock time pass (used with ka=2 = real interval of 1 s; not an op of the Lean model)
            QElapsedTimer tt; tt.start();
            while (tt.elapsed() < 1400) QCoreApplication::processEvents(QEventLoop::AllEvents, 50);
        } else if (op == "ws") {
            c.srvSend(" ");   // whitespace keep-alive
        } else if (op == "smr") {
            c.srvSend("<r xmlns='urn:xmpp:sm:3'/>");
        } else if (op == "sma") {
            c.srvSend("<a xmlns='urn:xmpp:sm:3' h='0'/>");
        } else if (op == "iqset") {
            c.srvSend("<iq type='set' id='srv4' from='" + DOMAIN.toUtf8() + "'><query xmlns='urn:example:unknown'/></iq>");
        } else if (op == "iqresult") {
            // iqresult pending | stray : result for the client's outstanding request (roster / sendIq) or for nothing
            if (t.value(1) == "pending") {
                QByteArray id = c.outstandingIds.isEmpty() ? QByteArray("none") : c.outstandingIds.last().toUtf8();
                c.srvSend("<iq type='result' id='" + id + "'/>");
            } else c.srvSend("<iq type='result' id='stray-1'/>");
        } else if (op == "message") {
            c.srvSend("<message from='bob@" + DOMAIN.toUtf8() + "/x' type='chat'><body>hi</body></message>");
        } else if (op == "presence") {
            c.srvSend(t.value(1) == "sub" ? "<presence from='bob@" + DOMAIN.toUtf8() + "' type='subscribe'/>" : "<presence from='bob@" + DOMAIN.toUtf8() + "/x'/>");
        } else if (op == "streamerror") {
            c.srvSend("<stream:error><policy-violation xmlns='urn:ietf:params:xml:ns:xmpp-streams'/></stream:error>");
        } else if (op == "redirect") {
            c.srvSend("<stream:error><see-other-host xmlns='urn:ietf:params:xml:ns:xmpp-streams'>127.0.0.1:" + QByteArray::number(c.srvB.serverPort()) + "</see-other-host></stream:error>");
        } else if (op == "close") {
            c.srvSend("</stream:stream>");
        } else if (op == "drop") {
            auto k = c.conn();
            if (k && !k->closed) { k->sock->flush(); k->sock->disconnectFromHost(); }
        } else if (op == "sendiq" || op == "sendiq-retry") {
            // sendiq-retry: a re-entrant application - the FAILURE continuation of the request sends one more request (retry once, depth 1)
            sendRequest(c, op == "sendiq-retry");
        } else {
            fprintf(stderr, "harness: unknown op '%s'\n", opStr.c_str());
            exit(3);
        }
    }
};

// ------------------------------------------------------------------------------------------------ manual probe mode
static int runManual(const std::string &cfgStr, const std::string &script)
{
    Runner r;
    r.w.verbose = true;
    Cfg cfg;
    for (const QString &kv : QString::fromStdString(cfgStr).split(' ', Qt::SkipEmptyParts)) {
        QString k = kv.section('=', 0, 0); int v = kv.section('=', 1).toInt();
        if (k == "tls") cfg.tls = v; else if (k == "s2") cfg.sasl2 = v; else if (k == "s1") cfg.sasl = v; else if (k == "ns") cfg.nonsasl = v;
        else if (k == "pl") cfg.plainOk = v; else if (k == "tok") cfg.token = v; else if (k == "nsp") cfg.nsPlain = v; else if (k == "ina") cfg.inactive = v; else if (k == "ka") cfg.ka = v; else if (k == "ar") cfg.ar = v; else if (k == "reg") cfg.reg = v;
    }
    r.w.newClient(cfg);
    printf("reset %s\n", cfg.str().c_str());
    for (const QString &op : QString::fromStdString(script).split(';', Qt::SkipEmptyParts)) {
        std::string o = op.trimmed().toStdString();
        fprintf(stderr, "--- %s\n", o.c_str());
        std::string obs = r.apply(o);
        printf("%s\t%s\n", o.c_str(), obs.c_str());
        fflush(stdout);
    }
    for (Server *s : { &r.w.srvA, &r.w.srvB, &r.w.srvC })
        for (auto &c : s->conns)
            printf("conn %d on %s: plain=%d bytes secure=%d bytes tlsDone=%d\n  PLAIN: %s\n", c->id, s == &r.w.srvA ? "A" : "B", int(c->plain.size()), int(c->secure.size()), c->tlsDone,
                   c->plain.left(1500).constData());
    printf("settleTimeouts=%lld bind2Used=[", r.w.settleTimeouts);
    for (int b : r.w.sessionBind2Used) printf("%d", b);
    printf("]\n");
    return 0;
}

// ------------------------------------------------------------------------------------------------ exploration
static long long g_scripts = 0, g_ops = 0;
static std::map<std::string, int> g_failPrinted;
static bool g_stuckAfterTlsRedirect = false;   // see-other-host on a TLS link and the client did not come back (fixed by e363fe9; key kept)
// Output of one experiment is buffered: if a settle deadline was missed (overloaded machine) the experiment is discarded and
// run again once; only the second miss is let through (and then shows up as a disagreement or an oracle failure).
static std::string g_buf;
static bool g_buffering = false;
static void emitLine(const std::string &l) { if (g_buffering) g_buf += l; else fputs(l.c_str(), stdout); }
static void outCorr(const std::string &op, const std::string &obs) { emitLine("C " + op + "\t" + obs + "\n"); }
static void outFail(const std::string &key, const std::string &replay) { emitLine("O FAIL " + key + "\t" + replay + "\n"); }
static void outSample(const std::string &x) { if (samplesLeft() > 0) { samplesLeft()--; emitLine("X " + x + "\n"); } }

static void fail(std::string key, const std::string &replay)
{
    // everything that goes wrong in an experiment after the client got stuck behind a see-other-host over TLS is a consequence
    // of that hang (set only when the client really did not come back, see Session::op)
    if (g_stuckAfterTlsRedirect && key.rfind("C10:", 0) == 0) key = "C10:stuck-after-see-other-host-over-tls";
    stat("fail:" + key);
    if (g_failPrinted[key]++ < 3) outFail(key, replay);
}

struct Runner;
template<class F>
static void experiment(long long &settleTimeouts, Rng *rng, F body)
{
    for (int attempt = 0; attempt < 2; attempt++) {
        auto statsSnap = stats();
        auto passSnap = oraclePass();
        auto samplesSnap = samplesLeft();
        auto failSnap = g_failPrinted;
        auto scriptsSnap = g_scripts, opsSnap = g_ops;
        Rng rngSnap = rng ? *rng : Rng(0);
        const long long t0 = settleTimeouts;
        g_buf.clear();
        g_buffering = true;
        body();
        g_buffering = false;
        const bool missed = settleTimeouts != t0;
        if (!missed || attempt == 1) {
            fputs(g_buf.c_str(), stdout);
            g_buf.clear();
            if (missed) stat("deadline_missed_twice");
            return;
        }
        stats() = statsSnap; oraclePass() = passSnap; samplesLeft() = samplesSnap; g_failPrinted = failSnap;
        g_scripts = scriptsSnap; g_ops = opsSnap;
        if (rng) *rng = rngSnap;
        stat("experiments_repeated_after_missed_deadline");
    }
}

struct Session {
    Runner &r;
    Cfg cfg;
    std::vector<std::string> ops;      // since reset
    std::string replay() const
    {
        std::string s = "cfg{" + cfg.str() + "} script{";
        for (size_t i = 0; i < ops.size(); i++) s += (i ? ";" : "") + ops[i];
        return s + "}";
    }
    Session(Runner &r, const Cfg &c) : r(r), cfg(c)
    {
        QElapsedTimer t; t.start();
        r.w.newClient(c);
        g_stuckAfterTlsRedirect = false;
        stat("time_us:newClient", t.nsecsElapsed() / 1000);
        outCorr("reset " + c.str(), "ok");
        g_scripts++;
    }
    std::string op(const std::string &o)
    {
        ops.push_back(o);
        printf("I %s\n", replay().c_str());
        fflush(stdout);
        QElapsedTimer t; t.start();
        bool tlsRedirect = false;
        if (o == "redirect") { auto k = r.w.conn(); tlsRedirect = k && !k->closed && k->tlsDone; }
        std::string obs = r.apply(o);
        if (tlsRedirect && r.w.client->strm()->socket()->state() != QAbstractSocket::ConnectedState) g_stuckAfterTlsRedirect = true;
        stat("time_us:apply", t.nsecsElapsed() / 1000);
        outCorr(o, obs);
        g_ops++;
        stat("op:" + o.substr(0, o.find(' ')));
        return obs;
    }
};

// ---- C04 oracle: what crossed the wire in clear (seen by the SERVER before its TLS handshake completed)
static const char *ALLOWED_CLEAR[] = { "StreamOpen", "StartTls", "StreamClose" };

// split the plaintext the server read into elements; binary TLS records (a handshake the server did not answer) are skipped
static std::vector<QString> splitPlain(const QByteArray &plain)
{
    std::vector<QString> out;
    int i = 0;
    const int n = plain.size();
    while (i < n) {
        if (uchar(plain[i]) == 0x16 && i + 5 <= n && uchar(plain[i + 1]) == 0x03) break;   // TLS ClientHello: the rest is handshake data
        if (plain[i] != '<') { i++; continue; }
        if (plain.mid(i, 5) == "<?xml") {
            int e = plain.indexOf("<stream:stream", i);
            int g = e >= 0 ? plain.indexOf('>', e) : -1;
            if (g < 0) { out.push_back(QString::fromUtf8(plain.mid(i))); break; }
            out.push_back(QString::fromUtf8(plain.mid(i, g + 1 - i)));
            i = g + 1;
            continue;
        }
        if (plain.mid(i, 16) == "</stream:stream>") { out.push_back("</stream:stream>"); i += 16; continue; }
        // a complete top-level element: find its end by depth counting
        int depth = 0, j = i;
        bool done = false;
        while (j < n && !done) {
            int lt = plain.indexOf('<', j);
            if (lt < 0) break;
            int gt = plain.indexOf('>', lt);
            if (gt < 0) break;
            bool closing = plain[lt + 1] == '/';
            bool selfClosing = plain[gt - 1] == '/';
            if (closing) depth--;
            else if (!selfClosing) depth++;
            j = gt + 1;
            if (depth == 0) done = true;
        }
        if (!done) { out.push_back(QString::fromUtf8(plain.mid(i))); break; }
        out.push_back(QString::fromUtf8(plain.mid(i, j - i)));
        i = j;
    }
    return out;
}

static void oracleC04(Session &s)
{
    World &w = s.r.w;
    if (s.cfg.tls != 2) return;
    std::set<std::string> reported;
    std::vector<std::string> serverView;
    for (Server *srv : { &w.srvA, &w.srvB, &w.srvC })
        for (auto &c : srv->conns) {
            for (const QString &el : splitPlain(c->plain)) {
                std::string k = classify(el);
                serverView.push_back(k);
                bool ok = false;
                for (auto a : ALLOWED_CLEAR) ok |= (k == a);
                if (!ok) {
                    // the visible cause in the script (not the model's opinion) is part of the key, so that a new way of
                    // leaking the same kind of element is not mistaken for a known one
                    std::string cause = "unexplained";
                    if (k.rfind("NonSasl", 0) == 0 && c->sawVersionlessHeader) cause = "after-versionless-header";
                    if (k.rfind("IqReply", 0) == 0 && c->sawIqRequest) cause = "answer-to-iq-request";
                    if (k.rfind("IqReply", 0) == 0 && c->sawForeignIq) cause = "answer-to-foreign-namespace-iq";
                    if (k == "SmAck" && c->sawSmR) cause = "answer-to-sm-request";
                    if (s.cfg.ka && (k == "IqRequest:ping" || k == "SmReq")) cause = "keepalive-timer";
                    if (k.rfind("Register", 0) == 0) cause = "register-on-connect";
                    if (k == "SmReq" && c->sawForeignIq) cause = "with-answer-to-foreign-namespace-iq";
                    std::string key = "C04:cleartext:" + k + ":" + cause;
                    if (w.encryptionDropped && c->tlsDone) key = "C04:cleartext-after-connect-on-live-socket";
                    if (!reported.count(key)) { reported.insert(key); fail(key, s.replay()); }
                }
            }
            std::string sec = secrets().find(c->plain);
            if (!sec.empty() && !reported.count("secret:" + sec)) {
                reported.insert("secret:" + sec);
                fail("C04:secret-in-cleartext:" + sec + (c->sawVersionlessHeader ? ":after-versionless-header" : s.cfg.reg == 2 && c->plain.contains("jabber:iq:register") ? ":registration-form" : ":unexplained"), s.replay());
            }
        }
    // cross-check of the two observation points: client-side log + isEncrypted() versus bytes on the server side
    std::vector<std::string> clientView;
    for (auto &r : w.sent) if (r.conn && !r.enc) clientView.push_back(r.kind);
    std::multiset<std::string> a(serverView.begin(), serverView.end()), b(clientView.begin(), clientView.end());
    // a TLS session must never fall back to plaintext on the same TCP connection (the server side may still be in TLS mode and see
    // only garbage, so this is judged from the client's socket: QSslSocket::isEncrypted() before and after every op)
    if (w.encryptionDropped) {
        fail("C04:encryption-dropped-on-live-connection", s.replay());
        reported.insert("dropped");
    } else if (a != b) fail("C04:oracle-views-differ", s.replay());
    if (reported.empty()) oraclePass()++;
}

// ---- a protocol-conforming server: what to say next, from the client's last request
struct Policy {
    std::string name;
    bool tls = false;
    char auth = 'p';        // p: SASL PLAIN, s: SASL SCRAM, 2: SASL2 PLAIN + bind2 (sm/csi inline), b: SASL2 PLAIN then classic bind, l: legacy XEP-0078 (pre-1.0 header), f: XEP-0078 offered as a feature
    int sm = 0;             // 0 none, 1 offered, <enabled/> without resume, 2 offered, resumable
    bool resumeOk = true;   // answer <resume/> with <resumed/> (else <failed/>)
    bool csi = false;
    bool loc = false;       // <enabled resume='true' location='…'/>: the server names a preferred address (listener C) for resuming
    bool pipeline = false;  // the stream header and the stream features arrive in ONE segment (one read on the client side)
    int redirectAt = -1;    // k >= 0: send see-other-host instead of the (k+1)-th server element; -2: once the session is established
};

struct Conforming {
    Policy p;
    bool tlsDone = false, authed = false, needFeatures = false, done = false, resumableNow = false, bind2Now = false, resumedNow = false, boundNow = false;
    int said = 0;
    bool redirected = false;
    // returns "" when the server has nothing more to say (negotiation finished from the server's point of view)
    std::string next(const std::string &lastKind, bool newStream)
    {
        if (newStream) {
            needFeatures = !(p.auth == 'l' && !authed);
            std::string h = p.auth == 'l' ? "hdr 0 1" : "hdr 1 1";
            if (p.pipeline && needFeatures) {
                std::string f = next(lastKind, false);
                if (!f.empty()) return "seg " + h + " + " + f;
            }
            return h;
        }
        if (needFeatures) {
            needFeatures = false;
            if (p.auth == 'l' && !authed) return "";   // the client asks for the fields by itself
            if (p.auth == 'f' && !authed) return "feat a1";   // XEP-0078 advertised as a stream feature (version 1.0 header)
            if (p.tls && !tlsDone) return "feat t1";
            if (!authed) {
                if (p.auth == 'p') return "feat mp";
                if (p.auth == 's') return "feat ms";
                if (p.auth == '2') return std::string("feat zp2") + "0" + (p.sm ? "1" : "0");
                if (p.auth == 'b') return std::string("feat zp00") + "0";
            }
            bool bindDone = bind2Now;
            return std::string("feat") + (bindDone ? "" : " b1") + (p.sm ? " s1" : "") + (p.csi ? " c1" : "");
        }
        auto starts = [&](const char *s) { return lastKind.rfind(s, 0) == 0; };
        auto has = [&](const char *s) { return lastKind.find(s) != std::string::npos; };
        if (starts("StartTls")) { tlsDone = true; return "proceed 1"; }
        if (starts("SaslAuth:scram")) return "challenge 1";
        if (starts("SaslAuth") || starts("SaslResponse")) { authed = true; return "success 1"; }
        if (starts("Sasl2Auth")) {
            authed = true;
            int b = has("+bind2") ? (has("+sm") && p.sm ? (p.sm == 2 ? 2 : 3) : 1) : 0;
            int r = has("+resume") ? (p.resumeOk ? 1 : 2) : 0;
            if (r == 1) b = 0;   // a resumed stream is not bound again
            bind2Now = b != 0;
            if (b != 0) boundNow = true;
            if (b == 2) resumableNow = true;
            if (r == 1) { resumableNow = true; resumedNow = true; done = true; }
            else needFeatures = true;
            return "success2 " + std::to_string(b) + " " + std::to_string(r) + " 0 1";
        }
        if (starts("Bind")) { boundNow = true; return "bindres ok"; }
        if (starts("SmEnable")) { resumableNow = p.sm == 2; return p.sm == 2 ? (p.loc ? "smenabledat" : "smenabled 1") : "smenabled 0"; }
        if (starts("SmResume")) { if (p.resumeOk) { resumableNow = true; resumedNow = true; } return p.resumeOk ? "smresumed" : "smfailed"; }
        if (starts("NonSaslQuery")) return "fields 1 1";
        if (starts("NonSaslAuth")) { authed = true; boundNow = true; return "authres 1"; }   // XEP-0078 binds the resource with the login
        return "";
    }
};

static std::vector<Policy> policies()
{
    std::vector<Policy> v;
    auto add = [&](const char *n, bool tls, char a, int sm, bool rok, bool csi, int red) { Policy p; p.name = n; p.tls = tls; p.auth = a; p.sm = sm; p.resumeOk = rok; p.csi = csi; p.redirectAt = red; v.push_back(p); };
    add("sasl-bind", false, 'p', 0, true, false, -1);
    add("tls-sasl-bind", true, 'p', 0, true, true, -1);
    add("scram-bind-sm", false, 's', 1, true, false, -1);
    add("sasl-bind-smr", false, 'p', 2, true, true, -1);
    add("sasl-bind-smr-noresume", false, 'p', 2, false, false, -1);
    add("sasl2-bind2-smr", false, '2', 2, true, true, -1);
    add("tls-sasl2-bind2", true, '2', 0, true, true, -1);
    add("sasl2-bind2-smr-noresume", false, '2', 2, false, false, -1);
    add("sasl2-classicbind", false, 'b', 1, true, false, -1);
    add("legacy", false, 'l', 0, true, false, -1);
    add("legacy-feature", false, 'f', 0, true, false, -1);
    add("redirect-first", false, 'p', 0, true, false, 1);
    add("tls-redirect", true, 'p', 0, true, false, 4);
    add("redirect-in-session", false, 'p', 0, true, false, -2);
    add("redirect-in-session-smr", false, 'p', 2, true, false, -2);
    add("sasl-bind-smr-loc", false, 'p', 2, true, false, -1); v.back().loc = true;
    add("tls-scram-bind-smr-loc", true, 's', 2, true, true, -1); v.back().loc = true;
    add("sasl-bind-smr-pipelined", false, 'p', 2, true, true, -1); v.back().pipeline = true;
    add("tls-sasl2-bind2-pipelined", true, '2', 2, true, true, -1); v.back().pipeline = true;
    return v;
}

// last element the client sent that a server answers (skips <r/> and the stanzas sent at session start)
static std::string lastRequest(World &w, size_t from)
{
    std::string k;
    for (size_t i = from; i < w.sent.size(); i++) {
        const std::string &x = w.sent[i].kind;
        if (x == "SmReq" || x == "Presence" || x.rfind("IqRequest", 0) == 0 || x.rfind("Csi", 0) == 0 || x == "StreamClose" || x.rfind("IqReply", 0) == 0) continue;
        k = x;
    }
    return k;
}

// ---- C10: one connection attempt driven by a conforming server, cut after `cut` server elements (cut < 0: never)
struct AttemptResult { bool reachedDone = false, connectedSeen = false, cutDone = false, resumedNow = false; int said = 0; };

static AttemptResult runAttempt(Session &s, const Policy &p, int cut, bool sendIqWhenUp, bool &resumable, bool alreadyOpen = false)
{
    World &w = s.r.w;
    AttemptResult res;
    Conforming srv; srv.p = p;
    int connectedBefore = w.connectedSignals;
    const QStringList outstandingAtStart = w.outstandingIds;   // requests of earlier sessions
    size_t sentFrom = w.sent.size();
    if (!alreadyOpen) {   // alreadyOpen: the client has opened the connection by itself (see-other-host)
        bool wasDisconnected = w.client->state() == QXmppClient::DisconnectedState;
        char expect = (resumable && w.enabledLoc) ? 'c' : 'a';
        s.op("connect");
        // oracle (script view only): the resume location is for resuming THAT stream - used iff the client can still resume the stream
        // whose <enabled/> named it; otherwise the attempt goes to the configured host
        if (wasDisconnected) {
            char got = w.targetLetter();
            if (got == 'c' && expect == 'a')
                fail(resumable ? "C10:next-attempt-targets-stale-resume-location" : "C10:next-attempt-targets-resume-location-of-non-resumable-stream", s.replay());
            else if (got != expect) fail("C10:resume-location-not-used", s.replay());
            else oraclePass()++;
        }
    }
    bool newStream = true;
    size_t bind2Idx = w.sessionBind2Used.size();
    auto negotiationOver = [&]() {
        Conforming probe = srv;
        std::string l2 = lastRequest(w, sentFrom);
        return probe.next(l2, newStream || l2 == "StreamOpen").empty();
    };
    for (int guard = 0; guard < 40; guard++) {
        if (cut >= 0 && srv.said >= cut) break;
        std::string last = lastRequest(w, sentFrom);
        // a new stream begins whenever the client sent a stream open
        Conforming probe = srv;
        std::string o = probe.next(last, newStream || last == "StreamOpen");
        bool redirectNow = !srv.redirected && ((p.redirectAt >= 0 && srv.said == p.redirectAt && !o.empty()) || (p.redirectAt == -2 && o.empty()));
        if (redirectNow) { o = "redirect"; srv.redirected = true; }
        else srv = probe;
        if (o.empty()) { res.reachedDone = true; break; }
        sentFrom = w.sent.size();
        newStream = false;
        srv.said++;
        s.op(o);
        if (redirectNow) { srv.tlsDone = false; srv.authed = false; srv.bind2Now = false; srv.needFeatures = false; srv.resumableNow = false; srv.boundNow = false; srv.resumedNow = false; newStream = true; }
        // oracle (server-side knowledge of THIS connection, not the client's requests): a session may only be reported once the server
        // has bound a resource or has answered <resume/> with <resumed/> on this connection
        if ((w.client->isConnected() || w.client->state() == QXmppClient::ConnectedState || w.connectedThisConn > 0) && !(srv.boundNow || srv.resumedNow))
            fail("C10:session-reported-without-bind-or-resume", s.replay());
        else oraclePass()++;
        // oracle: nothing may be reported as an established session while the server still has something to say
        if (!negotiationOver() && (w.client->isConnected() || w.client->state() == QXmppClient::ConnectedState))
            fail(std::string("C10:session-reported-during-negotiation") + (srv.redirected ? ":after-redirect" : ""), s.replay());
        else oraclePass()++;
        if (w.connectedThisConn > 1) fail("C10:connected-twice-on-one-connection", s.replay());
    }
    if (!res.reachedDone && negotiationOver() && !(p.redirectAt == -2 && !srv.redirected)) res.reachedDone = true;
    res.said = srv.said;
    res.connectedSeen = w.connectedSignals > connectedBefore;
    if (res.reachedDone) {
        if (res.connectedSeen) resumable = srv.resumableNow;   // describes the last session the client really established
        res.resumedNow = srv.resumedNow;
        if (!(res.connectedSeen && w.client->isConnected() && w.client->state() == QXmppClient::ConnectedState))
            fail("C10:conforming-script-does-not-connect:" + p.name, s.replay());
        else oraclePass()++;
        // SessionBegin must describe THIS connection
        if (w.sessionBind2Used.size() > bind2Idx) {
            bool reported = w.sessionBind2Used.back() == 1;
            if (reported != srv.bind2Now) fail("C10:session-begin-bind2-flag-stale", s.replay());
            else oraclePass()++;
        }
        // resumed may only be claimed if the server sent <resumed/> on THIS connection
        if (res.connectedSeen && !w.sessionSmResumed.empty()) {
            bool claimed = w.sessionSmResumed.back() == 1 || w.client->streamManagementState() == QXmppClient::ResumedStream;
            if (claimed != srv.resumedNow) fail("C10:session-begin-resumed-flag-stale", s.replay());
            else oraclePass()++;
        }
        // client state indication may only be sent to a server that advertised it on THIS connection (a resumed session keeps
        // the features of the session it resumes)
        if (auto k = w.conn(); k && k->csiSent && !k->sawCsiFeature && !srv.resumedNow)
            fail(std::string("C10:csi-state-sent-without-csi-feature") + (k->sawVersionlessHeader ? "" : ":after-legacy-auth-feature"), s.replay());
        else oraclePass()++;
        // a session that was not resumed cannot answer the requests of the old one: they must be finished by now
        if (res.connectedSeen && !srv.resumedNow) {
            // (requests that failure continuations sent while the old ones were cancelled belong to the NEW session)
            bool old = false;
            for (const QString &id : outstandingAtStart) old = old || w.outstandingIds.contains(id);
            if (old) fail("C10:request-outlives-new-session", s.replay());
            else oraclePass()++;
        }
        if (sendIqWhenUp && w.client->isConnected()) s.op("sendiq");
    } else if (res.connectedSeen && !(p.redirectAt == -2)) {
        fail("C10:connected-before-negotiation-finished", s.replay());
    }
    return res;
}

static void cutAndCheck(Session &s, bool resumable, const char *how = "drop")
{
    World &w = s.r.w;
    int outstandingBefore = w.iqStarted - w.iqFinished;
    int disconnectedBefore = w.disconnectedSignals;
    bool wasUp = w.client->strm()->socket()->state() == QAbstractSocket::ConnectedState;
    s.op(how);
    bool ok = true;
    if (w.client->state() != QXmppClient::DisconnectedState || w.client->isConnected() || w.client->isAuthenticated()) { fail("C10:not-disconnected-after-cut", s.replay()); ok = false; }
    if (wasUp && w.disconnectedSignals != disconnectedBefore + 1) { fail("C10:disconnected-signal-count-after-cut", s.replay()); ok = false; }
    int outstanding = w.iqStarted - w.iqFinished;
    if (!resumable && outstanding != 0) { fail("C10:request-neither-completed-nor-resumable", s.replay()); ok = false; }
    if (resumable && outstanding != outstandingBefore) stat("c10:resumable-but-completed");
    if (ok) oraclePass()++;
}

static void exploreC10(Runner &r, Rng &rng, bool thorough)
{
    auto pols = policies();
    std::vector<Cfg> cfgs;
    { Cfg c; c.tls = 1; c.plainOk = true; cfgs.push_back(c); }
    { Cfg c; c.tls = 1; c.plainOk = true; c.inactive = true; cfgs.push_back(c); }
    { Cfg c; c.tls = 0; c.plainOk = true; c.sasl2 = false; cfgs.push_back(c); }
    { Cfg c; c.tls = 2; c.plainOk = true; cfgs.push_back(c); }   // TLS required: only the policies with STARTTLS conform
    // (0) corpus: the witnesses of the former findings first (legacy login, redirect over TLS / in session, bind2Bound leak)
    auto byName = [&](const char *n) { for (auto &p : pols) if (p.name == n) return p; fprintf(stderr, "harness: no policy %s\n", n); exit(3); };
    struct Pair { const char *p1; int cut; const char *p2; int cfg; };
    for (Pair pr : { Pair { "legacy", -1, "sasl-bind", 0 }, Pair { "tls-redirect", -1, "sasl-bind", 0 }, Pair { "redirect-in-session", -1, "sasl-bind", 0 },
                     Pair { "sasl2-bind2-smr", 3, "sasl-bind-smr", 1 }, Pair { "sasl2-bind2-smr", 3, "sasl-bind-smr", 0 },
                     Pair { "sasl-bind-smr", -1, "legacy", 1 }, Pair { "sasl-bind-smr", -1, "legacy-feature", 1 } }) {
        experiment(r.w.settleTimeouts, nullptr, [&]() {
            Session s(r, cfgs[size_t(pr.cfg)]);
            bool resumable = false;   // does the client hold a resumable stream (from the scripts' point of view); survives failed attempts
            runAttempt(s, byName(pr.p1), pr.cut, true, resumable);
            cutAndCheck(s, resumable);
            runAttempt(s, byName(pr.p2), -1, false, resumable);
            outSample(s.replay());
            stat("c10:runs");
        });
    }
    // (0a) a harsher environment than clean cuts at element boundaries: refusals by the server, stream error + close in one segment,
    // a cut in the middle of an element (partial data in the read buffer), TCP reset instead of an orderly close, white space keep-alive.
    // After every incident the client must be disconnected (or, for a redirect, on its way) and the next conforming attempt must succeed.
    struct Incident { const char *name; const char *base; int baseCut; std::vector<std::string> ops; int cfg; char expect; const char *next; };
    // expect: 'd' the client must be disconnected by itself; 'c' cut with drop afterwards; 'r' cut with rst; 'u' must stay up (then cut); 'o' the client
    // opens the next connection by itself (see-other-host), continue there
    const std::vector<Incident> incidents = {
        { "loc-then-error-close", "sasl-bind-smr-loc", -1, { "errclose" }, 0, 'd', "sasl-bind-smr" },
        { "loc-then-stream-close", "sasl-bind-smr-loc", -1, { "close" }, 0, 'd', "sasl-bind-smr-loc" },
        { "loc-then-unexpected-element", "sasl-bind-smr-loc", -1, { "proceed 1" }, 0, 'd', "sasl-bind" },
        { "loc-then-cut", "sasl-bind-smr-loc", -1, {}, 0, 'c', "sasl-bind-smr" },
        { "loc-then-rst-tls", "tls-scram-bind-smr-loc", -1, {}, 3, 'r', "tls-scram-bind-smr-loc" },
        { "loc-then-error-close-tls", "tls-scram-bind-smr-loc", -1, { "errclose" }, 3, 'd', "tls-scram-bind-smr-loc" },
        { "close-notify-then-cut", "tls-sasl-bind", -1, { "closenotify" }, 3, 'c', "tls-sasl-bind" },
        { "close-notify-then-rst", "tls-scram-bind-smr-loc", -1, { "closenotify" }, 3, 'r', "tls-scram-bind-smr-loc" },
        { "ws-in-session", "sasl-bind", -1, { "ws" }, 0, 'u', "sasl-bind" },
        { "ws-in-session-smr", "sasl-bind-smr", -1, { "ws" }, 0, 'u', "sasl-bind-smr" },
        { "auth-failure", nullptr, 0, { "connect", "hdr 1 1", "feat mp", "failure" }, 0, 'd', "sasl-bind" },
        { "auth-failure-tls", nullptr, 0, { "connect", "hdr 1 1", "feat t1", "proceed 1", "hdr 1 1", "feat mp", "failure" }, 3, 'd', "tls-sasl-bind" },
        { "bind-error", nullptr, 0, { "connect", "hdr 1 1", "feat mp", "success 1", "hdr 1 1", "feat b1", "bindres err" }, 0, 'd', "sasl-bind" },
        { "starttls-failure", nullptr, 0, { "connect", "hdr 1 1", "feat t1", "tlsfailure" }, 3, 'd', "tls-sasl-bind" },
        { "handshake-fails", nullptr, 0, { "connect", "hdr 1 1", "feat t1", "proceed 0" }, 3, 'd', "tls-sasl-bind" },
        { "handshake-fails-tls-optional", nullptr, 0, { "connect", "hdr 1 1", "feat t1", "proceed 0" }, 0, 'd', "sasl-bind" },
        { "stream-error-close-in-negotiation", nullptr, 0, { "connect", "hdr 1 1", "errclose" }, 0, 'd', "sasl-bind" },
        { "stream-error-close-in-session", "sasl-bind", -1, { "errclose" }, 0, 'd', "sasl-bind" },
        { "stream-error-close-in-session-smr", "sasl-bind-smr", -1, { "errclose" }, 0, 'd', "sasl-bind-smr" },
        { "stream-error-then-cut", "sasl-bind-smr", -1, { "streamerror" }, 0, 'c', "sasl-bind-smr" },
        { "redirect-close-one-segment", "sasl-bind", -1, { "redirectclose" }, 0, 'o', "sasl-bind" },
        { "redirect-close-one-segment-smr", "sasl-bind-smr", -1, { "redirectclose" }, 0, 'o', "sasl-bind-smr" },
        { "redirect-close-one-segment-tls", "tls-sasl-bind", -1, { "redirectclose" }, 3, 'o', "tls-sasl-bind" },
        { "redirect-close-in-negotiation", nullptr, 0, { "connect", "hdr 1 1", "redirectclose" }, 0, 'o', "sasl-bind" },
        { "cut-mid-element-in-session", "sasl-bind-smr", -1, { "partial" }, 0, 'c', "sasl-bind-smr" },
        { "cut-mid-element-in-negotiation", "sasl-bind", 2, { "partial" }, 0, 'c', "sasl-bind" },
        { "cut-mid-element-tls", "tls-sasl-bind", 5, { "partial" }, 3, 'c', "tls-sasl-bind" },
        { "rst-mid-element", "sasl2-bind2-smr", -1, { "partial" }, 0, 'r', "sasl2-bind2-smr" },
        { "rst-in-session", "sasl-bind-smr", -1, {}, 0, 'r', "sasl-bind-smr" },
        { "rst-in-session-tls", "tls-sasl-bind", -1, {}, 3, 'r', "tls-sasl-bind" },
        { "rst-in-negotiation", "sasl-bind", 3, {}, 0, 'r', "sasl-bind" },
        { "rst-in-negotiation-tls", "tls-sasl2-bind2", 4, {}, 3, 'r', "tls-sasl2-bind2" },
    };
    for (const Incident &in : incidents) {
        experiment(r.w.settleTimeouts, nullptr, [&]() {
            Session s(r, cfgs[size_t(in.cfg)]);
            World &w = r.w;
            bool resumable = false;
            if (in.base) runAttempt(s, byName(in.base), in.baseCut, true, resumable);
            int disconnectedBefore = w.disconnectedSignals;
            bool wasUp = w.client->strm()->socket()->state() == QAbstractSocket::ConnectedState;
            for (auto &o : in.ops) { s.op(o); wasUp = wasUp || o == "connect"; }
            bool alreadyOpen = false;
            switch (in.expect) {
            case 'u':
                // RFC 6120 4.6.1: white space between elements is a keep-alive; it must not end the session
                if (!(w.client->isConnected() && w.client->state() == QXmppClient::ConnectedState)) fail("C10:whitespace-keepalive-ends-connection", s.replay());
                else oraclePass()++;
                cutAndCheck(s, resumable);
                break;
            case 'd': {
                bool ok = true;
                if (w.client->state() != QXmppClient::DisconnectedState || w.client->isConnected() || w.client->isAuthenticated()) { fail(std::string("C10:not-disconnected-after-refusal:") + in.name, s.replay()); ok = false; }
                if (wasUp && w.disconnectedSignals != disconnectedBefore + 1) { fail(std::string("C10:disconnected-signal-count-after-refusal:") + in.name, s.replay()); ok = false; }
                // the client ended the stream itself (closeSession): nothing is resumable, so no request may be left open
                if (w.iqStarted - w.iqFinished != 0) { fail(std::string("C10:request-left-open-after-refusal:") + in.name, s.replay()); ok = false; }
                resumable = false;
                if (ok) oraclePass()++;
                break;
            }
            case 'c': cutAndCheck(s, resumable); break;
            case 'r': cutAndCheck(s, resumable, "rst"); break;
            case 'o':
                if (w.client->isConnected() || w.client->state() == QXmppClient::ConnectedState) fail("C10:session-reported-during-negotiation:after-redirect", s.replay());
                else oraclePass()++;
                // the trailing </stream:stream> ran disconnectFromHost(): the old stream is not resumable any more
                resumable = false;
                alreadyOpen = true;
                break;
            }
            runAttempt(s, byName(in.next), -1, false, resumable, alreadyOpen);
            stat("c10:runs");
            stat("c10:incident-runs");
        });
    }
    // (0a') a resume location outlives its stream: resumable session with location, orderly end, new resumable session WITHOUT
    // location on the configured host, cut - the next attempt must go to the configured host again
    for (int ci = 0; ci < 2; ci++)
        experiment(r.w.settleTimeouts, nullptr, [&]() {
            Session s(r, cfgs[size_t(ci)]);
            bool resumable = false;
            runAttempt(s, byName("sasl-bind-smr-loc"), -1, true, resumable);
            s.op("errclose");
            resumable = false;
            runAttempt(s, byName("sasl-bind-smr"), -1, true, resumable);
            cutAndCheck(s, resumable);
            runAttempt(s, byName("sasl-bind-smr"), -1, false, resumable);
            stat("c10:runs");
        });
    // (0a'') a re-entrant application: requests whose FAILURE continuation sends one more request ("retry once"), outstanding at every
    // way a session can end, with and without stream management. Script-side oracle: after an end that leaves nothing to resume NO
    // request is pending - including the ones the continuations created while the session was torn down.
    {
        const char *bases[] = { "sasl-bind", "scram-bind-sm", "sasl-bind-smr", "sasl2-bind2-smr", "tls-sasl-bind" };
        const char *ends[] = { "drop", "rst", "errclose", "close", "proceed 1", "streamerror+drop", "connect" };
        for (auto bn : bases)
            for (auto en : ends)
                for (int nreq = 1; nreq <= 2; nreq++)
                    experiment(r.w.settleTimeouts, nullptr, [&]() {
                        const Policy &bp = byName(bn);
                        Session s(r, cfgs[bp.tls ? 3 : 0]);
                        World &w = r.w;
                        bool resumable = false;
                        runAttempt(s, bp, -1, false, resumable);
                        for (int i = 0; i < nreq; i++) s.op("sendiq-retry");
                        std::string e = en;
                        bool orderly = !(e == "drop" || e == "rst" || e == "streamerror+drop" || e == "connect");
                        if (e == "streamerror+drop") { s.op("streamerror"); s.op("drop"); }
                        else s.op(e);
                        // an orderly end (the client closes the stream itself) is never resumable; a loss is, if the script made the stream resumable
                        bool nothingToResume = orderly || !resumable;
                        if (nothingToResume && w.iqStarted - w.iqFinished != 0) fail("C10:request-pending-after-non-resumable-end", s.replay());
                        else oraclePass()++;
                        if (orderly) resumable = false;
                        if (e == "connect") {
                            // the application reconnects on a live session: the old connection is aborted (like a loss), then the flow runs again
                            runAttempt(s, byName(resumable ? "sasl-bind-smr-noresume" : bp.name.c_str()), -1, false, resumable, true);
                        } else {
                            // next attempt: resumption refused (or a plain new session) - the old requests are cancelled, the retries go to the new
                            // session; an answer completes one of them; an orderly end then leaves nothing pending
                            runAttempt(s, byName(resumable ? "sasl-bind-smr-noresume" : bp.name.c_str()), -1, false, resumable);
                        }
                        if (w.client->isConnected() && w.iqStarted - w.iqFinished > 0) s.op("iqresult pending");
                        s.op("errclose");
                        if (w.iqStarted - w.iqFinished != 0) fail("C10:request-pending-after-non-resumable-end", s.replay());
                        else oraclePass()++;
                        stat("c10:runs");
                        stat("c10:retry-scenarios");
                    });
    }
    // (0b) three consecutive connections with stream management: new resumable session + outstanding request, cut; <resume/> accepted,
    // cut again; <resume/> refused (the server must bind again) - for classic and inline (SASL2) resumption, all combinations
    auto triple = [&](const Policy &pa1, const Policy &pa2, const Policy &pb, int cfgIdx, int cut3, bool iq2) {
        experiment(r.w.settleTimeouts, nullptr, [&]() {
            Session s(r, cfgs[size_t(cfgIdx)]);
            bool resumable = false;
            runAttempt(s, pa1, -1, true, resumable);
            cutAndCheck(s, resumable);
            runAttempt(s, pa2, -1, iq2, resumable);
            cutAndCheck(s, resumable);
            auto a3 = runAttempt(s, pb, cut3, false, resumable);
            if (cut3 >= 0 && !a3.reachedDone) {
                cutAndCheck(s, resumable);
                runAttempt(s, pb, -1, false, resumable);
            }
            stat("c10:runs");
            stat("c10:resume-then-refused-triples");
        });
    };
    {
        const char *accept[] = { "sasl-bind-smr", "sasl2-bind2-smr" };
        const char *refuse[] = { "sasl-bind-smr-noresume", "sasl2-bind2-smr-noresume" };
        for (int ci = 0; ci < 2; ci++)
            for (auto a1 : accept)
                for (auto a2 : accept)
                    for (auto b : refuse) {
                        triple(byName(a1), byName(a2), byName(b), ci, -1, false);
                        triple(byName(a1), byName(a2), byName(b), ci, -1, true);
                        for (int cut3 = 0; cut3 < (thorough ? 9 : 0); cut3++) triple(byName(a1), byName(a2), byName(b), ci, cut3, true);
                    }
    }
    // (0c) thorough: three attempts with the same policy, EVERY cut point of the first x EVERY cut point of the second, then a full one
    if (thorough)
        for (size_t ci = 0; ci < 2; ci++)
            for (auto &p : pols) {
                bool last1 = false;
                for (int cut1 = 0; cut1 < 16 && !last1; cut1++) {
                    bool last2 = false;
                    for (int cut2 = 0; cut2 < 16 && !last2; cut2++)
                        experiment(r.w.settleTimeouts, nullptr, [&]() {
                            Session s(r, cfgs[ci]);
                            bool resumable = false;
                            auto a1 = runAttempt(s, p, cut1, true, resumable);
                            last1 = a1.reachedDone;
                            cutAndCheck(s, resumable);
                            auto a2 = runAttempt(s, p, cut2, true, resumable);
                            last2 = a2.reachedDone;
                            cutAndCheck(s, resumable);
                            runAttempt(s, p, -1, false, resumable);
                            stat("c10:runs");
                            stat("c10:three-attempt-cut-grid");
                        });
                }
            }
    // (1) every policy x every cut point, then a full attempt with the same policy
    for (size_t ci = 0; ci < cfgs.size(); ci++)
        for (auto &p : pols) {
            if (ci == 2 && (p.tls || p.auth == '2' || p.auth == 'b')) continue;
            if (ci == 3 && !p.tls) continue;
            for (int cut = 0; cut < 14; cut++) {
                bool lastCut = false;
                experiment(r.w.settleTimeouts, nullptr, [&]() {
                    Session s(r, cfgs[ci]);
                    bool resumable = false;
                    auto a1 = runAttempt(s, p, cut, true, resumable);
                    lastCut = a1.reachedDone;   // the script was shorter than the cut: this is the cut of an established session
                    cutAndCheck(s, resumable);
                    auto a2 = runAttempt(s, p, -1, false, resumable);
                    (void)a2;
                    stat("c10:runs");
                });
                if (lastCut) break;
            }
        }
    // (2) two different policies in a row, every cut of the first; (3) three attempts (seeded sample)
    int pairs = 0;
    for (auto &p1 : pols)
        for (auto &p2 : pols) {
            if (!thorough && rng.below(4) != 0) continue;
            for (int cut = 0; cut < 14; cut++) {
                if (!thorough && rng.below(3) != 0 && cut > 1) continue;
                bool lastCut = false;
                experiment(r.w.settleTimeouts, &rng, [&]() {
                    Session s(r, cfgs[rng.below(2)]);
                    bool resumable = false;
                    auto a1 = runAttempt(s, p1, cut, rng.coin(), resumable);
                    lastCut = a1.reachedDone;
                    cutAndCheck(s, resumable);
                    runAttempt(s, p2, -1, false, resumable);
                    if (rng.coin()) {
                        cutAndCheck(s, resumable);
                        runAttempt(s, pols[rng.below(uint32_t(pols.size()))], -1, false, resumable);
                    }
                    stat("c10:runs");
                });
                pairs++;
                if (lastCut) break;
            }
        }
    stat("c10:pair-runs", pairs);
}

// ---- C04: exhaustive short scripts over a reduced alphabet + seeded random longer ones
static const std::vector<std::string> &alphabetSmall()
{
    static const std::vector<std::string> a = {
        "hdr 1 1", "hdr 0 1", "feat t1 mp a1 b1", "feat t0 mp a1", "proceed 1", "proceed 0", "fields 1 1", "iqget version",
        "iqget unknown", "success 1", "feat t0 zp200", "bindres ok", "redirect", "message", "xel f iqget-version", "ws",
    };
    return a;
}
static const std::vector<std::string> &alphabetFull()
{
    static const std::vector<std::string> a = {
        "hdr 1 1", "hdr 0 1", "hdr 1 0", "hdr 0 0",
        "feat t1 mp a1 b1", "feat t2 ms", "feat t0 mp a1", "feat t0 ms", "feat t0 mu", "feat t0 a1", "feat t0 b1 s1 c1", "feat t0 b1", "feat t0 s1", "feat t0", "feat t1",
        "feat t0 zp200", "feat t0 zs011", "feat t0 zp111 mp", "feat t0 zu000", "feat t1 zp200",
        "proceed 1", "proceed 0", "tlsfailure", "success 1", "success 0", "failure", "challenge 1", "challenge 0",
        "success2 0 0 0 1", "success2 1 0 0 1", "success2 2 0 1 1", "success2 3 0 0 0", "success2 0 1 0 1", "success2 0 2 0 1", "success2 2 1 1 0", "failure2", "challenge2 1", "challenge2 0", "continue2",
        "fields 1 1", "fields 1 0", "fields 0 1", "fields 0 0", "authres 1", "authres 0",
        "bindres ok", "bindres nojid", "bindres err", "bindres wrongid", "smenabled 1", "smenabled 0", "smfailed", "smresumed",
        "iqget version", "iqget disco", "iqget unknown", "iqset", "iqresult pending", "iqresult stray", "message", "presence sub", "presence avail",
        "streamerror", "redirect", "close", "drop", "sendiq", "connect",
        "xel f iqget-version", "xel e iqget-version", "xel s iqget-version", "xel f iqget-unknown", "xel s iqset", "xel e iqresult-pending",
        "xel f message", "xel s presence", "smr", "sma", "ws", "partial", "errclose", "redirectclose", "rst", "tick", "tick", "smenabledat", "rtick", "rtick", "feat t0 g1", "feat t1 g1", "feat t0 g1 mp b1", "feat g1 zp200",
        "seg hdr 1 1 + feat t1 mp a1 b1", "seg hdr 1 1 + feat t0 mp a1", "seg hdr 1 1 + iqget version", "seg hdr 1 1 + xel f iqget-version",
        "seg hdr 1 1 + feat t0 b1 s1 c1",
    };
    return a;
}

// property text: "if encryption cannot be negotiated it gives up and disconnects".  Checked whenever features without
// <starttls/> are delivered on a well-formed (header first), still unencrypted, still open connection.
struct TlsUnavailableCheck {
    std::shared_ptr<Conn> c;
    bool armed = false;
    void before(Session &s, const std::string &op)
    {
        c = s.r.w.conn();
        armed = s.cfg.tls == 2 && op.rfind("feat t0", 0) == 0 && c && !c->closed && !c->tlsDone && !c->tlsStarted && c->firstIsHeader && c->delivered >= 1 && !c->sawPartial;
    }
    void after(Session &s)
    {
        if (!armed) return;
        World &w = s.r.w;
        if (w.conn() != c) return;   // redirected meanwhile
        if (w.client->state() != QXmppClient::DisconnectedState || !c->closed) fail("C04:tls-unavailable-but-not-disconnected", s.replay());
        else oraclePass()++;
    }
};

static void runC04Script(Runner &r, const Cfg &cfg, const std::vector<std::string> &script)
{
    experiment(r.w.settleTimeouts, nullptr, [&]() {
        Session s(r, cfg);
        s.op("connect");
        TlsUnavailableCheck chk;
        for (auto &o : script) {
            chk.before(s, o);
            s.op(o);
            chk.after(s);
        }
        oracleC04(s);
        outSample(s.replay());
    });
}

static void exploreC04(Runner &r, Rng &rng, bool thorough)
{
    std::vector<Cfg> cfgs;
    { Cfg c; c.tls = 2; cfgs.push_back(c); }                       // defaults + TLS required
    { Cfg c; c.tls = 2; c.nonsasl = false; c.plainOk = true; cfgs.push_back(c); }
    { Cfg c; c.tls = 1; c.plainOk = true; cfgs.push_back(c); }
    { Cfg c; c.tls = 0; c.plainOk = true; c.nsPlain = true; cfgs.push_back(c); }
    const auto &A = alphabetSmall();
    int depth = thorough ? 4 : 3;
    if (getenv("NEG_SMALL")) depth = 2;
    // corpus: the two former defect witnesses (fixed by e0bbad9 / fa0779c) and the plain successful paths first
    runC04Script(r, cfgs[0], { "hdr 0 1", "fields 1 1" });
    runC04Script(r, cfgs[0], { "hdr 1 1", "iqget version" });
    runC04Script(r, cfgs[0], { "hdr 1 1", "feat t0 mp a1" });
    // time as an op: keep-alive on (interval one hour; `tick` delivers the timer event of every running periodic timer of the outgoing
    // client = "the interval elapses"). The server stalls at EVERY point of every conforming flow (two intervals), then once more inside
    // the session; with TLS required nothing but stream open/starttls/stream close may appear on the clear link (oracleC04)
    {
        auto pols = policies();
        for (auto &p : pols) {
            if (p.redirectAt != -1) continue;
            for (int tlsMode = 1; tlsMode <= 2; tlsMode++) {
                if (tlsMode == 2 && !p.tls) continue;
                for (int stallAt = 0; stallAt < 14; stallAt++) {
                    bool stalled = false;
                    experiment(r.w.settleTimeouts, nullptr, [&]() {
                        stalled = false;
                        Cfg c; c.tls = tlsMode; c.plainOk = true; c.ka = 1;
                        Session s(r, c);
                        World &w = r.w;
                        Conforming srv; srv.p = p;
                        size_t sentFrom = w.sent.size();
                        s.op("connect");
                        bool newStream = true;
                        int said = 0;
                        for (int guard = 0; guard < 40; guard++) {
                            if (said == stallAt && !stalled) { s.op("tick"); s.op("tick"); stalled = true; }
                            std::string last = lastRequest(w, sentFrom);
                            std::string o = srv.next(last, newStream || last == "StreamOpen");
                            if (o.empty()) break;
                            sentFrom = w.sent.size();
                            newStream = false;
                            said++;
                            s.op(o);
                        }
                        s.op("tick");
                        oracleC04(s);
                        stat("c04:stall-scenarios");
                    });
                    if (!stalled) break;
                }
            }
        }
        // the timer across a see-other-host: inside a session (without / with stream management) and before the session opens
        for (int variant = 0; variant < 3; variant++)
            experiment(r.w.settleTimeouts, nullptr, [&]() {
                Cfg c = cfgs[1]; c.ka = 1;
                Session s(r, c);
                std::vector<std::string> pre = { "connect", "hdr 1 1", "feat t1", "tick", "proceed 1", "hdr 1 1", "feat mp", "success 1", "hdr 1 1", variant == 1 ? "feat b1 s1" : "feat b1", "bindres ok" };
                if (variant == 1) pre.push_back("smenabled 1");
                if (variant == 2) pre = { "connect", "hdr 1 1", "feat t1", "proceed 1", "hdr 1 1", "feat t0 zp200", "success2 2 0 0 1" };
                for (auto &o : pre) s.op(o);
                for (auto o : { "tick", "redirect", "tick", "hdr 1 1", "tick", "feat t1", "tick" }) s.op(o);
                oracleC04(s);
                stat("c04:stall-scenarios");
            });
    }
    // a second consumer of stream features: QXmppRegistrationManager with registerOnConnect (with / without a cached form that carries
    // user name and password) takes <stream:features/> through elementReceived(); every combination of TLS mode x starttls offer x
    // <register/> feature, a second features element, an answer, features inside TLS and after a failed handshake
    for (int tlsMode = 0; tlsMode <= 2; tlsMode++)
        for (int reg = 1; reg <= 2; reg++)
            for (const char *f1 : { "feat t0 g1", "feat t1 g1", "feat t2 g1 mp", "feat t0 mp b1", "feat t1", "feat t0 g1 mp a1 b1 s1 c1 zp200" })
                for (const char *next : { "feat t0 g1", "iqresult stray", "proceed 1", "proceed 0", "tlsfailure", "message", "drop" })
                    experiment(r.w.settleTimeouts, nullptr, [&]() {
                        Cfg c; c.tls = tlsMode; c.plainOk = true; c.reg = reg; c.ar = true;
                        Session s(r, c);
                        s.op("connect");
                        TlsUnavailableCheck chk;
                        for (std::string o : { std::string("hdr 1 1"), std::string(f1), std::string(next), std::string("hdr 1 1"), std::string("feat t0 g1 mp"), std::string("feat t0 g1"), std::string("rtick") }) {
                            chk.before(s, o);
                            s.op(o);
                            chk.after(s);
                        }
                        oracleC04(s);
                        stat("c04:register-on-connect-scenarios");
                    });
    // connectToHost() on a LIVE socket: (b) the server sends a TLS close_notify but keeps the TCP connection, automatic reconnection fires
    // its timer; (c) a timer armed by an earlier socket error fires after the application has connected again by itself. After the
    // close_notify the harness reads the raw TCP bytes, so plaintext on the wire is seen by the server-side oracle as well.
    {
        auto pols = policies();
        const char *after[] = { "tick", "sendiq", "iqget version", "message", "rtick", "drop", "smr", "ws" };
        for (auto &p : pols) {
            if (!p.tls || p.redirectAt != -1) continue;
            for (int variant = 0; variant < 3; variant++)
                for (auto fin : after)
                    experiment(r.w.settleTimeouts, nullptr, [&]() {
                        Cfg c; c.tls = 2; c.plainOk = true; c.ka = 1; c.ar = true;
                        Session s(r, c);
                        World &w = r.w;
                        auto flow = [&]() {
                            Conforming srv; srv.p = p;
                            size_t sentFrom = w.sent.size();
                            bool newStream = true;
                            for (int guard = 0; guard < 40; guard++) {
                                std::string last = lastRequest(w, sentFrom);
                                std::string o = srv.next(last, newStream || last == "StreamOpen");
                                if (o.empty()) break;
                                sentFrom = w.sent.size();
                                newStream = false;
                                s.op(o);
                            }
                        };
                        s.op("connect");
                        if (variant == 0) { flow(); s.op("closenotify"); s.op("rtick"); }
                        else if (variant == 2) { flow(); s.op("connect"); }   // the application calls connectToServer() on a live session
                        else {
                            // the server keeps its TLS session: only what the CLIENT does next is scripted (a server speaking TLS to a client
                            // that reads plaintext is outside the model); the harness watches the wire
                            if (std::string(fin) != "tick" && std::string(fin) != "sendiq" && std::string(fin) != "rtick") return;
                            s.op("hdr 1 1"); s.op("drop"); s.op("connect"); flow();
                            r.perform("tapview");
                            s.op("rtick");
                        }
                        // the application sends only while isConnected() (sending before the session exists is outside the property)
                        if (std::string(fin) == "sendiq" && !w.client->isConnected()) s.op("tick"); else s.op(fin);
                        oracleC04(s);
                        stat("c04:live-socket-reconnect-scenarios");
                    });
        }
    }
    // timers (outside the Lean model: the time that passes is not an op, only the oracle judges): keep-alive pings switched on, time
    // passes before TLS on a first connection and on the connection opened after a see-other-host in an established session
    for (int variant = 0; variant < 3; variant++)
        experiment(r.w.settleTimeouts, nullptr, [&]() {
            Cfg c = cfgs[1]; c.ka = 2;
            Session s(r, c);
            std::vector<std::string> pre = { "connect", "hdr 1 1" };
            if (variant >= 1) pre = { "connect", "hdr 1 1", "feat t1", "proceed 1", "hdr 1 1", "feat mp", "success 1", "hdr 1 1", variant == 1 ? "feat b1" : "feat b1 s1", "bindres ok" };
            if (variant == 2) pre.push_back("smenabled 1");
            if (variant >= 1) { pre.push_back("redirect"); pre.push_back("hdr 1 1"); }
            for (auto &o : pre) s.op(o);
            s.ops.push_back("wait");
            std::string obs = r.apply("wait");
            if (obs.rfind("-|", 0) != 0) fail("C04:timer-writes-before-tls", s.replay());
            else oraclePass()++;
            oracleC04(s);
            stat("c04:timer-scenarios");
        });
    runC04Script(r, cfgs[0], { "hdr 1 1", "xel f iqget-version" });      // stanza-shaped element outside jabber:client slips past the guard
    runC04Script(r, cfgs[0], { "hdr 1 1", "xel e iqget-version" });
    runC04Script(r, cfgs[1], { "hdr 1 1", "feat t1", "proceed 1", "hdr 1 1", "feat t0 zp200", "success2 2 0 0 1", "redirect", "hdr 1 1", "smr" });
    runC04Script(r, cfgs[1], { "hdr 1 1", "feat t1", "proceed 1", "hdr 1 1", "feat t0 zp200", "success2 2 0 0 1", "redirect", "hdr 1 1", "xel s iqget-version" });
    runC04Script(r, cfgs[1], { "hdr 1 1", "feat t1 mp a1 b1", "proceed 1", "hdr 1 1", "feat t0 mp a1", "success 1", "hdr 1 1", "feat t0 b1", "bindres ok" });
    // reconnect histories: the connection is lost at every point of a STARTTLS + authentication + bind flow, the application
    // connects again, and the new (plain-text) peer sends its header and then ONE element that belongs to the old exchange -
    // nothing negotiated on the dead connection may be continued in clear on the new one
    {
        const std::vector<std::vector<std::string>> flows = {
            { "hdr 1 1", "feat t1 ms", "proceed 1", "hdr 1 1", "feat t0 ms", "challenge 1", "success 1", "hdr 1 1", "feat t0 b1 s1", "bindres ok", "smenabled 1" },
            { "hdr 1 1", "feat t1 mp", "proceed 1", "hdr 1 1", "feat t0 mp", "success 1", "hdr 1 1", "feat t0 b1", "bindres ok" },
            { "hdr 1 1", "feat t1", "proceed 1", "hdr 1 1", "feat t0 zs200", "challenge2 1", "success2 2 0 0 1", "feat t0 s1" },
        };
        const std::vector<std::string> stale = { "challenge 1", "challenge 0", "success 1", "success 0", "failure", "proceed 1", "bindres ok", "fields 1 1",
                                                 "authres 1", "smenabled 1", "smresumed", "challenge2 1", "success2 1 0 0 1", "iqget version", "feat t0 mp a1 b1" };
        Cfg c; c.tls = 2; c.plainOk = true;
        for (auto &fl : flows)
            for (size_t cut = 1; cut <= fl.size(); cut++)
                for (auto &x : stale) {
                    if (!thorough && (cut + std::hash<std::string>()(x)) % 3 != 0 && x != "challenge 1" && x != "challenge2 1" && x != "bindres ok") continue;
                    std::vector<std::string> sc(fl.begin(), fl.begin() + long(cut));
                    sc.push_back("drop"); sc.push_back("connect"); sc.push_back("hdr 1 1"); sc.push_back(x);
                    runC04Script(r, c, sc);
                    stat("c04:reconnect-histories");
                }
    }
    for (size_t ci = 0; ci < cfgs.size(); ci++) {
        int d = (ci == 0) ? depth : (ci == 1 ? depth : depth - 1);
        std::vector<int> idx;
        std::function<void()> rec = [&]() {
            if (!idx.empty()) {
                std::vector<std::string> sc;
                for (int i : idx) sc.push_back(A[size_t(i)]);
                runC04Script(r, cfgs[ci], sc);
            }
            if (int(idx.size()) == d) return;
            for (int i = 0; i < int(A.size()); i++) { idx.push_back(i); rec(); idx.pop_back(); }
        };
        // only maximal-length scripts need to be run separately when shorter ones are their prefixes? No: the oracle is
        // evaluated at the end of each script, but every prefix is observed line by line as well; run all lengths for the counts.
        rec();
        stat("c04:exhaustive-depth-cfg" + std::to_string(ci), d);
    }
    // random: a conforming server that is derailed with probability 1/3 per step
    const auto &F = alphabetFull();
    auto pols = policies();
    int nRandom = thorough ? 6000 : 700; if (getenv("NEG_SMALL")) nRandom = 20;
    for (int n = 0; n < nRandom; n++) experiment(r.w.settleTimeouts, &rng, [&]() {
        Cfg c;
        c.tls = int(rng.below(3)); if (rng.below(3) == 0) c.tls = 2;
        c.sasl2 = rng.below(4) != 0; c.sasl = rng.below(4) != 0; c.nonsasl = rng.below(3) != 0;
        c.plainOk = rng.coin(); c.nsPlain = rng.coin(); c.inactive = rng.below(4) == 0;
        int tk = int(rng.below(4)); c.token = tk == 3 ? 0 : tk;
        c.ka = rng.coin() ? 1 : 0; c.ar = rng.coin();
        if (rng.below(5) == 0) c.reg = 1 + int(rng.below(2));
        Session s(r, c);
        s.op("connect");
        Conforming srv; srv.p = pols[rng.below(uint32_t(pols.size()))];
        srv.p.tls = srv.p.tls || c.tls == 2 || rng.coin();
        size_t sentFrom = 0;
        bool newStream = true;
        int len = 3 + int(rng.below(10));
        TlsUnavailableCheck chk;
        for (int k = 0; k < len; k++) {
            std::string last = lastRequest(r.w, sentFrom);
            sentFrom = r.w.sent.size();
            std::string o;
            if (rng.below(3) != 0) o = srv.next(last, newStream || last == "StreamOpen");
            newStream = false;
            if (o.empty()) o = F[rng.below(uint32_t(F.size()))];
            // connectToServer() / the reconnect timer on a live connection: the old connection is aborted, a new one opened (6235115)
            auto connBefore = r.w.conn();
            // application requests sent before the session exists are outside the property (it quantifies over servers)
            if (o == "sendiq" && c.tls == 2 && !r.w.client->strm()->socket()->isEncrypted()) o = "message";
            chk.before(s, o);
            s.op(o);
            chk.after(s);
            if (o == "redirect" || r.w.conn() != connBefore) { srv.tlsDone = srv.authed = srv.bind2Now = false; newStream = true; }
        }
        oracleC04(s);
        stat("c04:random-scripts");
    });
}

int main(int argc, char **argv)
{
    QCoreApplication app(argc, argv);
    Args args = parseArgs(argc, argv);
    std::string mode = args.mode.empty() ? NEG_DEFAULT_MODE : args.mode;
    std::string script, cfgStr;
    for (int i = 1; i < argc; i++) {
        if (!strcmp(argv[i], "--script") && i + 1 < argc) script = argv[++i];
        if (!strcmp(argv[i], "--cfg") && i + 1 < argc) cfgStr = argv[++i];
    }
    setupTls();
    if (!script.empty()) return runManual(cfgStr, script);
    const bool thorough = args.tier == "thorough";
    Rng rng(args.seed);
    Runner r;
    QElapsedTimer t; t.start();
    if (!g_tlsOk) printf("X TLS could not be brought up in this sandbox: only the pre-TLS part is covered\n");
    if (mode == "c04" || mode == "both") exploreC04(r, rng, thorough);
    if (mode == "c10" || mode == "both") exploreC10(r, rng, thorough);
    stat("tls_available", g_tlsOk ? 1 : 0);
    stat("scripts", g_scripts);
    stat("ops", g_ops);
    stat("settle_timeouts", r.w.settleTimeouts);
    stat("wall_ms", t.elapsed());
    finish();
    return 0;
}
