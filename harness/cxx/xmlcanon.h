// Canonical tree encoding shared with lean/Qx/Xml/Canon.lean:
//   node := (E <hex name> (<attr>*) (<node>*)) | (T <hex text>) ; attr := (<hex name> <hex value>)
// hex = lower-case hex of UTF-8 ("-" when empty); attributes sorted by hex name; adjacent text merged, empty text dropped.
#pragma once
#include <QDomDocument>
#include <QDomElement>
#include <QString>
#include <QStringList>
#include <algorithm>
#include <string>

namespace vh {

inline std::string hexOf(const QString &s) {
    QByteArray u = s.toUtf8();
    if (u.isEmpty()) return "-";
    return u.toHex().toStdString();
}

inline std::string canonNode(const QDomNode &n);

inline std::string canonElement(const QDomElement &e) {
    std::vector<std::pair<std::string, std::string>> as;
    auto am = e.attributes();
    for (int i = 0; i < am.count(); i++) {
        auto a = am.item(i).toAttr();
        as.emplace_back(hexOf(a.name()), hexOf(a.value()));
    }
    std::sort(as.begin(), as.end());
    std::string out = "(E " + hexOf(e.tagName()) + " (";
    for (size_t i = 0; i < as.size(); i++) { if (i) out += " "; out += "(" + as[i].first + " " + as[i].second + ")"; }
    out += ") (";
    bool first = true; QString pendingText; bool havePending = false;
    auto flush = [&]() {
        if (havePending && !pendingText.isEmpty()) { if (!first) out += " "; out += "(T " + hexOf(pendingText) + ")"; first = false; }
        pendingText.clear(); havePending = false;
    };
    for (auto c = e.firstChild(); !c.isNull(); c = c.nextSibling()) {
        if (c.isText() || c.isCDATASection()) { pendingText += c.nodeValue(); havePending = true; }
        else if (c.isElement()) { flush(); if (!first) out += " "; out += canonElement(c.toElement()); first = false; }
    }
    flush();
    out += "))";
    return out;
}

// parse a document the way qxmpp does (namespace processing on); returns "none" when not well-formed
inline std::string canonOfXml(const QByteArray &xml) {
    QDomDocument doc;
    if (!doc.setContent(xml, true)) return "none";
    return canonElement(doc.documentElement());
}

inline QByteArray unhex(const std::string &h) { return h == "-" ? QByteArray() : QByteArray::fromHex(QByteArray::fromStdString(h)); }

}  // namespace vh
