// C09 harness: drives the real StreamAckManager of a real QXmppOutgoingClient (real XmppSocket on top of a
// QSslSocket whose writeData() is captured), including the real C2sStreamManager glue: a scripted server
// answers the client's <resume/>, bind and <enable/> requests, so `enabledNew` / `resumed h` are reached
// through handleStreamFeatures -> startSmResume/startResourceBinding/startSmEnable -> handleElement.
// Prints op/observation lines for the Lean model (Qx.Model.C09Sm) and evaluates the property itself
// (oracle, own bookkeeping, independent of the model).
#include "common.h"
#include "QXmppIq.h"
#include "QXmppOutgoingClient.h"
#include "QXmppOutgoingClient_p.h"
#include "QXmppPacket_p.h"
#include "QXmppStreamManagement_p.h"
#include "QXmppSendResult.h"
#include "QXmppTask.h"
#include "XmppSocket.h"
#include <QCoreApplication>
#include <QDomDocument>
#include <QSslSocket>
#include <functional>
#include <memory>

using namespace vh;
using QXmpp::SendResult;

// ------------------------------------------------------------------ fake transport under the real XmppSocket
class FakeSock : public QSslSocket
{
public:
    std::function<void(const QByteArray &)> sink;
    void up()
    {
        setOpenMode(QIODevice::ReadWrite);
        setSocketState(QAbstractSocket::ConnectedState);
    }
    void down() { setSocketState(QAbstractSocket::UnconnectedState); }

protected:
    qint64 writeData(const char *d, qint64 n) override
    {
        if (sink) sink(QByteArray(d, int(n)));
        return n;
    }
};

// the library declares `friend class TestClient;` in QXmppOutgoingClient: private entry points without patching
class TestClient
{
public:
    static QXmppOutgoingClientPrivate *priv(QXmppOutgoingClient *c) { return c->d.get(); }
    static void handleStart(QXmppOutgoingClient *c) { c->handleStart(); }
    static void received(QXmppOutgoingClient *c, const QDomElement &e) { c->handlePacketReceived(e); }
    static void socketDisconnected(QXmppOutgoingClient *c) { c->_q_socketDisconnected(); }
};

static QDomDocument parseDoc(const QByteArray &xml)
{
    QDomDocument d;
    if (!d.setContent(xml, true)) {
        fprintf(stderr, "harness: bad xml %s\n", xml.constData());
        exit(3);
    }
    return d;
}

static const char *NS_SM = "urn:xmpp:sm:3";

struct Docs {
    QDomDocument featSm = parseDoc("<stream:features xmlns:stream='http://etherx.jabber.org/streams'><bind xmlns='urn:ietf:params:xml:ns:xmpp-bind'/><sm xmlns='urn:xmpp:sm:3'/></stream:features>");
    QDomDocument featNoSm = parseDoc("<stream:features xmlns:stream='http://etherx.jabber.org/streams'><bind xmlns='urn:ietf:params:xml:ns:xmpp-bind'/></stream:features>");
    QDomDocument r = parseDoc("<r xmlns='urn:xmpp:sm:3'/>");
    QDomDocument failed = parseDoc("<failed xmlns='urn:xmpp:sm:3'><item-not-found xmlns='urn:ietf:params:xml:ns:xmpp-stanzas'/></failed>");
    QDomDocument message = parseDoc("<message xmlns='jabber:client' from='a@b/c' type='chat'><body>x</body></message>");
    QDomDocument presence = parseDoc("<presence xmlns='jabber:client' from='a@b/c'/>");
    QDomDocument iq = parseDoc("<iq xmlns='jabber:client' from='a@b/c' type='result' id='zz9'/>");
    QDomDocument nonza = parseDoc("<nz xmlns='urn:verif:nonza'/>");
    std::map<long, QDomDocument> acks, resumeds;
    const QDomDocument &ack(long h)
    {
        auto it = acks.find(h);
        if (it == acks.end()) it = acks.emplace(h, parseDoc("<a xmlns='urn:xmpp:sm:3' h='" + QByteArray::number(qlonglong(h)) + "'/>")).first;
        return it->second;
    }
    const QDomDocument &resumed(long h)
    {
        auto it = resumeds.find(h);
        if (it == resumeds.end()) it = resumeds.emplace(h, parseDoc("<resumed xmlns='urn:xmpp:sm:3' previd='sess' h='" + QByteArray::number(qlonglong(h)) + "'/>")).first;
        return it->second;
    }
};
static Docs *docs;

enum Policy { PolE, PolR, PolN, PolF };  // server: refuse resume+accept enable | accept resume (else enable) | no SM offered | refuse both
enum HMode { HExact, HStale, HBeyond };

struct Pkt {
    bool stanza = false;
    bool iq = false;  // tracked request sent with sendIq(): its delivery report is consumed by the IQ manager, not observable
    int reports = 0;
    long seq = 0;  // oracle's own numbering (0 = never stored)
    std::optional<QXmppTask<SendResult>> task;
};

struct Env {
    std::unique_ptr<QObject> ctx { new QObject };
    QXmppOutgoingClient *c = nullptr;
    FakeSock *fs = nullptr;
    std::vector<std::string> ev;  // events of the current op (wire tokens, reports, w0/w1) in real-time order
    std::vector<int> wirePkts;    // packet labels written during the current op
    enum Req { None, Resume, Bind, Enable } lastReq = None;
    QByteArray bindId;
    bool connected = false;
    bool tearing = false;
    // ---- oracle bookkeeping (independent of the Lean model)
    std::vector<Pkt> pk;
    std::vector<int> pend;      // stored while SM was on and not yet reported, in send order
    long myLastOut = 0;
    long recvOn = 0, strayLegit = 0, strayPhantom = 0;  // stanzas injected since the last <enabled/>
    bool inAckOp = false;
    long curH = 0;
    std::vector<int> outstanding;  // tracked IQ requests whose IqResult task has not finished, oldest first
    std::string history;
    std::string trace;  // op => observation, for the evidence samples

    QXmpp::Private::StreamAckManager &sam() { return c->streamAckManager(); }

    Env()
    {
        c = new QXmppOutgoingClient(nullptr);
        fs = new FakeSock;
        fs->setParent(c);
        fs->sink = [this](const QByteArray &d) { onWrite(d); };
        TestClient::priv(c)->socket.setSocket(fs);
        // an "extension" that accepts our nonza (otherwise the client treats it as a protocol error and disconnects)
        QObject::connect(c, &QXmppOutgoingClient::elementReceived, ctx.get(), [](const QDomElement &e, bool &handled) {
            if (e.namespaceURI() == QStringLiteral("urn:verif:nonza")) handled = true;
        });
        reconnectScript(PolN, HExact, false, false);  // initial connection: session without stream management
        ev.clear();
        wirePkts.clear();
    }
    ~Env()
    {
        tearing = true;
        fs->down();
        delete c;  // ~QXmppOutgoingClient -> resetCache(): every pending packet gets its (single) report
        for (size_t i = 0; i < pk.size(); i++) {
            if (pk[i].iq) continue;
            if (pk[i].reports != 1) oracleFail(pk[i].reports == 0 ? "C09:report:lost" : "C09:report:twice", history + " [teardown P" + std::to_string(i) + "]");
            else oraclePass()++;
        }
    }

    static std::string attr(const QByteArray &d, const char *name)
    {
        QByteArray pat = QByteArray(" ") + name + "=";
        int i = d.indexOf(pat);
        if (i < 0) return "";
        i += pat.size();
        char q = d[i];
        int j = d.indexOf(q, i + 1);
        return d.mid(i + 1, j - i - 1).toStdString();
    }

    void onWrite(const QByteArray &d)
    {
        if (d.startsWith("<?xml") || d.startsWith("<stream:stream")) return;  // stream header: not SM relevant
        if (d.startsWith("<message id='P") || d.startsWith("<nz id='P") || d.startsWith("<iq id=\"P")) {
            int id = atoi(attr(d, "id").c_str() + 1);
            ev.push_back("P" + std::to_string(id));
            wirePkts.push_back(id);
            if (id >= 0 && id < (int)pk.size() && pk[id].reports > 0) oracleFail("C09:resend:after-report", history);
            return;
        }
        if (d.startsWith("<r xmlns=")) { ev.push_back("r"); return; }
        if (d.startsWith("<a xmlns=")) { long k = atol(attr(d, "h").c_str()); ev.push_back("a" + std::to_string(k)); checkH(k, "a"); return; }
        if (d.startsWith("<resume ")) { long k = atol(attr(d, "h").c_str()); ev.push_back("resume" + std::to_string(k)); checkH(k, "resume"); lastReq = Resume; return; }
        if (d.startsWith("<enable ")) { lastReq = Enable; return; }
        if (d.startsWith("<iq ") && d.contains("xmpp-bind")) { bindId = QByteArray::fromStdString(attr(d, "id")); lastReq = Bind; return; }
        ev.push_back("?" + hex((const unsigned char *)d.constData(), std::min<size_t>(d.size(), 16)));
    }

    // property: the reported h equals the number of message/presence/iq stanzas received on that session,
    // i.e. while stream management was on since the last <enabled/> (recvOn). Judged on the implementation alone.
    void checkH(long k, const char *what)
    {
        if (k == recvOn) { oraclePass()++; return; }
        if (k == recvOn + strayLegit + strayPhantom) {
            // the counter also ran while stream management was off
            if (strayLegit > 0) oracleFail("C09:h:counts-stanzas-received-without-sm", history);  // legitimate history: session without SM
            else oraclePass()++;  // only stanzas injected with no connection at all: not a legitimate input, not judged
            return;
        }
        oracleFail(std::string("C09:h:wrong-") + what, history);
    }

    void onReport(int id, const SendResult &r)
    {
        std::string kind;
        bool acked = false;
        if (auto *ok = std::get_if<QXmpp::SendSuccess>(&r)) { acked = ok->acknowledged; kind = acked ? "ack" : "sent"; }
        else {
            auto e = std::get<QXmppError>(r).value<QXmpp::SendError>();
            kind = !e ? "eother" : *e == QXmpp::SendError::SocketWriteError ? "ewrite" : *e == QXmpp::SendError::Disconnected ? "edisc" : "eother";
        }
        if (!tearing) ev.push_back("P" + std::to_string(id) + "!" + kind);
        pk[id].reports++;
        if (pk[id].reports > 1) { oracleFail("C09:report:twice", history); return; }
        if (acked) {
            // acknowledged only while an <a h/> or <resumed h/> is being processed, and only if h covers the packet's number
            if (!inAckOp || pk[id].seq == 0 || pk[id].seq > curH) oracleFail("C09:ack:not-covered", history);
            else oraclePass()++;
        }
        pend.erase(std::remove(pend.begin(), pend.end(), id), pend.end());
    }

    std::string flushObs()
    {
        std::string e;
        for (size_t i = 0; i < ev.size(); i++) { if (i) e += ","; e += ev[i]; }
        if (e.empty()) e = "-";
        ev.clear();
        wirePkts.clear();
        // a second reportFinished() after the continuation ran would leave a stored result behind
        for (size_t i = 0; i < pk.size(); i++)
            if (pk[i].reports > 0 && pk[i].task->hasResult()) oracleFail("C09:report:twice", history + " [second finish on P" + std::to_string(i) + "]");
        return e + "|e" + (sam().enabled() ? "1" : "0") + " i" + std::to_string(sam().lastIncomingSequenceNumber());
    }
    void line(const std::string &op)
    {
        history += op + ";";
        stat("op_" + op.substr(0, op.find(' ')));
        std::string o = flushObs();
        if (trace.size() < 560) trace += op + " => " + o + " ; ";
        corr(op, o);
    }
    void inject(const QDomDocument &d) { TestClient::received(c, d.documentElement()); }
    long resolveH(HMode m) const { return m == HExact ? myLastOut : m == HStale ? (myLastOut > 0 ? myLastOut - 1 : 0) : myLastOut + 1; }
    const char *ud(bool forceDown) const { return connected && !forceDown ? "u" : "d"; }

    // ---------------------------------------------------------------- operations
    void send(bool stanza, bool forceDown)
    {
        std::string op = std::string("send ") + (stanza ? "s " : "n ") + ud(forceDown);
        history += "{" + op + "}";
        if (forceDown && connected) fs->down();
        int id = (int)pk.size();
        bool en = sam().enabled();
        QByteArray data = (stanza ? "<message id='P" : "<nz id='P") + QByteArray::number(id) + "'/>";
        pk.push_back(Pkt { stanza, false, 0, 0, std::nullopt });
        if (en && stanza) { pend.push_back(id); pk[id].seq = ++myLastOut; }
        auto res = sam().internalSend(QXmppPacket(data, stanza));
        pk[id].task.emplace(std::get<1>(res));
        pk[id].task->then(ctx.get(), [this, id](SendResult &&r) { onReport(id, r); });
        ev.push_back(std::get<0>(res) ? "w1" : "w0");
        if (forceDown && connected) fs->up();
        // without stream management (or for a nonza) the report is immediate; with it, it must wait for the server
        if ((en && stanza) ? pk[id].reports != 0 : pk[id].reports != 1) oracleFail(en && stanza ? "C09:report:premature" : "C09:report:missing-immediate", history);
        else oraclePass()++;
        line(op);
    }
    // a tracked request through the public API (QXmppClient::sendIq -> QXmppOutgoingClient::sendIq -> OutgoingIqManager)
    void sendIq(bool forceDown)
    {
        std::string op = std::string("sendIq ") + ud(forceDown);
        history += "{" + op + "}";
        if (forceDown && connected) fs->down();
        int id = (int)pk.size();
        bool en = sam().enabled();
        pk.push_back(Pkt { true, true, 0, 0, std::nullopt });
        if (en) { pend.push_back(id); pk[id].seq = ++myLastOut; }
        QXmppIq iq(QXmppIq::Get);
        iq.setId(QStringLiteral("P") + QString::number(id));
        iq.setTo(QStringLiteral("srv.example"));
        outstanding.push_back(id);
        c->sendIq(std::move(iq)).then(ctx.get(), [this, id](QXmppOutgoingClient::IqResult &&) {
            outstanding.erase(std::remove(outstanding.begin(), outstanding.end(), id), outstanding.end());
        });
        if (forceDown && connected) fs->up();
        line(op);
    }
    // an IQ response arriving like any other traffic (handlePacketReceived -> handleElement): it is a stanza of the session
    void recvIqResponse(char which)
    {
        bool stanzaOn = sam().enabled();
        if (stanzaOn) recvOn++;
        else if (connected) strayLegit++;
        else strayPhantom++;
        if (outstanding.empty()) {  // unsolicited response with an unknown id
            inject(docs->iq);
            line("recv i");
            return;
        }
        int id = which == 'r' ? outstanding.front() : outstanding.back();
        QByteArray sid = "P" + QByteArray::number(id);
        size_t before = outstanding.size();
        if (which == 'r')
            inject(parseDoc("<iq xmlns='jabber:client' type='result' from='srv.example' id='" + sid + "'/>"));
        else
            inject(parseDoc("<iq xmlns='jabber:client' type='error' from='srv.example' id='" + sid + "'><error type='cancel'><item-not-found xmlns='urn:ietf:params:xml:ns:xmpp-stanzas'/></error></iq>"));
        if (outstanding.size() != before - 1) { fprintf(stderr, "harness: IQ response did not finish the request\n"); exit(3); }
        stat(which == 'r' ? "iq_result_matched" : "iq_error_matched");
        line(which == 'r' ? "recv iqr" : "recv iqe");
    }
    void afterAck(long h)
    {
        // liveness half ("confirmed when acked"): everything numbered <= h is confirmed now
        for (int id : pend) if (!pk[id].iq && pk[id].seq <= h) { oracleFail("C09:ack:covered-not-confirmed", history); return; }
        // the report of a tracked IQ request goes to the IQ manager; by the property it is confirmed now
        pend.erase(std::remove_if(pend.begin(), pend.end(), [&](int id) { return pk[id].iq && pk[id].seq <= h; }), pend.end());
        oraclePass()++;
    }
    void ack(HMode m)
    {
        long h = resolveH(m);
        history += "{ack " + std::to_string(h) + "}";
        bool en = sam().enabled();
        inAckOp = en; curH = h;
        inject(docs->ack(h));
        inAckOp = false;
        if (en) afterAck(h);
        stat(m == HExact ? "ack_exact" : m == HStale ? "ack_stale" : "ack_beyond");
        line("ack " + std::to_string(h));
    }
    void req(bool forceDown)
    {
        if (forceDown && connected) fs->down();
        inject(docs->r);
        if (forceDown && connected) fs->up();
        line(std::string("req ") + ud(forceDown));
    }
    void recv(char k)
    {
        bool stanza = k != 'x';
        if (stanza) {
            if (sam().enabled()) recvOn++;
            else if (connected) strayLegit++;
            else strayPhantom++;
        }
        inject(k == 'm' ? docs->message : k == 'p' ? docs->presence : k == 'i' ? docs->iq : docs->nonza);
        line(std::string("recv ") + k);
    }
    void closed()
    {
        fs->down();
        connected = false;
        TestClient::socketDisconnected(c);
        line("closed");
    }
    void resetCache()
    {
        sam().resetCache();
        pend.erase(std::remove_if(pend.begin(), pend.end(), [&](int id) { return pk[id].iq; }), pend.end());
        if (!pend.empty()) oracleFail("C09:report:lost", history); else oraclePass()++;
        line("clearCache");
    }
    void checkResend(const std::vector<int> &expected, bool up)
    {
        std::vector<int> want = up ? expected : std::vector<int> {};
        if (wirePkts != want) oracleFail("C09:resend:wrong-set-or-order", history);
        else oraclePass()++;
        if (!want.empty()) stat("resends_nonempty");
    }
    // a new connection; the scripted server reacts to what the client writes
    void reconnectScript(Policy pol, HMode hm, bool forceDown, bool doEmit = true)
    {
        if (connected) closed();
        fs->up();
        connected = true;
        TestClient::handleStart(c);
        lastReq = None;
        inject(pol == PolN ? docs->featNoSm : docs->featSm);
        for (int guard = 0; guard < 8; guard++) {
            Req rq = lastReq;
            lastReq = None;
            if (rq == None) break;
            if (rq == Bind) {
                inject(parseDoc("<iq xmlns='jabber:client' type='result' id='" + bindId + "'><bind xmlns='urn:ietf:params:xml:ns:xmpp-bind'><jid>u@example.org/r</jid></bind></iq>"));
            } else if (rq == Resume) {
                if (doEmit) line("resumeReq u");
                if (pol == PolR) {
                    long h = resolveH(hm);
                    history += "{resumed " + std::to_string(h) + "}";
                    std::vector<int> expected;
                    for (int id : pend) if (pk[id].seq > h) expected.push_back(id);
                    if (forceDown) fs->down();
                    inAckOp = true; curH = h;
                    inject(docs->resumed(h));
                    inAckOp = false;
                    if (forceDown) fs->up();
                    afterAck(h);
                    checkResend(expected, !forceDown);
                    stat(hm == HExact ? "resumed_exact" : hm == HStale ? "resumed_stale" : "resumed_beyond");
                    line("resumed " + std::to_string(h) + " " + ud(forceDown));
                } else {
                    inject(docs->failed);
                }
            } else if (rq == Enable) {
                if (pol == PolF) {
                    inject(docs->failed);
                } else {
                    history += "{enabledNew}";
                    std::vector<int> expected = pend;
                    if (forceDown) fs->down();
                    inject(parseDoc("<enabled xmlns='urn:xmpp:sm:3' resume='true' id='sess'/>"));
                    if (forceDown) fs->up();
                    // fresh numbering 1..n in the original order
                    myLastOut = 0;
                    for (int id : pend) pk[id].seq = ++myLastOut;
                    recvOn = strayLegit = strayPhantom = 0;
                    checkResend(expected, !forceDown);
                    line(std::string("enabledNew ") + ud(forceDown));
                }
            }
        }
        if (doEmit && !ev.empty()) line("unexpected-output");
    }

    // symbols of the enumeration alphabet (resolved to concrete op lines above)
    void apply(const std::string &sym)
    {
        history += sym + " ";
        stat("sym_" + sym);
        if (sym == "s") send(true, false);
        else if (sym == "d") send(true, true);
        else if (sym == "n") send(false, false);
        else if (sym == "nd") send(false, true);
        else if (sym == "a=") ack(HExact);
        else if (sym == "a-") ack(HStale);
        else if (sym == "a+") ack(HBeyond);
        else if (sym == "q") req(false);
        else if (sym == "qd") req(true);
        else if (sym == "m" || sym == "p" || sym == "i" || sym == "x") recv(sym[0]);
        else if (sym == "I") sendIq(false);
        else if (sym == "Id") sendIq(true);
        else if (sym == "Jr") recvIqResponse('r');
        else if (sym == "Je") recvIqResponse('e');
        else if (sym == "L") { if (connected) closed(); else { history += "(already down)"; } }
        else if (sym == "E") reconnectScript(PolE, HExact, false);
        else if (sym == "Ed") reconnectScript(PolE, HExact, true);
        else if (sym == "R=") reconnectScript(PolR, HExact, false);
        else if (sym == "R-") reconnectScript(PolR, HStale, false);
        else if (sym == "R+") reconnectScript(PolR, HBeyond, false);
        else if (sym == "R-d") reconnectScript(PolR, HStale, true);
        else if (sym == "N") reconnectScript(PolN, HExact, false);
        else if (sym == "F") reconnectScript(PolF, HExact, false);
        else if (sym == "C") resetCache();
        else { fprintf(stderr, "harness: unknown symbol %s\n", sym.c_str()); exit(3); }
    }
};

static void runSeq(const std::vector<std::string> &syms, bool asSample = false)
{
    corr("reset", "ok");
    {
        Env env;
        for (auto &s : syms) env.apply(s);
        if (asSample) {
            std::string t = "symbols [";
            for (auto &s : syms) t += s + " ";
            sample(t + "] resolved ops and observations: " + env.trace);
        }
    }
    stat("sequences");
}

static long long enumerate(const std::vector<std::string> &alpha, int depth, const std::vector<std::string> &prefix = {})
{
    std::vector<size_t> idx(depth, 0);
    std::vector<std::string> cur(prefix.size() + depth);
    for (size_t i = 0; i < prefix.size(); i++) cur[i] = prefix[i];
    long long n = 0;
    for (;;) {
        for (int i = 0; i < depth; i++) cur[prefix.size() + i] = alpha[idx[i]];
        runSeq(cur);
        n++;
        int k = depth - 1;
        while (k >= 0 && ++idx[k] == alpha.size()) idx[k--] = 0;
        if (k < 0) break;
    }
    return n;
}

int main(int argc, char **argv)
{
    QCoreApplication app(argc, argv);
    Args a = parseArgs(argc, argv);
    Docs d;
    docs = &d;
    bool thorough = a.tier == "thorough";

    // corpus first: the witness of the (fixed) finding C09:h:counts-stanzas-received-without-sm and a few hand-picked histories
    runSeq({ "E", "N", "m", "R=" }, true);                // witness of the defect fixed by repo commit 6d4ec74: <resume h/> counted a stanza received on a session without SM
    runSeq({ "E", "I", "Jr", "q" }, true);                // a response to a tracked request is a stanza of the session: <a h=1/>
    runSeq({ "E", "I", "I", "Je", "L", "R=", "Jr", "q" });
    runSeq({ "E", "F", "p", "i", "q", "R-", "q" });
    runSeq({ "E", "s", "s", "s", "a-", "L", "s", "R-", "a=" }, true);
    runSeq({ "E", "s", "d", "s", "L", "E", "a-", "a=" });
    runSeq({ "s", "E", "s", "n", "a+", "s", "C", "a=" });
    runSeq({ "E", "s", "s", "R+", "s", "R=", "L", "a=", "m", "q" });

    const std::vector<std::string> core9 = { "s", "a=", "a-", "q", "m", "x", "L", "R-", "E" };
    const std::vector<std::string> core7 = { "s", "a-", "q", "m", "L", "R-", "E" };
    const std::vector<std::string> core11 = { "s", "I", "Jr", "a=", "a-", "q", "m", "x", "L", "R-", "E" };
    const std::vector<std::string> wide = { "s", "d", "n", "I", "Jr", "Je", "a=", "a-", "a+", "q", "m", "p", "i", "x", "L", "E", "R=", "R-", "R+", "N", "F", "C" };
    if (a.mode == "bench") {
        stat("exh_core9", enumerate(core9, 4));
        finish();
        return 0;
    }
    if (thorough) {
        stat("exh_core7_depth7", enumerate(core7, 7));
        stat("exh_core9_depth6", enumerate(core9, 6));
        stat("exh_core11_depth5", enumerate(core11, 5));
        stat("exh_wide22_depth4", enumerate(wide, 4));
        // from a session that already holds two stored stanzas (the second one with a failed write)
        stat("exh_prefixEsd_core9_depth6", enumerate(core9, 6, { "E", "s", "d" }));
    } else {
        stat("exh_core11_depth5", enumerate(core11, 5));
        stat("exh_wide22_depth3", enumerate(wide, 3));
        stat("exh_prefixEsd_core9_depth5", enumerate(core9, 5, { "E", "s", "d" }));
    }

    // seeded random histories up to 60 symbols, including failed writes during every kind of operation
    std::vector<std::string> rnd = wide;
    for (auto s : { "s", "s", "s", "a=", "a-", "m", "q", "nd", "qd", "Ed", "R-d", "R-", "E", "L", "I", "I", "Id", "Jr", "Jr", "Je" }) rnd.push_back(s);
    Rng rng(a.seed);
    int nrand = thorough ? 40000 : 4000;
    for (int i = 0; i < nrand; i++) {
        int len = 1 + rng.below(60);
        std::vector<std::string> syms;
        for (int j = 0; j < len; j++) syms.push_back(rnd[rng.below(rnd.size())]);
        runSeq(syms, i < 3 && len < 25);
    }
    stat("random_sequences", nrand);
    finish();
    return 0;
}
