// C09 harness: drives the real StreamAckManager of a real QXmppOutgoingClient (real XmppSocket on top of a
// QSslSocket whose writeData() is captured), including the real C2sStreamManager glue: a scripted server
// answers the client's <resume/>, bind and <enable/> requests, so `enabledNew` / `resumed h` are reached
// through handleStreamFeatures -> startSmResume/startResourceBinding/startSmEnable -> handleElement.
// Prints op/observation lines for the Lean model (Qx.Model.C09Sm) and evaluates the property itself
// (oracle, own bookkeeping, independent of the model).
#include "common.h"
#include "QXmppClient.h"
#include "QXmppClient_p.h"
#include "QXmppDiscoveryManager.h"
#include "QXmppEntityTimeManager.h"
#include "QXmppIq.h"
#include "QXmppVersionManager.h"
#include "QXmppOutgoingClient.h"
#include "QXmppOutgoingClient_p.h"
#include "QXmppPacket_p.h"
#include "QXmppStreamManagement_p.h"
#include "QXmppSendResult.h"
#include "QXmppTask.h"
#include "XmppSocket.h"
#include <QCoreApplication>
#include <QDomDocument>
#include <QSslSocket>
#include <functional>
#include <memory>

using namespace vh;
using QXmpp::SendResult;

// Access to two private counters of StreamAckManager (only used by the 2^32 wrap probe): explicit template
// instantiation may name private members, so nothing in /repo is patched.
template<typename Tag, typename Tag::type M> struct PrivAccess { friend typename Tag::type get(Tag) { return M; } };
struct TagLastOut { typedef unsigned int QXmpp::Private::StreamAckManager::*type; friend type get(TagLastOut); };
struct TagLastIn { typedef unsigned int QXmpp::Private::StreamAckManager::*type; friend type get(TagLastIn); };
template struct PrivAccess<TagLastOut, &QXmpp::Private::StreamAckManager::m_lastOutgoingSequenceNumber>;
template struct PrivAccess<TagLastIn, &QXmpp::Private::StreamAckManager::m_lastIncomingSequenceNumber>;

// ------------------------------------------------------------------ fake transport under the real XmppSocket
class FakeSock : public QSslSocket
{
public:
    std::function<void(const QByteArray &)> sink;
    void up()
    {
        setOpenMode(QIODevice::ReadWrite);
        setSocketState(QAbstractSocket::ConnectedState);
    }
    void down() { setSocketState(QAbstractSocket::UnconnectedState); }

protected:
    qint64 writeData(const char *d, qint64 n) override
    {
        if (sink) sink(QByteArray(d, int(n)));
        return n;
    }
};

// the library declares `friend class TestClient;` in QXmppOutgoingClient: private entry points without patching
class TestClient
{
public:
    static QXmppOutgoingClientPrivate *priv(QXmppOutgoingClient *c) { return c->d.get(); }
    static QXmppOutgoingClient *stream(QXmppClient *c) { return c->d->stream; }
    static QXmppClientPrivate *cpriv(QXmppClient *c) { return c->d.get(); }
    static void handleStart(QXmppOutgoingClient *c) { c->handleStart(); }
    static void received(QXmppOutgoingClient *c, const QDomElement &e) { c->handlePacketReceived(e); }
    static void socketDisconnected(QXmppOutgoingClient *c) { c->_q_socketDisconnected(); }
};

static QDomDocument parseDoc(const QByteArray &xml)
{
    QDomDocument d;
    if (!d.setContent(xml, true)) {
        fprintf(stderr, "harness: bad xml %s\n", xml.constData());
        exit(3);
    }
    return d;
}

static const char *NS_SM = "urn:xmpp:sm:3";

struct Docs {
    QDomDocument featSm = parseDoc("<stream:features xmlns:stream='http://etherx.jabber.org/streams'><bind xmlns='urn:ietf:params:xml:ns:xmpp-bind'/><sm xmlns='urn:xmpp:sm:3'/></stream:features>");
    QDomDocument featSasl2 = parseDoc("<stream:features xmlns:stream='http://etherx.jabber.org/streams'><authentication xmlns='urn:xmpp:sasl:2'><mechanism>PLAIN</mechanism><inline><bind xmlns='urn:xmpp:bind:0'><inline><feature var='urn:xmpp:sm:3'/></inline></bind><sm xmlns='urn:xmpp:sm:3'/></inline></authentication></stream:features>");
    QDomDocument featSasl2NoSm = parseDoc("<stream:features xmlns:stream='http://etherx.jabber.org/streams'><authentication xmlns='urn:xmpp:sasl:2'><mechanism>PLAIN</mechanism><inline><bind xmlns='urn:xmpp:bind:0'/></inline></authentication></stream:features>");
    QDomDocument featEmpty = parseDoc("<stream:features xmlns:stream='http://etherx.jabber.org/streams'/>");
    QDomDocument featNoSm = parseDoc("<stream:features xmlns:stream='http://etherx.jabber.org/streams'><bind xmlns='urn:ietf:params:xml:ns:xmpp-bind'/></stream:features>");
    QDomDocument r = parseDoc("<r xmlns='urn:xmpp:sm:3'/>");
    QDomDocument failed = parseDoc("<failed xmlns='urn:xmpp:sm:3'><item-not-found xmlns='urn:ietf:params:xml:ns:xmpp-stanzas'/></failed>");
    QDomDocument message = parseDoc("<message xmlns='jabber:client' from='a@b/c' type='chat'><body>x</body></message>");
    QDomDocument presence = parseDoc("<presence xmlns='jabber:client' from='a@b/c'/>");
    QDomDocument iq = parseDoc("<iq xmlns='jabber:client' from='a@b/c' type='result' id='zz9'/>");
    QDomDocument nonza = parseDoc("<nz xmlns='urn:verif:nonza'/>");
    std::map<long, QDomDocument> acks, resumeds;
    const QDomDocument &ack(long h)
    {
        auto it = acks.find(h);
        if (it == acks.end()) it = acks.emplace(h, parseDoc("<a xmlns='urn:xmpp:sm:3' h='" + QByteArray::number(qlonglong(h)) + "'/>")).first;
        return it->second;
    }
    const QDomDocument &resumed(long h)
    {
        auto it = resumeds.find(h);
        if (it == resumeds.end()) it = resumeds.emplace(h, parseDoc("<resumed xmlns='urn:xmpp:sm:3' previd='sess' h='" + QByteArray::number(qlonglong(h)) + "'/>")).first;
        return it->second;
    }
};
static Docs *docs;

enum Policy { PolE, PolR, PolN, PolF };  // server: refuse resume+accept enable | accept resume (else enable) | no SM offered | refuse both
enum HMode { HExact, HStale, HBeyond, HNone };
struct Rc {              // one reconnect scenario
    Policy pol = PolE;
    HMode hm = HExact;   // h of <resumed/>
    bool forceDown = false;
    bool sasl2 = false;  // SASL2 with inline <resume/> / Bind2 inline <enable/> instead of the classic post-authentication negotiation
    bool reent = false;  // delivery reports fired while <resumed/> is processed send one new stanza each
    HMode failedH = HNone;  // h attribute of <failed/> answering <resume/> (XEP-0198 5.: the server's handled count)
};

struct Pkt {
    bool stanza = false;
    bool nested = false;  // sent from inside a delivery report
    bool iq = false;  // report not observable: tracked request (sendIq(), report consumed by the IQ manager) or a stanza the client sends by itself
    int reports = 0;
    long seq = 0;  // oracle's own numbering (0 = never stored)
    std::optional<QXmppTask<SendResult>> task;
};

struct Env {
    std::unique_ptr<QObject> ctx { new QObject };
    QXmppClient *client = nullptr;   // a real QXmppClient with the managers that answer requests by themselves
    QXmppOutgoingClient *c = nullptr;
    bool autoCreated = false;        // the client created a stanza of its own (initial presence) during the current injection
    FakeSock *fs = nullptr;
    std::vector<std::string> ev;  // events of the current op (wire tokens, reports, w0/w1) in real-time order
    std::vector<int> wirePkts;    // packet labels written during the current op
    enum Req { None, Resume, Bind, Enable, Sasl2Auth } lastReq = None;
    QByteArray bindId;
    bool authHasResume = false, authHasEnable = false;
    std::function<void()> onSmEnabledLog;  // boundary inside one injected <success/>: "Stream management enabled" is logged first thing in onEnabled
    bool connected = false;
    bool tearing = false;
    // ---- oracle bookkeeping (independent of the Lean model)
    std::vector<Pkt> pk;
    std::vector<int> pend;      // stored while SM was on and not yet reported, in send order
    long myLastOut = 0;
    long recvOn = 0, strayLegit = 0, strayPhantom = 0;  // stanzas injected since the last <enabled/>
    bool inAckOp = false;
    long curH = 0;
    bool reentOnDisc = false;      // ... also the continuations of "disconnected" reports (resetCache)
    bool reentArmed = false;       // the current op fires reports whose continuation sends a stanza
    std::vector<int> nestedNow;    // packets sent from inside reports during the current op
    std::vector<int> coveredByFailed;  // pending packets the server declared handled in <failed h/>
    // what an honest server has counted on the current session (independent of the client's numbering)
    bool srvOn = false, srvValid = false, dirty = false;
    long srvCount = 0, srvCountAtLoss = 0, srvLastAck = 0;
    std::vector<int> outstanding;  // tracked IQ requests whose IqResult task has not finished, oldest first
    std::string history;
    std::string trace;  // op => observation, for the evidence samples
    bool mute = false;  // wrap probe: nothing is sent to the model driver (the model's counters are unbounded)

    QXmpp::Private::StreamAckManager &sam() { return c->streamAckManager(); }

    explicit Env(bool muted = false) : mute(muted)
    {
        client = new QXmppClient(QXmppClient::NoExtensions);
        client->addNewExtension<QXmppVersionManager>();
        client->addNewExtension<QXmppEntityTimeManager>();
        client->addNewExtension<QXmppDiscoveryManager>();
        c = TestClient::stream(client);
        fs = new FakeSock;
        fs->setParent(c);
        fs->sink = [this](const QByteArray &d) { onWrite(d); };
        TestClient::priv(c)->socket.setSocket(fs);
        // an "extension" that accepts our nonza (otherwise the client treats it as a protocol error and disconnects)
        QObject::connect(c, &QXmppOutgoingClient::elementReceived, ctx.get(), [](const QDomElement &e, bool &handled) {
            if (e.namespaceURI() == QStringLiteral("urn:verif:nonza")) handled = true;
        });
        QObject::connect(c, &QXmppLoggable::logMessage, ctx.get(), [this](QXmppLogger::MessageType, const QString &t) {
            if (onSmEnabledLog && t.contains(QStringLiteral("Stream management enabled"))) { auto f = std::move(onSmEnabledLog); onSmEnabledLog = nullptr; f(); }
        });
        c->configuration().setJid(QStringLiteral("u@example.org"));
        c->configuration().setPassword(QStringLiteral("pw"));
        c->configuration().setDisabledSaslMechanisms({});
        Rc init; init.pol = PolN;
        reconnectScript(init, false);  // initial connection: session without stream management
        ev.clear();
        wirePkts.clear();
    }
    ~Env()
    {
        tearing = true;
        fs->down();
        delete client;  // ~QXmppOutgoingClient -> resetCache(): every pending packet gets its (single) report
        for (size_t i = 0; i < pk.size(); i++) {
            if (pk[i].iq) continue;
            if (!pk[i].task) continue;
            if (pk[i].reports != 1) oracleFail(pk[i].reports == 0 ? "C09:report:lost" : "C09:report:twice", history + " [teardown P" + std::to_string(i) + "]");
            else oraclePass()++;
        }
    }

    static std::string attr(const QByteArray &d, const char *name)
    {
        QByteArray pat = QByteArray(" ") + name + "=";
        int i = d.indexOf(pat);
        if (i < 0) return "";
        i += pat.size();
        char q = d[i];
        int j = d.indexOf(q, i + 1);
        return d.mid(i + 1, j - i - 1).toStdString();
    }

    void onWrite(const QByteArray &d)
    {
        if (d.startsWith("<?xml") || d.startsWith("<stream:stream")) return;  // stream header: not SM relevant
        std::string wid = (d.startsWith("<iq ") || d.startsWith("<presence ")) ? attr(d, "id") : std::string();
        bool own = d.startsWith("<message id='P") || d.startsWith("<nz id='P");
        // P<n>: sendIq request, G<n>: reply to the request we injected with that id, A<n>: the client's initial presence
        bool labelled = wid.size() > 1 && (wid[0] == 'P' || wid[0] == 'G' || wid[0] == 'A') && wid.find_first_not_of("0123456789", 1) == std::string::npos;
        if (own || labelled) {
            int id = atoi((own ? attr(d, "id") : wid).c_str() + 1);
            if (labelled && wid[0] == 'A' && id == (int)pk.size()) {
                // first transmission of an initial presence: the client has created a stanza by itself
                bool en = sam().enabled();
                pk.push_back(Pkt { true, false, true, 0, 0, std::nullopt });
                if (en) { pend.push_back(id); pk[id].seq = ++myLastOut; }
                autoCreated = true;
                stat("auto_initial_presence");
            }
            ev.push_back("P" + std::to_string(id));
            wirePkts.push_back(id);
            if (srvOn && !d.startsWith("<nz")) srvCount++;  // the server counts every stanza it receives on the session
            if (id >= 0 && id < (int)pk.size() && pk[id].reports > 0) oracleFail("C09:resend:after-report", history);
            return;
        }
        if (d.startsWith("<r xmlns=")) { ev.push_back("r"); return; }
        if (d.startsWith("<a xmlns=")) { long k = atol(attr(d, "h").c_str()); ev.push_back("a" + std::to_string(k)); checkH(k, "a"); return; }
        if (d.startsWith("<resume ")) { long k = atol(attr(d, "h").c_str()); ev.push_back("resume" + std::to_string(k)); checkH(k, "resume"); lastReq = Resume; return; }
        if (d.startsWith("<enable ")) { lastReq = Enable; return; }
        if (d.startsWith("<authenticate ")) {
            int i = d.indexOf("<resume ");
            authHasResume = i >= 0;
            authHasEnable = d.contains("<enable ");
            if (authHasResume) { long k = atol(attr(d.mid(i), "h").c_str()); ev.push_back("resume" + std::to_string(k)); checkH(k, "resume"); }
            lastReq = Sasl2Auth;
            return;
        }
        if (d.startsWith("<iq ") && d.contains("xmpp-bind")) { bindId = QByteArray::fromStdString(attr(d, "id")); lastReq = Bind; return; }
        ev.push_back("?" + hex((const unsigned char *)d.constData(), std::min<size_t>(d.size(), 16)));
    }

    // property: the reported h equals the number of message/presence/iq stanzas received on that session,
    // i.e. while stream management was on since the last <enabled/> (recvOn). Judged on the implementation alone.
    void checkH(long k, const char *what)
    {
        const long M = 4294967296L;  // XEP-0198 counts modulo 2^32
        if (k == recvOn % M) { oraclePass()++; return; }
        if (k == (recvOn + strayLegit + strayPhantom) % M) {
            // the counter also ran while stream management was off
            if (strayLegit > 0) oracleFail("C09:h:counts-stanzas-received-without-sm", history);  // legitimate history: session without SM
            else oraclePass()++;  // only stanzas injected with no connection at all: not a legitimate input, not judged
            return;
        }
        oracleFail(std::string("C09:h:wrong-") + what, history);
    }

    void onReport(int id, const SendResult &r)
    {
        std::string kind;
        bool acked = false;
        if (auto *ok = std::get_if<QXmpp::SendSuccess>(&r)) { acked = ok->acknowledged; kind = acked ? "ack" : "sent"; }
        else {
            auto e = std::get<QXmppError>(r).value<QXmpp::SendError>();
            kind = !e ? "eother" : *e == QXmpp::SendError::SocketWriteError ? "ewrite" : *e == QXmpp::SendError::Disconnected ? "edisc" : "eother";
        }
        if (!tearing) ev.push_back("P" + std::to_string(id) + "!" + kind);
        pk[id].reports++;
        if (pk[id].reports > 1) { oracleFail("C09:report:twice", history); return; }
        if (acked) {
            // acknowledged only while an <a h/> or <resumed h/> is being processed, and only if h covers the packet's number
            // ... or later, if <failed h/> had declared it handled
            bool byFailedH = std::find(coveredByFailed.begin(), coveredByFailed.end(), id) != coveredByFailed.end();
            if (!byFailedH && (!inAckOp || pk[id].seq == 0 || pk[id].seq > curH)) oracleFail("C09:ack:not-covered", history);
            else oraclePass()++;
        }
        pend.erase(std::remove(pend.begin(), pend.end(), id), pend.end());
        // a client whose delivery-report continuation sends the next stanza (depth one: nested packets do not nest again)
        if ((acked || (kind == "edisc" && reentOnDisc)) && reentArmed && !pk[id].nested && !tearing) nestedSend();
    }
    void nestedSend()
    {
        int id = (int)pk.size();
        bool en = sam().enabled();
        QByteArray data = "<message id='P" + QByteArray::number(id) + "'/>";
        pk.push_back(Pkt { true, true, false, 0, 0, std::nullopt });
        if (en) { pend.push_back(id); pk[id].seq = ++myLastOut; }
        nestedNow.push_back(id);
        stat(en ? "nested_send_numbered" : "nested_send_unnumbered");
        auto res = sam().internalSend(QXmppPacket(data, true));
        pk[id].task.emplace(std::get<1>(res));
        pk[id].task->then(ctx.get(), [this, id](SendResult &&r) { onReport(id, r); });
        ev.push_back(std::get<0>(res) ? "w1" : "w0");
    }
    // ids whose delivery report has an observable continuation (not tracked IQs, not nested packets), for the op line
    std::string armedList() const
    {
        std::string l;
        for (int id : pend) if (!pk[id].iq && !pk[id].nested) l += (l.empty() ? "" : ".") + std::to_string(id);
        return l.empty() ? "-" : l;
    }
    // honest-server view: after every operation whose writes all succeeded the client's numbering equals the server's count
    void checkServerCount()
    {
        if (!srvOn || !srvValid || dirty || !connected) return;
        // the client's numbering is read from the real object (private counter, explicit-instantiation access), so a stanza
        // that reaches the wire without passing through stream management is seen here
        long real = (long)(sam().*get(TagLastOut()));
        if (srvCount != real || srvCount != myLastOut) { oracleFail("C09:numbering:server-count-diverges", history); srvValid = false; }
        else oraclePass()++;
    }

    std::string flushObs()
    {
        std::string e;
        for (size_t i = 0; i < ev.size(); i++) { if (i) e += ","; e += ev[i]; }
        if (e.empty()) e = "-";
        ev.clear();
        wirePkts.clear();
        nestedNow.clear();
        // a second reportFinished() after the continuation ran would leave a stored result behind
        for (size_t i = 0; i < pk.size(); i++)
            if (pk[i].reports > 0 && pk[i].task && pk[i].task->hasResult()) oracleFail("C09:report:twice", history + " [second finish on P" + std::to_string(i) + "]");
        return e + "|e" + (sam().enabled() ? "1" : "0") + " i" + std::to_string(sam().lastIncomingSequenceNumber());
    }
    void line(const std::string &op) { lineObs(op, flushObs()); }
    void inject(const QDomDocument &d) { TestClient::received(c, d.documentElement()); }
    long resolveH(HMode m) const { return m == HExact ? myLastOut : m == HStale ? (myLastOut > 0 ? myLastOut - 1 : 0) : myLastOut + 1; }
    const char *ud(bool forceDown) const { return connected && !forceDown ? "u" : "d"; }

    // ---------------------------------------------------------------- operations
    void send(bool stanza, bool forceDown)
    {
        std::string op = std::string("send ") + (stanza ? "s " : "n ") + ud(forceDown);
        history += "{" + op + "}";
        if (forceDown && connected) fs->down();
        int id = (int)pk.size();
        bool en = sam().enabled();
        QByteArray data = (stanza ? "<message id='P" : "<nz id='P") + QByteArray::number(id) + "'/>";
        pk.push_back(Pkt { stanza, false, false, 0, 0, std::nullopt });
        if (en && stanza) { pend.push_back(id); pk[id].seq = ++myLastOut; if (!(connected && !forceDown)) dirty = true; }
        auto res = sam().internalSend(QXmppPacket(data, stanza));
        pk[id].task.emplace(std::get<1>(res));
        pk[id].task->then(ctx.get(), [this, id](SendResult &&r) { onReport(id, r); });
        ev.push_back(std::get<0>(res) ? "w1" : "w0");
        if (forceDown && connected) fs->up();
        // without stream management (or for a nonza) the report is immediate; with it, it must wait for the server
        if ((en && stanza) ? pk[id].reports != 0 : pk[id].reports != 1) oracleFail(en && stanza ? "C09:report:premature" : "C09:report:missing-immediate", history);
        else oraclePass()++;
        checkServerCount();
        line(op);
    }
    // a tracked request through the public API (QXmppClient::sendIq -> QXmppOutgoingClient::sendIq -> OutgoingIqManager)
    void sendIq(bool forceDown)
    {
        std::string op = std::string("sendIq ") + ud(forceDown);
        history += "{" + op + "}";
        if (forceDown && connected) fs->down();
        int id = (int)pk.size();
        bool en = sam().enabled();
        pk.push_back(Pkt { true, false, true, 0, 0, std::nullopt });
        if (en) { pend.push_back(id); pk[id].seq = ++myLastOut; if (!(connected && !forceDown)) dirty = true; }
        QXmppIq iq(QXmppIq::Get);
        iq.setId(QStringLiteral("P") + QString::number(id));
        iq.setTo(QStringLiteral("srv.example"));
        outstanding.push_back(id);
        c->sendIq(std::move(iq)).then(ctx.get(), [this, id](QXmppOutgoingClient::IqResult &&) {
            outstanding.erase(std::remove(outstanding.begin(), outstanding.end(), id), outstanding.end());
        });
        if (forceDown && connected) fs->up();
        checkServerCount();
        line(op);
    }
    // an IQ response arriving like any other traffic (handlePacketReceived -> handleElement): it is a stanza of the session
    void recvIqResponse(char which)
    {
        bool stanzaOn = sam().enabled();
        if (stanzaOn) recvOn++;
        else if (connected) strayLegit++;
        else strayPhantom++;
        if (outstanding.empty()) {  // unsolicited response with an unknown id
            inject(docs->iq);
            line("recv i");
            return;
        }
        int id = which == 'r' ? outstanding.front() : outstanding.back();
        QByteArray sid = "P" + QByteArray::number(id);
        size_t before = outstanding.size();
        if (which == 'r')
            inject(parseDoc("<iq xmlns='jabber:client' type='result' from='srv.example' id='" + sid + "'/>"));
        else
            inject(parseDoc("<iq xmlns='jabber:client' type='error' from='srv.example' id='" + sid + "'><error type='cancel'><item-not-found xmlns='urn:ietf:params:xml:ns:xmpp-stanzas'/></error></iq>"));
        if (outstanding.size() != before - 1) { fprintf(stderr, "harness: IQ response did not finish the request\n"); exit(3); }
        stat(which == 'r' ? "iq_result_matched" : "iq_error_matched");
        line(which == 'r' ? "recv iqr" : "recv iqe");
    }
    // server -> client traffic that makes the CLIENT send by itself: an IQ request. 'u' = nobody handles it (QXmppOutgoingClient
    // answers feature-not-implemented), 'v' / 't' / 'i' = answered by QXmppVersionManager / QXmppEntityTimeManager / QXmppDiscoveryManager
    void recvReq(char kind, bool forceDown)
    {
        std::string op = std::string("recvReq ") + ud(forceDown);
        history += "{" + op + " " + kind + "}";
        if (sam().enabled()) recvOn++;
        else if (connected) strayLegit++;
        else strayPhantom++;
        int id = (int)pk.size();
        bool en = sam().enabled();
        pk.push_back(Pkt { true, false, true, 0, 0, std::nullopt });
        if (en) { pend.push_back(id); pk[id].seq = ++myLastOut; if (!(connected && !forceDown)) dirty = true; }
        QByteArray payload = kind == 'v' ? "<query xmlns='jabber:iq:version'/>" : kind == 't' ? "<time xmlns='urn:xmpp:time'/>"
            : kind == 'i' ? "<query xmlns='http://jabber.org/protocol/disco#info'/>" : "<q xmlns='urn:verif:nobody'/>";
        if (forceDown && connected) fs->down();
        inject(parseDoc("<iq xmlns='jabber:client' type='get' from='srv.example' to='u@example.org/r' id='G" + QByteArray::number(id) + "'>" + payload + "</iq>"));
        if (forceDown && connected) fs->up();
        stat(std::string("auto_reply_") + kind);
        checkServerCount();
        line(op);
    }
    void afterAck(long h)
    {
        // liveness half ("confirmed when acked"): everything numbered <= h is confirmed now
        // (a stanza a continuation sent while this very element was processed cannot have been handled by the server yet)
        for (int id : pend)
            if (!pk[id].iq && pk[id].seq <= h && std::find(nestedNow.begin(), nestedNow.end(), id) == nestedNow.end()) { oracleFail("C09:ack:covered-not-confirmed", history); return; }
        // the report of a tracked IQ request goes to the IQ manager; by the property it is confirmed now
        pend.erase(std::remove_if(pend.begin(), pend.end(), [&](int id) { return pk[id].iq && pk[id].seq <= h; }), pend.end());
        oraclePass()++;
    }
    void ack(HMode m, bool reent = false)
    {
        long h = resolveH(m);
        std::string op = "ack " + std::to_string(h);
        if (reent) op += " r" + armedList() + " " + ud(false);
        history += "{" + op + "}";
        bool en = sam().enabled();
        if (en && srvOn) { if (h > srvCount || h < srvLastAck) srvValid = false; else srvLastAck = h; }
        inAckOp = en; curH = h; reentArmed = reent;
        inject(docs->ack(h));
        inAckOp = false; reentArmed = false;
        if (en) afterAck(h);
        // a stanza sent from a report while <a/> is processed is newer traffic: numbered after everything stored
        for (int id : nestedNow) if (pk[id].seq == 0 && en) oracleFail("C09:reentrant-send:not-numbered", history);
        checkServerCount();
        stat(m == HExact ? "ack_exact" : m == HStale ? "ack_stale" : "ack_beyond");
        if (reent) stat("ack_reentrant");
        line(op);
    }
    void req(bool forceDown)
    {
        if (forceDown && connected) fs->down();
        inject(docs->r);
        if (forceDown && connected) fs->up();
        line(std::string("req ") + ud(forceDown));
    }
    void recv(char k)
    {
        bool stanza = k != 'x';
        if (stanza) {
            if (sam().enabled()) recvOn++;
            else if (connected) strayLegit++;
            else strayPhantom++;
        }
        inject(k == 'm' ? docs->message : k == 'p' ? docs->presence : k == 'i' ? docs->iq : docs->nonza);
        line(std::string("recv ") + k);
    }
    void closed()
    {
        fs->down();
        connected = false;
        if (srvOn) { srvOn = false; srvCountAtLoss = srvCount; }
        TestClient::socketDisconnected(c);
        line("closed");
    }
    void resetCache(bool reent = false)
    {
        std::string armed = armedList();
        reentArmed = reentOnDisc = reent;
        sam().resetCache();
        reentArmed = reentOnDisc = false;
        // every stanza sent from a report must itself get a report (stored and reported later, or at once)
        for (int id : nestedNow)
            if (pk[id].reports == 0 && std::find(pend.begin(), pend.end(), id) == pend.end()) { oracleFail("C09:report:lost-sent-during-resetCache", history); break; }
        srvValid = false;  // what was dropped can no longer be retransmitted: the two counts are not comparable afterwards
        pend.erase(std::remove_if(pend.begin(), pend.end(), [&](int id) { return pk[id].iq; }), pend.end());
        if (!pend.empty()) oracleFail("C09:report:lost", history); else oraclePass()++;
        line(reent ? "clearCache r" + armed + " " + ud(false) : std::string("clearCache"));
    }
    // what the op must put on the wire: the stored packets to transmit again, in order, then newer traffic (stanzas the
    // delivery reports of this op sent)
    void checkResend(const std::vector<int> &expected, bool up)
    {
        std::vector<int> want = up ? expected : std::vector<int> {};
        std::vector<int> good = want, newerFirst;
        if (up) {
            good.insert(good.end(), nestedNow.begin(), nestedNow.end());
            newerFirst = nestedNow;
            newerFirst.insert(newerFirst.end(), want.begin(), want.end());
        }
        if (wirePkts == good) oraclePass()++;
        else if (!nestedNow.empty() && wirePkts == newerFirst) oracleFail("C09:resend:newer-traffic-before-resent", history);
        else oracleFail("C09:resend:wrong-set-or-order", history);
        if (!want.empty()) stat("resends_nonempty");
    }
    void lineObs(const std::string &op, const std::string &o)
    {
        history += op + ";";
        stat("op_" + op.substr(0, op.find(' ')));
        if (trace.size() < 560) trace += op + " => " + o + " ; ";
        if (!mute) corr(op, o);
    }

    // ---- <resumed h/> (classic: own element; SASL2: inside <success/>)
    struct ResumedCtx { long h; std::vector<int> expected; std::string armed; };
    ResumedCtx preResumed(const Rc &rc)
    {
        ResumedCtx x;
        x.h = resolveH(rc.hm);
        history += "{resumed " + std::to_string(x.h) + "}";
        for (int id : pend) if (pk[id].seq > x.h) x.expected.push_back(id);
        x.armed = armedList();
        // an honest server reports what it received before the connection dropped (possibly less than was written)
        if (srvValid && !(x.h <= srvCountAtLoss && x.h >= srvLastAck)) srvValid = false;
        srvOn = true; srvCount = x.h; srvLastAck = x.h;
        dirty = rc.forceDown;
        if (rc.forceDown) fs->down();
        inAckOp = true; curH = x.h; reentArmed = rc.reent;
        coveredByFailed.clear();
        return x;
    }
    void postResumed(const Rc &rc, const ResumedCtx &x)
    {
        inAckOp = false; reentArmed = false;
        if (rc.forceDown) fs->up();
        afterAck(x.h);
        checkResend(x.expected, !rc.forceDown);
        // the session is resumed: a stanza sent from a report is traffic of that session and must be numbered
        for (int id : nestedNow) if (pk[id].seq == 0) { oracleFail("C09:reentrant-send:not-numbered", history); break; }
        checkServerCount();
        stat(rc.hm == HExact ? "resumed_exact" : rc.hm == HStale ? "resumed_stale" : "resumed_beyond");
        if (rc.reent) stat("resumed_reentrant");
        if (rc.sasl2) stat("resumed_inline_sasl2");
        line("resumed " + std::to_string(x.h) + (rc.reent ? " r" + x.armed : "") + " " + ud(rc.forceDown));
    }
    // ---- <failed [h]/> answering <resume/>
    QByteArray failedXml(const Rc &rc, std::string &opOut)
    {
        if (rc.failedH == HNone) { opOut = "resumeFailed -"; return "<failed xmlns='urn:xmpp:sm:3'><item-not-found xmlns='urn:ietf:params:xml:ns:xmpp-stanzas'/></failed>"; }
        long h = resolveH(rc.failedH);
        opOut = "resumeFailed " + std::to_string(h);
        // XEP-0198: the server tells how many stanzas of the dead session it handled: those are covered
        coveredByFailed.clear();
        for (int id : pend) if (pk[id].seq > 0 && pk[id].seq <= h) coveredByFailed.push_back(id);
        inAckOp = true; curH = h;
        stat("failed_with_h");
        return "<failed xmlns='urn:xmpp:sm:3' h='" + QByteArray::number(qlonglong(h)) + "'><item-not-found xmlns='urn:ietf:params:xml:ns:xmpp-stanzas'/></failed>";
    }
    // ---- <enabled/> (classic: own element; Bind2: inside <bound/>)
    struct EnabledCtx { std::vector<int> all, uncovered; std::string armed; };
    EnabledCtx preEnabled(const Rc &rc)
    {
        history += "{enabledNew}";
        EnabledCtx x;
        x.all = pend;
        x.armed = armedList();
        reentArmed = rc.reent;
        for (int id : pend) if (std::find(coveredByFailed.begin(), coveredByFailed.end(), id) == coveredByFailed.end()) x.uncovered.push_back(id);
        srvOn = true; srvValid = true; srvCount = 0; srvLastAck = 0;
        dirty = rc.forceDown;
        return x;
    }
    void postEnabled(const Rc &rc, const EnabledCtx &x)
    {
        // "covered ones are never resent": what <failed h/> declared handled must not be transmitted again on the new session
        reentArmed = false;
        bool up = !rc.forceDown;
        if (up && x.all != x.uncovered && wirePkts.size() >= x.all.size() && std::equal(x.all.begin(), x.all.end(), wirePkts.begin())) {
            oracleFail("C09:resend:covered-by-failed-h", history);
            checkResend(x.all, up);
        } else {
            checkResend(x.uncovered, up);
            // a covered tracked IQ request is confirmed now; its report goes to the IQ manager (not observable)
            pend.erase(std::remove_if(pend.begin(), pend.end(), [&](int id) {
                return pk[id].iq && std::find(coveredByFailed.begin(), coveredByFailed.end(), id) != coveredByFailed.end(); }), pend.end());
        }
        coveredByFailed.clear();
        // fresh numbering 1..n in the original order (of what is still pending)
        myLastOut = 0;
        for (int id : pend) if (std::find(nestedNow.begin(), nestedNow.end(), id) == nestedNow.end()) pk[id].seq = ++myLastOut;
        for (int id : nestedNow) if (pk[id].seq) pk[id].seq = ++myLastOut;
        recvOn = strayLegit = strayPhantom = 0;
        checkServerCount();
        if (rc.sasl2) stat("enabled_inline_bind2");
        // a stanza sent from a report while <enabled/> is processed belongs to the new session: numbered
        for (int id : nestedNow) if (pk[id].seq == 0) { oracleFail("C09:reentrant-send:not-numbered", history); break; }
        if (rc.reent) stat("enabled_reentrant");
        line(std::string("enabledNew ") + (rc.reent ? "r" + x.armed + " " : "") + ud(rc.forceDown));
    }

    // a new connection; the scripted server reacts to what the client writes
    void reconnectScript(const Rc &rc, bool doEmit = true)
    {
        if (connected) closed();
        fs->up();
        connected = true;
        TestClient::handleStart(c);
        lastReq = None;
        autoCreated = false;
        if (rc.sasl2) inject(rc.pol == PolN ? docs->featSasl2NoSm : docs->featSasl2);
        else inject(rc.pol == PolN ? docs->featNoSm : docs->featSm);
        for (int guard = 0; guard < 8; guard++) {
            Req rq = lastReq;
            lastReq = None;
            if (rq == None) break;
            if (rq == Bind) {
                inject(parseDoc("<iq xmlns='jabber:client' type='result' id='" + bindId + "'><bind xmlns='urn:ietf:params:xml:ns:xmpp-bind'><jid>u@example.org/r</jid></bind></iq>"));
            } else if (rq == Resume) {
                if (doEmit) line("resumeReq u");
                if (rc.pol == PolR) {
                    auto x = preResumed(rc);
                    inject(docs->resumed(x.h));
                    postResumed(rc, x);
                } else {
                    std::string op;
                    QByteArray f = failedXml(rc, op);
                    inject(parseDoc(f));
                    inAckOp = false;
                    line(op);
                }
            } else if (rq == Enable) {
                if (rc.pol == PolF) {
                    inject(docs->failed);
                } else {
                    auto ex = preEnabled(rc);
                    if (rc.forceDown) fs->down();
                    inject(parseDoc("<enabled xmlns='urn:xmpp:sm:3' resume='true' id='sess'/>"));
                    if (rc.forceDown) fs->up();
                    postEnabled(rc, ex);
                }
            } else if (rq == Sasl2Auth) {
                // SASL2: <resume/> travels inside <authenticate/>, Bind2 carries <enable/>; the answers come inside <success/>
                bool hasResume = authHasResume, hasEnable = authHasEnable;
                if (hasResume && doEmit) line("resumeReq u");
                QByteArray x = "<success xmlns='urn:xmpp:sasl:2'><authorization-identifier>u@example.org/r</authorization-identifier>";
                if (rc.pol == PolR && hasResume) {
                    auto r = preResumed(rc);
                    inject(parseDoc(x + "<resumed xmlns='urn:xmpp:sm:3' previd='sess' h='" + QByteArray::number(qlonglong(r.h)) + "'/></success>"));
                    postResumed(rc, r);
                } else {
                    std::string failedOp, failedObs;
                    bool enabledPart = hasEnable && rc.pol != PolF;
                    if (hasResume) x += failedXml(rc, failedOp);
                    x += "<bound xmlns='urn:xmpp:bind:0'>";
                    if (hasEnable) x += rc.pol == PolF ? QByteArray("<failed xmlns='urn:xmpp:sm:3'/>") : QByteArray("<enabled xmlns='urn:xmpp:sm:3' resume='true' id='sess'/>");
                    x += "</bound></success>";
                    EnabledCtx ex;
                    if (enabledPart) {
                        // both answers are processed inside one call: split the observation where onEnabled() starts
                        onSmEnabledLog = [&, this]() {
                            inAckOp = false;
                            failedObs = flushObs();
                            ex = preEnabled(rc);
                            if (rc.forceDown) fs->down();
                        };
                    }
                    inject(parseDoc(x));
                    if (enabledPart && onSmEnabledLog) { fprintf(stderr, "harness: <enabled/> inside <bound/> was not processed\n"); exit(3); }
                    if (enabledPart) {
                        if (rc.forceDown) fs->up();
                        if (hasResume) lineObs(failedOp, failedObs);
                        else if (failedObs.substr(0, 2) != "-|") lineObs("unexpected-output", failedObs);
                        postEnabled(rc, ex);
                    } else {
                        inAckOp = false;
                        if (hasResume) line(failedOp);
                    }
                    // the features of the authenticated stream: nothing left to negotiate -> the session opens; QXmppClient sends its
                    // initial presence by itself (id chosen here so that the stanza can be recognised on the wire)
                    TestClient::cpriv(client)->clientPresence.setId(QStringLiteral("A") + QString::number(pk.size()));
                    inject(docs->featEmpty);
                    if (autoCreated) { autoCreated = false; checkServerCount(); if (doEmit) line("auto u"); }
                }
            }
        }
        if (doEmit && !ev.empty()) line("unexpected-output");
    }

    // symbols of the enumeration alphabet (resolved to concrete op lines above)
    void apply(const std::string &sym)
    {
        history += sym + " ";
        stat("sym_" + sym);
        if (sym == "s") send(true, false);
        else if (sym == "d") send(true, true);
        else if (sym == "n") send(false, false);
        else if (sym == "nd") send(false, true);
        else if (sym == "a=") ack(HExact);
        else if (sym == "a-") ack(HStale);
        else if (sym == "a+") ack(HBeyond);
        else if (sym == "q") req(false);
        else if (sym == "qd") req(true);
        else if (sym == "m" || sym == "p" || sym == "i" || sym == "x") recv(sym[0]);
        else if (sym == "G") recvReq('u', false);
        else if (sym == "Gv") recvReq('v', false);
        else if (sym == "Gt") recvReq('t', false);
        else if (sym == "Gi") recvReq('i', false);
        else if (sym == "Gx") recvReq('u', true);
        else if (sym == "I") sendIq(false);
        else if (sym == "Id") sendIq(true);
        else if (sym == "Jr") recvIqResponse('r');
        else if (sym == "Je") recvIqResponse('e');
        else if (sym == "a=r") ack(HExact, true);
        else if (sym == "a-r") ack(HStale, true);
        else if (sym == "a+r") ack(HBeyond, true);
        else if (sym == "L") { if (connected) closed(); else { history += "(already down)"; } }
        else if (sym == "N") { Rc r; r.pol = PolN; reconnectScript(r); }
        else if (sym == "N2") { Rc r; r.pol = PolN; r.sasl2 = true; reconnectScript(r); }
        else if (sym == "F") { Rc r; r.pol = PolF; reconnectScript(r); }
        else if (sym == "F2") { Rc r; r.pol = PolF; r.sasl2 = true; reconnectScript(r); }
        else if (sym[0] == 'E' || sym[0] == 'R') {
            // E[2][h=|h-][d]  new session (resume refused, optionally with the server's handled count)
            // R[2](=|-|+)[r][d]  resumption accepted with h exact / one below / one beyond
            Rc r;
            size_t i = 1;
            r.pol = sym[0] == 'E' ? PolE : PolR;
            if (i < sym.size() && sym[i] == '2') { r.sasl2 = true; i++; }
            if (r.pol == PolE && i < sym.size() && sym[i] == 'h') { r.failedH = sym[i + 1] == '=' ? HExact : HStale; i += 2; }
            if (r.pol == PolR) { r.hm = sym[i] == '=' ? HExact : sym[i] == '-' ? HStale : HBeyond; i++; }
            if (i < sym.size() && sym[i] == 'r') { r.reent = true; i++; }
            if (i < sym.size() && sym[i] == 'd') { r.forceDown = true; i++; }
            if (i != sym.size()) { fprintf(stderr, "harness: bad symbol %s\n", sym.c_str()); exit(3); }
            reconnectScript(r);
        }
        else if (sym == "C") resetCache();
        else if (sym == "Cr") resetCache(true);
        else { fprintf(stderr, "harness: unknown symbol %s\n", sym.c_str()); exit(3); }
    }
};

// The counters are `unsigned int`; the Lean model uses unbounded naturals, so nothing here goes to the model driver.
// The real counters are moved next to 2^32 (private members reached through PrivAccess) and the property is judged
// across the wrap: XEP-0198 counts modulo 2^32.
static void wrapProbe()
{
    const unsigned int NEAR = 4294967294u;  // 2^32 - 2
    // inbound: h of <a/> must continue modulo 2^32
    {
        Env e(true);
        e.apply("E");
        e.sam().*get(TagLastIn()) = NEAR;
        e.recvOn = NEAR;
        long before = oraclePass();
        std::string seen;
        for (int i = 0; i < 4; i++) {
            e.recv(i % 2 ? 'p' : 'm');
            TestClient::received(e.c, docs->r.documentElement());   // the generic h oracle (checkH) judges every <a/> written
            seen += (e.ev.empty() ? std::string("?") : e.ev.back()) + " ";
            e.ev.clear();
        }
        stat("wrap_inbound_probed");
        sample("2^32 wrap, inbound counter of the real StreamAckManager set to 4294967294, then 4 x (stanza, <r/>): " + seen);
        if (seen != "a4294967295 a0 a1 a2 " || oraclePass() - before < 4) oracleFail("C09:wrap:inbound-h-not-modulo-2^32", seen); else oraclePass()++;
    }
    // outbound: three stanzas numbered 4294967295, 0, 1 (mod 2^32); the server acknowledges h = 0, i.e. the first two
    {
        Env e(true);
        e.apply("E");
        e.sam().*get(TagLastOut()) = NEAR;
        e.srvValid = false;  // the honest-server counter of the oracle is not modulo: switched off for this probe
        std::vector<int> ids;
        for (int i = 0; i < 3; i++) { ids.push_back((int)e.pk.size()); e.myLastOut = 0; e.send(true, false); }
        e.ev.clear();
        e.inAckOp = true; e.curH = 4294967295L;  // reports are judged below, not by the generic coverage rule
        TestClient::received(e.c, docs->ack(0).documentElement());
        e.inAckOp = false;
        std::string acked;
        for (auto &x : e.ev) acked += x + " ";
        e.ev.clear();
        stat("wrap_outbound_probed");
        sample("2^32 wrap, outbound counter set to 4294967294, 3 stanzas sent (numbers 4294967295, 0, 1), <a h='0'/> received: reports " + (acked.empty() ? std::string("none") : acked));
        std::string want = "P" + std::to_string(ids[0]) + "!ack P" + std::to_string(ids[1]) + "!ack ";
        if (acked != want) oracleFail("C09:wrap:outbound-numbers-across-2^32", "sent 3 stanzas from counter 4294967294, <a h='0'/> must confirm the first two; reports: " + acked);
        else oraclePass()++;
        // resumption with h = 0: the third one must be resent, after nothing else
        // connection lost, the server resumes with h = 0: only the third stanza may be written again
        e.closed();
        e.fs->up(); e.connected = true;
        TestClient::handleStart(e.c);
        e.lastReq = Env::None;
        e.inject(docs->featSm);
        e.ev.clear(); e.wirePkts.clear();
        e.inAckOp = true; e.curH = 4294967295L;
        e.inject(docs->resumed(0));
        e.inAckOp = false;
        std::vector<int> wantWire = acked == want ? std::vector<int> { ids[2] } : std::vector<int> {};
        std::string wire;
        for (int id : e.wirePkts) wire += "P" + std::to_string(id) + " ";
        sample("... connection lost, <resumed h='0'/>: written again " + (wire.empty() ? std::string("none") : wire));
        if (acked == want && e.wirePkts != wantWire) oracleFail("C09:wrap:outbound-numbers-across-2^32", "resend after the wrap: " + wire);
        e.ev.clear();
    }
}

static void runSeq(const std::vector<std::string> &syms, bool asSample = false)
{
    corr("reset", "ok");
    {
        Env env;
        for (auto &s : syms) env.apply(s);
        if (asSample) {
            std::string t = "symbols [";
            for (auto &s : syms) t += s + " ";
            sample(t + "] resolved ops and observations: " + env.trace);
        }
    }
    stat("sequences");
}

static long long enumerate(const std::vector<std::string> &alpha, int depth, const std::vector<std::string> &prefix = {})
{
    std::vector<size_t> idx(depth, 0);
    std::vector<std::string> cur(prefix.size() + depth);
    for (size_t i = 0; i < prefix.size(); i++) cur[i] = prefix[i];
    long long n = 0;
    for (;;) {
        for (int i = 0; i < depth; i++) cur[prefix.size() + i] = alpha[idx[i]];
        runSeq(cur);
        n++;
        int k = depth - 1;
        while (k >= 0 && ++idx[k] == alpha.size()) idx[k--] = 0;
        if (k < 0) break;
    }
    return n;
}

int main(int argc, char **argv)
{
    QCoreApplication app(argc, argv);
    Args a = parseArgs(argc, argv);
    Docs d;
    docs = &d;
    bool thorough = a.tier == "thorough";

    // corpus first: the witness of the (fixed) finding C09:h:counts-stanzas-received-without-sm and a few hand-picked histories
    runSeq({ "E", "N", "m", "R=" }, true);                // witness of the defect fixed by repo commit 6d4ec74: <resume h/> counted a stanza received on a session without SM
    runSeq({ "E", "I", "Jr", "q" }, true);                // a response to a tracked request is a stanza of the session: <a h=1/>
    runSeq({ "E", "I", "I", "Je", "L", "R=", "Jr", "q" });
    runSeq({ "E", "G", "s", "a-", "L", "R=" }, true);          // the client answers an unhandled IQ request by itself: numbered like any other stanza (seeded change C09_c1)
    runSeq({ "E2", "Gv", "s", "L", "R2-", "Gt", "a=" });       // initial presence after SASL2, manager replies
    runSeq({ "E", "s", "s", "L", "R-r", "s", "a=" }, true);   // witness of the defect fixed by 8fe1a13: a delivery report fired by <resumed/> sends a stanza (was: written before the resent ones, not numbered)
    runSeq({ "E", "s", "s", "s", "L", "Eh-", "a=" }, true);   // witness of the defect fixed by 29f1a4c: <failed h='2'/> was ignored, the two handled stanzas were transmitted again
    runSeq({ "E2", "s", "s", "L", "R2-", "s", "L", "E2h=", "a=" }, true);  // SASL2 inline <resume/>, Bind2 inline <enable/>
    runSeq({ "E", "s", "s", "a+r", "a=", "L", "R2=r" });
    runSeq({ "E", "s", "s", "s", "L", "Eh-r", "s", "a=" }, true);  // covered by <failed h/>: reported after the resend, their continuations send numbered stanzas
    runSeq({ "E", "s", "s", "Cr", "q", "s", "a=" });              // a continuation sending during resetCache (reported, not dropped)
    runSeq({ "E", "s", "s", "L", "Eh=", "Cr", "E" });
    runSeq({ "N2", "s", "E", "s", "L", "F2", "m", "L", "R=" });
    runSeq({ "E", "F", "p", "i", "q", "R-", "q" });
    runSeq({ "E", "s", "s", "s", "a-", "L", "s", "R-", "a=" }, true);
    runSeq({ "E", "s", "d", "s", "L", "E", "a-", "a=" });
    runSeq({ "s", "E", "s", "n", "a+", "s", "C", "a=" });
    runSeq({ "E", "s", "s", "R+", "s", "R=", "L", "a=", "m", "q" });

    const std::vector<std::string> core9 = { "s", "a=", "a-", "q", "m", "x", "L", "R-", "E" };
    const std::vector<std::string> core7 = { "s", "a-", "q", "m", "L", "R-", "E" };
    const std::vector<std::string> core11 = { "s", "I", "Jr", "a=", "a-", "q", "m", "x", "L", "R-", "E" };
    const std::vector<std::string> wide = { "s", "d", "n", "I", "Jr", "Je", "a=", "a-", "a+", "q", "m", "p", "i", "x", "L", "E", "R=", "R-", "R+", "N", "F", "C" };
    if (a.mode == "probe") {
        samplesLeft() = 100;
        for (const char *q : { "E s s a=r q", "E s s L R-r s a=", "E s s L R=r s a=", "E s s s L Eh- a=", "E s s L Eh= s", "E2 s s L R2- a=", "E s L E2 s L R2=r", "E2 s s L E2h- a=",
                               "N2 s E s L F2 m L R=", "E s s a+r a=", "E s I s L R-r", "E s s Cr q s a=", "E s s L Cr E a=" }) {
            std::vector<std::string> syms;
            std::string w;
            for (const char *c = q;; c++) { if (*c == ' ' || !*c) { if (!w.empty()) syms.push_back(w); w.clear(); if (!*c) break; } else w += *c; }
            runSeq(syms, true);
        }
        finish();
        return 0;
    }
    if (a.mode == "bench2") {  // small but complete alphabet mix, used for mutation experiments
        const std::vector<std::string> m = { "s", "I", "Jr", "a=r", "a-", "a+r", "q", "m", "x", "L", "R-r", "R2-", "Eh-r", "E2h-", "Cr", "E" };
        stat("exh_bench2", enumerate(m, 4));
        wrapProbe();
        finish();
        return 0;
    }
    if (a.mode == "bench") {
        stat("exh_core9", enumerate(core9, 4));
        finish();
        return 0;
    }
    // re-entrant delivery reports at both ack sites, <failed h/>; SASL2/Bind2 inline negotiation
    const std::vector<std::string> coreRe = { "s", "a=r", "a-r", "a+r", "q", "L", "R-r", "Eh-r", "Cr", "E" };
    // traffic the client sends by itself (replies to requests, initial presence after SASL2) between application sends, acks, losses, resumes
    const std::vector<std::string> coreAuto = { "s", "G", "Gv", "a-", "q", "L", "R-", "E", "E2" };
    const std::vector<std::string> coreS2 = { "s", "a-", "q", "m", "L", "E2", "R2-", "R2=r", "E2h-", "F2", "N2" };
    std::vector<std::string> wide31 = wide;
    for (auto x : { "a=r", "R-r", "Eh-", "Eh=", "E2", "R2-", "R2=", "N2", "F2", "Eh-r", "Cr", "G", "Gv", "Gt", "Gi" }) wide31.push_back(x);
    stat("exh_coreRe10_depth5", enumerate(coreRe, 5));
    stat("exh_coreAuto9_depth5", enumerate(coreAuto, 5));
    stat("exh_wide37_depth3", enumerate(wide31, 3));
    stat("exh_coreS2_11_depth4", enumerate(coreS2, 4));
    stat("exh_core11_depth5", enumerate(core11, 5));
    stat("exh_prefixEsd_core9_depth5", enumerate(core9, 5, { "E", "s", "d" }));
    if (thorough) {
        // kept under ~8M correspondence lines in total (the comparison holds all lines in memory)
        stat("exh_core7_depth6", enumerate(core7, 6));
        stat("exh_prefixEss_coreRe10_depth5", enumerate(coreRe, 5, { "E", "s", "s" }));
        stat("exh_prefixE2ss_coreS2_11_depth4", enumerate(coreS2, 4, { "E2", "s", "s" }));
    }

    // seeded random histories up to 60 symbols, including failed writes during every kind of operation
    std::vector<std::string> rnd = wide31;
    for (auto x : { "a-r", "a+r", "R=r", "R2=r", "R2-r", "R2+", "E2h-", "E2h=", "E2h-r", "Eh=r", "Er", "E2d", "R2-d", "R-rd", "Eh-rd", "G", "G", "Gv", "Gx" }) rnd.push_back(x);
    for (auto s : { "s", "s", "s", "a=", "a-", "m", "q", "nd", "qd", "Ed", "R-d", "R-", "E", "L", "I", "I", "Id", "Jr", "Jr", "Je" }) rnd.push_back(s);
    Rng rng(a.seed);
    int nrand = thorough ? 16000 : 4000;
    for (int i = 0; i < nrand; i++) {
        int len = 1 + rng.below(60);
        std::vector<std::string> syms;
        for (int j = 0; j < len; j++) syms.push_back(rnd[rng.below(rnd.size())]);
        runSeq(syms, i < 3 && len < 25);
    }
    stat("random_sequences", nrand);
    samplesLeft() += 2;
    wrapProbe();
    finish();
    return 0;
}
