// C16 harness: a real QXmppServer (domain example.org, table password checker whose replies complete when the
// harness says so, no TLS) listening on loopback inside this process; a VICTIM raw socket that logs in correctly
// (PLAIN + bind "v" + initial presence) and an ATTACKER raw socket that plays scripts over the model alphabet.
// One line per attacker element: what each peer received, what the attacker's QXmppIncomingClient emitted for
// routing (elementReceived), the server's clientConnected/clientDisconnected signals and the server-side jid().
// The oracle (property text, independent of the Lean model) is evaluated on the same observations.
#include "common.h"

#include "QXmppIncomingClient.h"
#include "QXmppPasswordChecker.h"
#include "QXmppSasl_p.h"
#include "QXmppServer.h"

#include <QCoreApplication>
#include <QCryptographicHash>
#include <QDomDocument>
#include <QElapsedTimer>
#include <QHostAddress>
#include <QPointer>
#include <QRegularExpression>
#include <QSslSocket>
#include <QTcpServer>
#include <QTcpSocket>

#include <sys/wait.h>
#include <linux/sockios.h>
#include <netinet/in.h>
#include <netinet/tcp.h>
#include <sys/socket.h>
#include <sys/ioctl.h>

#include <memory>
#include <set>
#include <sstream>

using namespace vh;

static const char *DOMAIN = "example.org";
static const QByteArray STALE_NONCE = "c3RhbGUgbm9uY2Ugb2YgYW4gZWFybGllciBzZXNzaW9u";   // nonce of an earlier, recorded session
static bool g_activity = false;

// ---------------------------------------------------------------------------------------------- tokens
// Op words cannot contain blanks, ':', ';', '+' or TAB: "~XX" stands for the byte XX (hex, UTF-8), "~LONG" for 300 times 'x'.
static QString dec(const QString &w)
{
    QByteArray out;
    const QByteArray in = w.toUtf8();
    for (int i = 0; i < in.size(); i++) {
        if (in[i] == '~' && in.mid(i + 1, 4) == "LONG") { out += QByteArray(300, 'x'); i += 4; }
        else if (in[i] == '~' && i + 2 < in.size() + 0 && isxdigit((unsigned char)in[i + 1]) && isxdigit((unsigned char)in[i + 2])) { out += char(in.mid(i + 1, 2).toInt(nullptr, 16)); i += 2; }
        else out += in[i];
    }
    return QString::fromUtf8(out);
}
// how addresses are printed in observations (the Lean driver prints the same): everything outside a small safe set as ~xx
static QString esc(const QString &v)
{
    QString out;
    for (unsigned char c : v.toUtf8()) {
        if (isalnum(c) || strchr("@./_%{}-", c)) out += QChar(c);
        else out += QString("~%1").arg(int(c), 2, 16, QChar('0'));
    }
    return out;
}
static QString xmlAttrEscape(QString v) { return v.replace("&", "&amp;").replace("<", "&lt;").replace("'", "&apos;").replace("\"", "&quot;"); }

// ---------------------------------------------------------------------------------------------- password checker
// Table checker.  The answer is computed when the request is made (as QXmppPasswordChecker's own implementation
// does) but the reply object finishes only when the harness delivers it: QXmppPasswordReply is an asynchronous
// API (finished() signal), the stock implementation finishes on the next event-loop turn (finishLater()).
class TableChecker : public QXmppPasswordChecker
{
public:
    QMap<QString, QString> table;
    QList<QPointer<QXmppPasswordReply>> pending;
    QList<bool> pendingIsPw;   // parallel to `pending`
    long long asked = 0;

    QXmppPasswordReply::Error getPassword(const QXmppPasswordRequest &request, QString &password) override
    {
        if (request.username() == u"tempuser") return QXmppPasswordReply::TemporaryError;
        if (table.contains(request.username())) {
            password = table.value(request.username());
            return QXmppPasswordReply::NoError;
        }
        return QXmppPasswordReply::AuthorizationError;
    }
    bool hasGetPassword() const override { return true; }

    QXmppPasswordReply *checkPassword(const QXmppPasswordRequest &request) override
    {
        auto *reply = new QXmppPasswordReply;
        QString secret;
        auto error = getPassword(request, secret);
        if (error == QXmppPasswordReply::NoError) {
            if (request.password() != secret) reply->setError(QXmppPasswordReply::AuthorizationError);
        } else {
            reply->setError(error);
        }
        pending << reply; pendingIsPw << true; asked++;
        return reply;
    }
    QXmppPasswordReply *getDigest(const QXmppPasswordRequest &request) override
    {
        auto *reply = new QXmppPasswordReply;
        QString secret;
        auto error = getPassword(request, secret);
        if (error == QXmppPasswordReply::NoError) {
            reply->setDigest(QCryptographicHash::hash((request.username() + u':' + request.domain() + u':' + secret).toUtf8(), QCryptographicHash::Md5));
        } else {
            reply->setError(error);
        }
        pending << reply; pendingIsPw << false; asked++;
        return reply;
    }
    void prune() { for (int i = pending.size() - 1; i >= 0; i--) if (!pending[i]) { pending.removeAt(i); pendingIsPw.removeAt(i); } }
    bool deliver(int i)   // raw index into `pending` (after prune())
    {
        if (i < 0 || i >= pending.size()) return false;
        auto r = pending.takeAt(i);
        pendingIsPw.removeAt(i);
        if (r) r->finish();
        return true;
    }
};

// The documented way to write a checker: only getPassword()/hasGetPassword(); checkPassword() and getDigest() are the
// library's own (src/server/QXmppPasswordChecker.cpp), replies finish on the next event-loop turn (finishLater()).
class GetPasswordOnlyChecker : public QXmppPasswordChecker
{
public:
    QMap<QString, QString> table;
    QXmppPasswordReply::Error getPassword(const QXmppPasswordRequest &request, QString &password) override
    {
        if (request.username() == u"tempuser") return QXmppPasswordReply::TemporaryError;
        if (table.contains(request.username())) {
            password = table.value(request.username());
            return QXmppPasswordReply::NoError;
        }
        return QXmppPasswordReply::AuthorizationError;
    }
    bool hasGetPassword() const override { return true; }
};

// ---------------------------------------------------------------------------------------------- canonicalisation
struct Canon {
    QByteArray lastNonce = "no-challenge-seen";   // nonce of the last DIGEST-MD5 challenge any peer of this fixture received
    QStringList known { "v", "r", "r2", "x@example.org" };
    QMap<QString, QString> gen;
    QString res(const QString &r)
    {
        if (known.contains(r)) return r;
        auto it = gen.find(r);
        if (it == gen.end()) it = gen.insert(r, "G" + QString::number(gen.size() + 1));
        return it.value();
    }
    QString jid(const QString &j)
    {
        int p = j.indexOf('/');
        if (p < 0) return esc(j);
        return esc(j.left(p)) + "/" + esc(res(j.mid(p + 1)));
    }
};

static QString childCond(const QDomElement &e, const QString &skip = "text")
{
    for (auto c = e.firstChildElement(); !c.isNull(); c = c.nextSiblingElement())
        if (c.tagName() != skip) return c.tagName();
    return "-";
}

static QString canonElement(const QDomElement &e, Canon &cn)
{
    const QString tag = e.tagName(), ns = e.namespaceURI();
    auto b64 = [&](const QDomElement &x) { return QByteArray::fromBase64(x.text().toLatin1()); };
    auto chal = [&](const QByteArray &d) -> QString {
        if (d.isEmpty()) return "-";
        if (d.startsWith("rspauth=")) return "r";
        if (d.contains("nonce=")) { cn.lastNonce = QXmppSaslDigestMd5::parseMessage(d).value("nonce"); return "n"; }
        return "?";
    };
    if (tag == "features") {
        QStringList l;
        for (auto c = e.firstChildElement(); !c.isNull(); c = c.nextSiblingElement()) {
            if (c.tagName() == "mechanisms") l << "m";
            else if (c.tagName() == "authentication") l << (c.firstChildElement("inline").firstChildElement("bind").isNull() ? "a" : "a+");
            else if (c.tagName() == "bind") l << "b";
            else if (c.tagName() == "session") l << "s";
            else l << c.tagName();
        }
        return "feat(" + l.join(",") + ")";
    }
    if (tag == "error" && ns == "http://etherx.jabber.org/streams") return "err(" + childCond(e) + ")";
    if (ns == "urn:ietf:params:xml:ns:xmpp-sasl") {
        if (tag == "challenge") return "chal1(" + chal(b64(e)) + ")";
        if (tag == "success") return "succ1";
        if (tag == "failure") return "fail1(" + childCond(e) + ")";
    }
    if (ns == "urn:xmpp:sasl:2") {
        if (tag == "challenge") return "chal2(" + chal(b64(e)) + ")";
        if (tag == "success")
            return "succ2(" + cn.jid(e.firstChildElement("authorization-identifier").text()) + (e.firstChildElement("bound").isNull() ? "" : ",bound") + ")";
        if (tag == "failure") return "fail2(" + childCond(e) + ")";
    }
    if (tag == "iq") {
        QString payload = "-";
        auto c = e.firstChildElement();
        if (e.attribute("type") == "error") payload = "err=" + childCond(e.firstChildElement("error"));
        else if (!c.isNull() && c.tagName() == "bind") payload = "bind=" + cn.jid(c.firstChildElement("jid").text());
        else if (!c.isNull()) payload = c.tagName();
        return "iq(" + e.attribute("type") + "," + e.attribute("id") + "," + cn.jid(e.attribute("from")) + "," + cn.jid(e.attribute("to")) + "," + payload + ")";
    }
    if (tag == "message") return "message(" + cn.jid(e.attribute("from")) + "," + cn.jid(e.attribute("to")) + ")";
    if (tag == "presence") return "presence(" + e.attribute("type") + "," + cn.jid(e.attribute("from")) + "," + cn.jid(e.attribute("to")) + ")";
    return "?" + tag;
}

// ---------------------------------------------------------------------------------------------- raw peer
struct Peer {
    QTcpSocket sock;
    QByteArray buf;
    Peer()
    {
        QObject::connect(&sock, &QTcpSocket::readyRead, [this]() { buf += sock.readAll(); g_activity = true; });
        QObject::connect(&sock, &QTcpSocket::disconnected, []() { g_activity = true; });
    }
    bool open() const { return sock.state() == QAbstractSocket::ConnectedState; }
    void send(const QByteArray &d)
    {
        if (!open()) return;
        sock.write(d);
        sock.flush();
    }
    // canonical list of what arrived since the last call
    QStringList take(Canon &cn)
    {
        QStringList out;
        QString s = QString::fromUtf8(buf);
        buf.clear();
        static const QRegularExpression hdr(R"(^(<\?xml[^>]*\?>)?\s*<stream:stream[^>]*>)");
        // several stream headers may arrive in one chunk only at its start (server answers one element at a time)
        auto m = hdr.match(s);
        if (m.hasMatch()) { out << "hdr"; s = s.mid(m.capturedLength()); }
        bool end = false;
        if (s.endsWith("</stream:stream>")) { end = true; s.chop(16); }
        if (!s.isEmpty()) {
            QDomDocument doc;
            QString wrapped = "<stream:stream xmlns='jabber:client' xmlns:stream='http://etherx.jabber.org/streams'>" + s + "</stream:stream>";
            if (!doc.setContent(wrapped, true)) out << "?unparsed";
            else
                for (auto e = doc.documentElement().firstChildElement(); !e.isNull(); e = e.nextSiblingElement()) out << canonElement(e, cn);
        }
        if (end) out << "end";
        return out;
    }
};

static QString joinOrDash(const QStringList &l) { return l.isEmpty() ? QString("-") : l.join(";"); }

// ---------------------------------------------------------------------------------------------- client elements
static QByteArray b64(const QByteArray &d) { return d.toBase64(); }

static QByteArray digestResponse(const QString &claimed, const QString &secretUser, const QString &secretPass, bool qopOk, const QByteArray &NONCE)
{
    const QByteArray secret = QCryptographicHash::hash((secretUser + ":" + DOMAIN + ":" + secretPass).toUtf8(), QCryptographicHash::Md5);
    const QByteArray cnonce = "cn", nc = "00000001", uri = QByteArray("xmpp/") + DOMAIN;
    const QByteArray A1 = secret + ':' + NONCE + ':' + cnonce;
    const QByteArray A2 = QByteArray("AUTHENTICATE:") + uri;
    const QByteArray HA1 = QCryptographicHash::hash(A1, QCryptographicHash::Md5).toHex();
    const QByteArray HA2 = QCryptographicHash::hash(A2, QCryptographicHash::Md5).toHex();
    const QByteArray KD = HA1 + ':' + NONCE + ':' + nc + ':' + cnonce + ":auth:" + HA2;
    const QByteArray resp = QCryptographicHash::hash(KD, QCryptographicHash::Md5).toHex();
    return "charset=utf-8,cnonce=cn,digest-uri=\"" + uri + "\",nc=" + nc + ",nonce=\"" + NONCE + "\",qop=" + (qopOk ? "auth" : "auth-int") +
        ",realm=" + DOMAIN + ",response=" + resp + ",username=\"" + QString(claimed).replace("\\", "\\\\").replace("\"", "\\\"").toUtf8() + "\"";
}

// payload words:  -            empty
//                 c:user:pass  PLAIN credentials  \0user\0pass
//                 m            junk bytes without NUL
//                 x            text that is not base64
//                 d:claimed:suser:spass:q   DIGEST-MD5 response naming `claimed`, computed with the secret of (suser, spass) over the
//                                           nonce of the last challenge received; q = a (qop=auth) | b; spass may be empty
//                 r:claimed:suser:spass     the same, but as recorded in an earlier session: computed over (and carrying) a stale nonce
static QByteArray payloadText(const QString &w, const QByteArray &nonce)
{
    if (w == "-") return "";
    if (w == "m") return b64("junk");
    if (w == "x") return "!!!";
    auto f = w.split(':');
    for (int i = 1; i < f.size(); i++) f[i] = dec(f[i]);
    if (f[0] == "c" && f.size() == 3) return b64(QByteArray(1, '\0') + f[1].toUtf8() + QByteArray(1, '\0') + f[2].toUtf8());
    if (f[0] == "z" && f.size() == 4) return b64(f[1].toUtf8() + QByteArray(1, '\0') + f[2].toUtf8() + QByteArray(1, '\0') + f[3].toUtf8());   // authzid\0authcid\0password
    if (f[0] == "a" && f.size() == 4) return b64(digestResponse(f[1], f[2], f[3], true, nonce) + ",authzid=\"victim@example.org\"");
    if (f[0] == "d" && f.size() == 5) return b64(digestResponse(f[1], f[2], f[3], f[4] == "a", nonce));
    if (f[0] == "r" && f.size() == 4) return b64(digestResponse(f[1], f[2], f[3], true, STALE_NONCE));
    return "";
}
// "-" = attribute absent, "\"\"" = present and empty, anything else = that value
static QString attr(const char *name, const QString &v)
{
    if (v == "-") return QString();
    return QString(" ") + name + "='" + (v == "\"\"" ? QString() : xmlAttrEscape(dec(v))) + "'";
}

static QByteArray opXml(const QStringList &w, const QByteArray &nonce = QByteArray())
{
    const QString k = w[0];
    if (k == "open")
        return QString("<?xml version='1.0'?><stream:stream to='%1' xmlns='jabber:client' xmlns:stream='http://etherx.jabber.org/streams' version='1.0'>").arg(w[1]).toUtf8();
    if (k == "auth1") return "<auth xmlns='urn:ietf:params:xml:ns:xmpp-sasl' mechanism='" + w[1].toUtf8() + "'>" + payloadText(w[2], nonce) + "</auth>";
    if (k == "auth2") {
        QByteArray bind;
        if (w[3] != "-") { QString tag = w[3].mid(2); bind = "<bind xmlns='urn:xmpp:bind:0'>" + (tag.isEmpty() ? QByteArray() : "<tag>" + tag.toUtf8() + "</tag>") + "</bind>"; }
        return "<authenticate xmlns='urn:xmpp:sasl:2' mechanism='" + w[1].toUtf8() + "'><initial-response>" + payloadText(w[2], nonce) + "</initial-response>" + bind + "</authenticate>";
    }
    if (k == "resp1") return "<response xmlns='urn:ietf:params:xml:ns:xmpp-sasl'>" + payloadText(w[1], nonce) + "</response>";
    if (k == "resp2") return "<response xmlns='urn:xmpp:sasl:2'>" + payloadText(w[1], nonce) + "</response>";
    if (k == "abort1") return "<abort xmlns='urn:ietf:params:xml:ns:xmpp-sasl'/>";
    if (k == "abort2") return "<abort xmlns='urn:xmpp:sasl:2'/>";
    if (k == "bind")
        return "<iq type='set' id='b1'><bind xmlns='urn:ietf:params:xml:ns:xmpp-bind'>" + (w[1] == "-" ? QByteArray() : "<resource>" + xmlAttrEscape(dec(w[1])).toUtf8() + "</resource>") + "</bind></iq>";
    if (k == "session") return "<iq type='set' id='s1'><session xmlns='urn:ietf:params:xml:ns:xmpp-session'/></iq>";
    if (k == "msg") return ("<message" + attr("from", w[1]) + attr("to", w[2]) + "><body>hi</body></message>").toUtf8();
    if (k == "pres") return ("<presence" + attr("type", w[1]) + attr("from", w[2]) + attr("to", w[3]) + "/>").toUtf8();
    if (k == "iq") return ("<iq id='q1'" + attr("type", w[1]) + attr("from", w[2]) + attr("to", w[3]) + "><query xmlns='jabber:iq:version'/></iq>").toUtf8();
    if (k == "close") return "</stream:stream>";
    return "";
}

// ---------------------------------------------------------------------------------------------- fixture
// Quiescence: spin the event loop until nothing is in flight any more.  "In flight" is read off the sockets themselves
// (all loopback TCP sockets of this process: ours and the server's): bytes Qt has not written yet, bytes the kernel has
// not delivered/acknowledged yet (SIOCOUTQ), bytes delivered but not yet read by the application (FIONREAD).
static QList<QPointer<QAbstractSocket>> &allSockets() { static QList<QPointer<QAbstractSocket>> l; return l; }

static bool inFlight()
{
    for (auto &p : allSockets()) {
        if (!p || p->state() == QAbstractSocket::UnconnectedState) continue;
        if (p->bytesToWrite() > 0) return true;
        const int fd = int(p->socketDescriptor());
        if (fd < 0) continue;
        int n = 0;
        if (ioctl(fd, FIONREAD, &n) == 0 && n > 0) return true;
        n = 0;
        if (ioctl(fd, SIOCOUTQ, &n) == 0 && n > 0) return true;
    }
    return false;
}

static void settle()
{
    QElapsedTimer t; t.start();
    int idle = 0;
    // transport only: immediate ACKs, so that "unacknowledged" (SIOCOUTQ) means "not delivered yet" and never "ACK delayed"
    for (auto &p : allSockets()) {
        const int one = 1;
        if (p && p->socketDescriptor() >= 0) setsockopt(int(p->socketDescriptor()), IPPROTO_TCP, TCP_QUICKACK, &one, sizeof one);
    }
    while (idle < 3 && t.elapsed() < 500) {
        g_activity = false;
        QCoreApplication::processEvents(QEventLoop::AllEvents);
        QCoreApplication::sendPostedEvents(nullptr, QEvent::DeferredDelete);   // (held back for incoming clients, see HoldDeletes)
        if (g_activity || inFlight()) idle = 0; else idle++;
    }
    if (idle < 3) {
        vh::stat("settle_timeouts");
        if (getenv("C16_DEBUG_SETTLE"))
            for (auto &p : allSockets()) {
                if (!p) continue;
                int a = -1, b = -1; const int fd = int(p->socketDescriptor());
                if (fd >= 0) { ioctl(fd, FIONREAD, &a); ioctl(fd, SIOCOUTQ, &b); }
                fprintf(stderr, "settle timeout: sock state=%d toWrite=%lld fionread=%d outq=%d ssl=%d\n", int(p->state()), (long long)p->bytesToWrite(), a, b, qobject_cast<QSslSocket *>(p.data()) != nullptr);
            }
    }
}

// A deleted QXmppIncomingClient that is still referenced from the server's routing tables is a use-after-free in the
// real process.  To observe that event without executing it, the harness keeps incoming clients alive until the end
// of the script (their DeferredDelete events are held back): a write to such a client is then a harmless sendData() on a
// closed socket, visible through the client's own "sent" log signal.  The real crash is shown in a child process.
struct HoldDeletes : QObject {
    bool eventFilter(QObject *o, QEvent *e) override
    {
        return e->type() == QEvent::DeferredDelete && qobject_cast<QXmppIncomingClient *>(o) != nullptr;
    }
};

struct Att {   // one attacker connection
    std::unique_ptr<Peer> peer;
    QXmppIncomingClient *conn = nullptr;
    QByteArray nonce = "no-challenge-seen";   // nonce of the last DIGEST-MD5 challenge this connection received
};

struct Fixture {
    TableChecker checker;              // own checkPassword/getDigest, replies finish on `deliver`
    GetPasswordOnlyChecker stockChecker;   // library defaults, replies finish on the next event-loop turn
    const bool stock;
    HoldDeletes hold;
    std::unique_ptr<QXmppServer> server;
    quint16 port = 0;
    std::unique_ptr<Peer> victim;
    Att att[3];                        // [1], [2]
    QSet<QObject *> closedClients;     // incoming clients whose disconnected() has been emitted
    bool deadSend = false;             // the server wrote to a client that is gone (stale routing entry)
    int acting = 1;
    QStringList routed, signals_, authEvents;
    Canon cn;
    bool ok = false;

    explicit Fixture(bool stockFlavour = false) : stock(stockFlavour)
    {
        // the last account is what a registration-open / pass-through checker would accept
        checker.table = { { "victim", "vpw" }, { "mallory", "mpw" }, { "eve", "epw" }, { "victim@example.org/x", "xpw" },
                          // legal but awkward account names: format place markers, quotes, blanks, non-ASCII, very long
                          { "ops.%2", "opw" }, { "%1", "p1" }, { "100%", "p2" }, { "a%%b", "p3" }, { "{0}", "p4" }, { "back\\slash", "p5" },
                          { "q'uo\"te", "p6" }, { "sp ace", "p7" }, { QString::fromUtf8("j\xc3\xbcrgen"), "p8" }, { QString(300, 'x'), "p9" } };
        stockChecker.table = checker.table;
        if (!getenv("C16_REAL_DELETES")) qApp->installEventFilter(&hold);
        server = std::make_unique<QXmppServer>();
        server->setDomain(DOMAIN);
        server->setPasswordChecker(stock ? static_cast<QXmppPasswordChecker *>(&stockChecker) : &checker);
        if (!server->listenForClients(QHostAddress::LocalHost, 0)) return;
        auto l = server->findChildren<QTcpServer *>();
        if (l.isEmpty()) return;
        port = l.first()->serverPort();
        QObject::connect(server.get(), &QXmppServer::clientConnected, [this](const QString &jid) { signals_ << "conn(" + cn.jid(jid) + ")"; g_activity = true; });
        QObject::connect(server.get(), &QXmppServer::clientDisconnected, [this](const QString &jid) { signals_ << "disc(" + cn.jid(jid) + ")"; g_activity = true; });
        ok = loginVictim();
    }
    ~Fixture()
    {
        for (auto &a : att) a.peer.reset();
        victim.reset();
        qApp->removeEventFilter(&hold);
        server.reset();
        settle();
        allSockets().clear();
    }
    // returns the server-side object of the new connection
    QXmppIncomingClient *connectPeer(std::unique_ptr<Peer> &p)
    {
        auto before = server->findChildren<QXmppIncomingClient *>();
        p = std::make_unique<Peer>();
        p->sock.connectToHost(QHostAddress::LocalHost, port);
        if (!p->sock.waitForConnected(2000)) { p.reset(); return nullptr; }
        p->sock.setSocketOption(QAbstractSocket::LowDelayOption, 1);
        allSockets() << &p->sock;
        settle();
        // transport only: no Nagle delay on the server side of the loopback connection either
        for (auto *s : server->findChildren<QSslSocket *>()) {
            s->setSocketOption(QAbstractSocket::LowDelayOption, 1);
            if (!allSockets().contains(s)) allSockets() << s;
        }
        QXmppIncomingClient *c = nullptr;
        for (auto *x : server->findChildren<QXmppIncomingClient *>()) if (!before.contains(x)) c = x;
        if (!c) return nullptr;
        QObject::connect(c, &QXmppIncomingClient::disconnected, [this, c]() {
            closedClients << c;
            // the real client is deleted, with the checker replies it still waits for, before any of them can finish; here it is
            // kept alive (HoldDeletes), so its outstanding replies are silenced instead
            for (auto *r : c->findChildren<QXmppPasswordReply *>()) r->blockSignals(true);
        });
        QObject::connect(c, &QXmppLoggable::logMessage, [this, c](QXmppLogger::MessageType t, const QString &) {
            // (a closed connection that still processes elements of its last read "writes" its own answers: harmless)
            if (t == QXmppLogger::SentMessage && closedClients.contains(c) && c != att[acting].conn) deadSend = true;
        });
        return c;
    }
    bool loginVictim()
    {
        auto *vc = connectPeer(victim);
        if (!vc) return false;
        const QList<QStringList> ops = { { "open", DOMAIN }, { "auth1", "PLAIN", "c:victim:vpw" }, { "deliver" }, { "bind", "v" }, { "pres", "-", "-", "-" } };
        QStringList got;
        for (auto &w : ops) {
            if (w[0] == "deliver") deliver(vc, 0); else victim->send(opXml(w));
            settle();
            got += victim->take(cn);
        }
        signals_.clear();
        return got.join(";") == "hdr;feat(m,a+);succ1;iq(result,b1,,,bind=victim@example.org/v)";
    }
    bool connectAttacker(int k)
    {
        if (att[k].conn) return true;
        auto *c = connectPeer(att[k].peer);
        if (!c) return false;
        att[k].conn = c;
        QObject::connect(c, &QXmppIncomingClient::elementReceived, [this, k](const QDomElement &e) {
            if (k == acting) routed << e.tagName() + "(" + cn.jid(e.attribute("from")) + "," + cn.jid(e.attribute("to")) + ")";
        });
        // "incoming-client.auth.success" is emitted right after d->jid has been set by a SASL success
        QObject::connect(c, &QXmppLoggable::updateCounter, [this, c, k](const QString &counter, qint64) {
            if (counter == u"incoming-client.auth.success" && k == acting) authEvents << "auth(" + cn.jid(c->jid()) + ")";
        });
        return true;
    }
    // outstanding replies of the own-flavour checker that belong to connection `c` (reply -> SASL server object -> client)
    QList<int> pendingOf(QXmppIncomingClient *c)
    {
        QList<int> idx;
        checker.prune();
        if (closedClients.contains(c)) return idx;   // the real client is deleted together with its replies
        for (int i = 0; i < checker.pending.size(); i++) {
            // whichever object of the connection owns the reply (today: its SASL server object)
            for (QObject *o = checker.pending[i]->parent(); o; o = o->parent())
                if (o == c) { idx << i; break; }
        }
        return idx;
    }
    bool deliver(QXmppIncomingClient *c, int i)
    {
        auto idx = pendingOf(c);
        if (i < 0 || i >= idx.size()) return false;
        return checker.deliver(idx[i]);
    }
    bool serverSideOpen(int k) const { return att[k].conn && !closedClients.contains(att[k].conn); }
    QString jidOf(int k) { return serverSideOpen(k) ? cn.jid(att[k].conn->jid()) : QString(); }
};

struct Obs {
    QStringList a, b, v, routed, sig, auth;
    QString jid1, jid2;
    bool aOpen, bOpen, vOpen;
    bool ub = false;
    static QString dash(const QString &s) { return s.isEmpty() ? QString("-") : s; }
    std::string str() const
    {
        if (ub) return "ub";
        return ("A=" + joinOrDash(a) + " B=" + joinOrDash(b) + " V=" + joinOrDash(v) + " R=" + joinOrDash(routed) + " S=" + joinOrDash(sig) +
                " U=" + joinOrDash(auth) + " J=" + dash(jid1) + " K=" + dash(jid2) +
                " a=" + (aOpen ? "1" : "0") + " b=" + (bOpen ? "1" : "0") + " v=" + (vOpen ? "1" : "0")).toStdString();
    }
};

// `k` = acting attacker connection (1 or 2), `w` = the element without the connection prefix
static Obs applyOp(Fixture &f, int k, const QStringList &w)
{
    f.acting = k;
    Att &me = f.att[k];
    if (w[0] == "deliver") f.deliver(me.conn, w.value(1).toInt());
    else {
        // "elem + elem + ..." = several elements in ONE write
        QByteArray data;
        QStringList cur;
        for (auto &x : w + QStringList { "+" }) {
            if (x == "+") { if (!cur.isEmpty()) data += opXml(cur, me.nonce); cur.clear(); }
            else cur << x;
        }
        me.peer->send(data);
    }
    settle();
    Obs o;
    for (int j = 1; j <= 2; j++) {
        if (!f.att[j].peer) continue;
        f.cn.lastNonce.clear();
        (j == 1 ? o.a : o.b) = f.att[j].peer->take(f.cn);
        if (!f.cn.lastNonce.isEmpty()) f.att[j].nonce = f.cn.lastNonce;
    }
    o.v = f.victim->take(f.cn);
    o.routed = f.routed; f.routed.clear();
    o.sig = f.signals_; f.signals_.clear();
    o.auth = f.authEvents; f.authEvents.clear();
    o.jid1 = f.jidOf(1); o.jid2 = f.jidOf(2);
    // a connection that has not been opened yet is an idle open connection for the model
    o.aOpen = !f.att[1].peer || f.att[1].peer->open();
    o.bOpen = !f.att[2].peer || f.att[2].peer->open();
    o.vOpen = f.victim->open();
    o.ub = f.deadSend && !getenv("C16_RUN_UB_PATHS");
    return o;
}

// ---------------------------------------------------------------------------------------------- running scripts
typedef std::vector<std::string> Script;

static QStringList wordsOf(const std::string &op) { return QString::fromStdString(op).split(' ', Qt::SkipEmptyParts); }
// every op is "<connection> <element...>"; the single-connection alphabets omit the "1 "
static std::string norm(const std::string &op) { return op.size() > 1 && isdigit((unsigned char)op[0]) && op[1] == ' ' ? op : "1 " + op; }
static std::string joinScript(const Script &s, size_t upto)
{
    std::string r;
    for (size_t i = 0; i <= upto && i < s.size(); i++) { if (i) r += ";"; r += norm(s[i]); }
    return r;
}

static std::map<std::string, int> &failPrinted() { static std::map<std::string, int> m; return m; }
static void fail(const std::string &key, const std::string &replay)
{
    stat("fail_" + key);
    if (failPrinted()[key]++ < 25) oracleFail(key, replay);
}

// What one attacker connection has proven so far, from its own inputs and the checker's table only (never from the model).
struct Oracle {
    QSet<QString> approved;   // users for which a checker-approved credential was presented on this connection
    QSet<QString> exchange;   // ... within the SASL exchange in progress (since the last <auth/> / <authenticate/>)
    QSet<QString> identity;   // ... within the exchange that the last <success/> concluded
    bool batchAfterClose = false;   // the server went on processing elements of a read after it had closed the stream
    bool sawSuccess = false;  // the server has told the attacker that authentication succeeded
    bool overlap = false;     // an element was sent while a checker reply for this connection was still outstanding
    QMap<QString, QString> table;

    void noteInput(const QStringList &w)
    {
        QString pl;
        if (w[0] == "auth1" || w[0] == "auth2") pl = w[2];
        else if (w[0] == "resp1" || w[0] == "resp2") pl = w[1];
        auto f = pl.split(':');
        for (int i = 1; i < f.size(); i++) f[i] = dec(f[i]);
        if (w[0] == "auth1" || w[0] == "auth2" || w[0] == "open") exchange.clear();   // a new exchange starts from nothing
        QString u;
        if (f[0] == "c" && f.size() == 3 && table.contains(f[1]) && table[f[1]] == f[2]) u = f[1];
        if (f[0] == "z" && f.size() == 4 && table.contains(f[2]) && table[f[2]] == f[3]) u = f[2];   // authzid (f[1]) proves nothing
        if (f[0] == "d" && f.size() == 5 && f[1] == f[2] && table.contains(f[2]) && table[f[2]] == f[3]) u = f[1];
        if (f[0] == "a" && f.size() == 4 && f[1] == f[2] && table.contains(f[2]) && table[f[2]] == f[3]) u = f[1];
        // "r:" (a recorded response over a stale nonce) proves nothing
        if (!u.isNull()) { approved << esc(u); exchange << esc(u); }   // (as addresses are printed in the observations)
    }
    static QString bare(const QString &j) { int p = j.indexOf('/'); return p < 0 ? j : j.left(p); }
    // the address is literally user@domain or user@domain/resource for an approved user
    static bool belongsTo(const QSet<QString> &users, const QString &jid)
    {
        for (auto &u : users) {
            const QString b = u + "@" + DOMAIN;
            if (jid == b || jid.startsWith(b + "/")) return true;
        }
        return false;
    }
    bool jidApproved(const QString &jid) const
    {
        for (auto &u : approved) {
            const QString b = u + "@" + DOMAIN;
            if (jid == b || jid.startsWith(b + "/")) return true;
        }
        return false;
    }
    // ... or is what jidToBareJid makes of an approved name that contains '/'
    bool slashName(const QString &jid) const
    {
        for (auto &u : approved) if (u.contains('/') && bare(jid) == bare(u + "@" + DOMAIN)) return true;
        return false;
    }
    // the identity must come from the credentials of the very exchange that ended in <success/>
    bool identityOk(const QString &jid) const { return belongsTo(identity, jid); }
    std::string unapprovedKey(const QString &jid) const
    {
        if (jidApproved(jid)) return "C16:identity-not-approved-for-this-exchange";
        if (jid.startsWith("/")) return "C16:preauth-bind";
        if (slashName(jid)) return "C16:username-with-slash";
        return overlap ? "C16:reply-confusion" : "C16:auth-not-approved";
    }
    static QString fromOf(const QString &e)
    {
        int a = e.indexOf('('), c1 = e.indexOf(',', a);
        if (e.startsWith("message(")) return e.mid(a + 1, c1 - a - 1);
        QStringList f = e.mid(a + 1, e.size() - a - 2).split(',');
        return e.startsWith("presence(") ? f.value(1) : f.value(2);
    }
    // a stanza of the acting connection that the server wrote to somebody's socket (not a server-generated answer)
    static bool isDeliveredStanza(const QString &e)
    {
        if (e.startsWith("message(") || e.startsWith("presence(")) return true;
        return e.startsWith("iq(") && e.section(',', 1, 1) == "q1" && (!e.contains(",err=") || e.endsWith(",err=-)"));
    }
    // `mine` = what the acting connection received, `jid` = its server-side jid, `others` = what everybody else received.
    // returns the key of the first violated clause, or "" when the property holds for this step
    std::string judge(const QStringList &w, const Obs &o, const QStringList &mine, const QString &jid, const QStringList &others, bool victimWasOpen)
    {
        const bool before = sawSuccess;   // authenticated before this element was processed?
        bool succNow = false;
        for (auto &e : mine) if (e.startsWith("succ")) succNow = true;
        if (succNow || !o.auth.isEmpty()) { sawSuccess = true; identity = exchange; }
        // (1) whoever the server takes the connection for must have been approved by the checker, in the exchange that succeeded
        if (!jid.isEmpty() && !identityOk(jid)) return unapprovedKey(jid);
        for (auto &e : o.auth) if (!identityOk(e.mid(5, e.size() - 6))) return unapprovedKey(e.mid(5, e.size() - 6));
        // (2) nothing bound, routed or answered before authentication
        const bool authedNow = before || succNow;   // SASL2 may bind within the step that reports success
        for (auto &e : o.sig) if (e.startsWith("conn(") && !authedNow) return "C16:preauth-bind";
        for (auto &e : mine) {
            if (e.startsWith("iq(result,b1") && !before) return "C16:preauth-bind";
            if (e.startsWith("iq(result,s1") && !before) return "C16:preauth-session-answered";
            if ((e.startsWith("iq(") || e.startsWith("message(") || e.startsWith("presence(")) && !authedNow) return "C16:preauth-stanza-answered";
        }
        bool delivered = false;
        for (auto &e : others) if (isDeliveredStanza(e)) delivered = true;
        if ((!o.routed.isEmpty() || delivered) && !authedNow) return "C16:preauth-stanza-routed";   // (several elements in one write may authenticate first)
        // (3) whatever reaches anybody from this socket carries the sender's own, approved address
        for (auto &e : others + mine) {
            if (!isDeliveredStanza(e)) continue;
            const QString from = fromOf(e);
            if (!jid.isEmpty() && from != jid && from != bare(jid)) return "C16:spoofed-from";
            if (!identityOk(from)) return slashName(jid) ? "C16:username-with-slash" : jidApproved(from) ? "C16:identity-not-approved-for-this-exchange" : "C16:spoofed-from";
        }
        for (auto &e : o.routed) {   // tag(from,to): what the connection handed to routing
            const QString from = e.mid(e.indexOf('(') + 1, e.indexOf(',') - e.indexOf('(') - 1);
            if (!identityOk(from)) return slashName(jid) ? "C16:username-with-slash" : jidApproved(from) ? "C16:identity-not-approved-for-this-exchange" : "C16:spoofed-from";
        }
        // (4) the victim is only ever disconnected by somebody approved as the victim (never, here)
        for (auto &e : o.v) if (e.startsWith("err(") || e == "end") return "C16:victim-disconnected";
        if (victimWasOpen && !o.vOpen) return "C16:victim-disconnected";
        return "";
    }
};

// inputs on which onPasswordReply()/onSasl2Authenticated() would dereference a null saslServer / an unset sasl2AuthRequest:
// never executed in-process
struct UbGuard {
    bool live = false, stuck = false, saslNull = true, v2 = false, s2req = false, digestStep2 = false;
    bool plainStep0 = false;   // a PLAIN object has answered an empty <auth/> with an empty challenge and still waits for credentials
    bool stock = false;        // replies finish within the step (getPassword-only checker)
    QMap<QString, QString> table;
    static bool knownMech(const QString &m) { return m == "PLAIN" || m == "DIGEST-MD5" || m == "ANONYMOUS"; }
    bool wouldBeUb(const QStringList &w, Fixture &f, QXmppIncomingClient *c, bool open)
    {
        if (!open) return false;
        if (w[0] == "deliver") {
            auto idx = f.pendingOf(c);
            int i = w.value(1).toInt();
            if (i < 0 || i >= idx.size()) return false;
            if (saslNull) return true;
            return f.checker.pendingIsPw[idx[i]] && f.checker.pending[idx[i]]->error() == QXmppPasswordReply::NoError && v2 && !s2req;
        }
        // (since repo commit e17a168 a SASL2 <response/> without a SASL2 request in progress is refused, and <abort/> drops the
        // SASL object with its replies: the two conditions above are a safety net that no script reaches any more)
        return false;
    }
    void sent(const QStringList &w, bool open)
    {
        if (!open || w[0] == "deliver") return;
        if (stuck) return;
        if (w[0] == "open") { live = true; saslNull = true; digestStep2 = false; plainStep0 = false; return; }
        if (!live) { stuck = true; return; }
        if (w[0] == "auth1" && knownMech(w[1])) { saslNull = false; v2 = false; s2req = false; digestStep2 = false; plainStep0 = false; }
        if (w[0] == "auth2" && knownMech(w[1])) { saslNull = false; v2 = true; s2req = true; digestStep2 = false; plainStep0 = false; }
        if (w[0] == "abort2") { s2req = false; saslNull = true; }
        if (w[0] == "resp1" || w[0] == "resp2") { digestStep2 = false; plainStep0 = false; }
    }
    void received(const QStringList &mine)
    {
        for (auto &e : mine) {
            if (e.startsWith("succ2")) s2req = false;
            if (e == "chal1(r)" || e == "chal2(r)") digestStep2 = true;
            if (e == "chal1(-)" || e == "chal2(-)") plainStep0 = true;
        }
    }
};

// returns the index of the op after which no attacker connection of the script's alphabet can act any more (or script size)
static size_t runScript(const Script &sc0, bool stock = false, bool twoConn = false)
{
    Script sc;
    for (auto &op : sc0) sc.push_back(norm(op));
    corr(stock ? "reset stock" : "reset", "ok");
    stat(stock ? "scripts_getPassword_only_checker" : "scripts_own_checker");
    Fixture f(stock);
    if (!f.ok) { fprintf(stderr, "fixture failed\n"); exit(3); }
    Oracle orc[3];
    UbGuard g[3];
    for (int k = 1; k <= 2; k++) { orc[k].table = f.checker.table; g[k].stock = stock; g[k].table = f.checker.table; }
    size_t deadAt = sc.size();
    for (size_t i = 0; i < sc.size(); i++) {
        QStringList w = wordsOf(sc[i]);
        const int k = w.takeFirst().toInt();
        if (k < 1 || k > 2 || !f.connectAttacker(k)) { fprintf(stderr, "bad op %s\n", sc[i].c_str()); exit(3); }
        if (k == 2) stat("ops_second_connection");
        Att &me = f.att[k];
        const bool open = me.peer->open();
        // "e1 + e2 + ..." = several elements in one write
        QList<QStringList> elems;
        { QStringList cur; for (auto &x : w + QStringList { "+" }) { if (x == "+") { if (!cur.isEmpty()) elems << cur; cur.clear(); } else cur << x; } }
        if (elems.size() > 1) stat("ops_several_elements_in_one_write");
        bool ubPredicted = false;
        for (auto &el : elems) if (g[k].wouldBeUb(el, f, me.conn, open)) ubPredicted = true;
        if (ubPredicted && !getenv("C16_RUN_UB_PATHS")) {   // (the env switch is for manual probing only)
            corr(sc[i], "ub");
            stat("ub_paths_not_executed");
            if (deadAt == sc.size()) deadAt = i;
            break;
        }
        const bool vOpen = f.victim->open();
        if (open && w[0] != "deliver" && !f.pendingOf(me.conn).isEmpty()) orc[k].overlap = true;
        for (auto &el : elems) { g[k].sent(el, open); if (open) orc[k].noteInput(el); }
        const bool srvOpenBefore = f.serverSideOpen(k);
        Obs o = applyOp(f, k, w);
        // nothing can be written to a socket the server has closed in an earlier read: for the model this op is its first element only
        // (the model lets `sameRead` elements follow any close; in reality only a close within the same read)
        std::string opLine = sc[i];
        if (!open && elems.size() > 1) opLine = std::to_string(k) + " " + elems[0].join(" ").toStdString();
        const QStringList &mine = k == 1 ? o.a : o.b;
        g[k].received(mine);
        corr(opLine, o.str());
        stat("ops");
        for (auto &el : elems) stat("op_" + el[0].toStdString());
        // a connection is bound AFTER it was reported disconnected (under another jid: not the conflict hand-over):
        // the server went on with the rest of the read after it had closed the stream
        if (srvOpenBefore && !f.serverSideOpen(k) && elems.size() > 1) {
            bool bound = false;
            QString gone;
            for (auto &e : o.sig) {
                if (e.startsWith("disc(") && gone.isNull()) gone = e.mid(5, e.size() - 6);
                if (e.startsWith("conn(") && !gone.isNull() && e.mid(5, e.size() - 6) != gone) bound = true;
            }
            if (bound) {
                orc[1].batchAfterClose = orc[2].batchAfterClose = true;
                stat("processed_after_disconnect");
                fail("C16:processing-after-disconnect", joinScript(sc, i));
            }
        }
        if (o.ub) {
            // observed on the real server: it wrote to a connection that is gone, through a routing entry that outlived it
            stat("stale_entry_used");
            fail(orc[1].batchAfterClose ? "C16:processing-after-disconnect" : "C16:stale-routing-entry", joinScript(sc, i));
            if (deadAt == sc.size()) deadAt = i;
            break;
        }
        for (auto &e : mine) { int p = e.indexOf('('); stat("recv_" + (p < 0 ? e : e.left(p)).toStdString()); }
        if (!o.v.isEmpty()) stat("victim_received");
        if (!o.routed.isEmpty()) stat("routed");
        std::string key = orc[k].judge(w, o, mine, k == 1 ? o.jid1 : o.jid2, (k == 1 ? o.b : o.a) + o.v, vOpen);
        if (key.empty()) oraclePass()++;
        else fail(key, joinScript(sc, i));
        const bool allGone = !o.aOpen && (!twoConn || (f.att[2].peer && !o.bOpen));
        if (allGone && deadAt == sc.size()) deadAt = i;
    }
    stat("scripts");
    return deadAt;
}

// exhaustive: every word of length `depth` over `alpha` after `prefix`; a word whose connection died after position k
// stands for all words sharing those k+1 symbols (the rest would be sent to a closed socket).
static void enumerate(const Script &prefix, const std::vector<std::string> &alpha, int depth, bool stock = false, bool twoConn = false)
{
    std::vector<int> idx(depth, 0);
    const int n = (int)alpha.size();
    while (true) {
        Script sc = prefix;
        for (int d = 0; d < depth; d++) sc.push_back(alpha[idx[d]]);
        size_t dead = runScript(sc, stock, twoConn);
        int bump = depth - 1;
        if (dead < sc.size()) {
            int k = (int)dead - (int)prefix.size();   // position inside the enumerated part
            if (k < 0) k = 0;
            if (k < depth - 1) { bump = k; stat("pruned_dead_prefixes"); }
        }
        int d = bump;
        for (int j = d + 1; j < depth; j++) idx[j] = 0;
        while (d >= 0 && ++idx[d] == n) { idx[d] = 0; d--; }
        if (d < 0) break;
    }
}

static std::string pick(Rng &r, std::initializer_list<const char *> l) { return *(l.begin() + r.below((uint32_t)l.size())); }

static std::string randomOp(Rng &r)
{
    auto user = [&]() { return pick(r, { "mallory", "mallory", "eve", "victim", "tempuser", "nobody" }); };
    auto creds = [&]() {
        std::string u = user();
        std::string p = u == "mallory" ? (r.below(4) ? "mpw" : "bad") : u == "eve" ? (r.below(4) ? "epw" : "bad") : "bad";   // never the victim's password
        return "c:" + u + ":" + p;
    };
    auto dresp = [&]() {
        std::string claimed = user(), su = r.below(3) ? claimed : pick(r, { "mallory", "eve" });
        std::string sp = su == "mallory" ? (r.below(4) ? "mpw" : "bad") : su == "eve" ? (r.below(4) ? "epw" : "bad") : "bad";
        if (r.below(4) == 0) sp = "";   // computed from the empty password
        if (r.below(8) == 0) return "r:" + claimed + ":" + claimed + ":" + (claimed == "victim" ? "vpw" : claimed == "mallory" ? "mpw" : claimed == "eve" ? "epw" : "x");   // a recorded response
        return "d:" + claimed + ":" + su + ":" + sp + ":" + (r.below(8) ? "a" : "b");
    };
    auto payload = [&]() -> std::string {
        switch (r.below(10)) {
        case 0: return "-"; case 1: return "m"; case 2: return "x"; case 3: case 4: return dresp();
        case 5: return pick(r, { "c:victim@example.org/x:xpw", "z:victim@example.org:mallory:mpw", "c:ops.%2:opw", "c:sp~20ace:p7", "c:%1:p1" });
        default: return creds();
        }
    };
    auto mech = [&]() { return pick(r, { "PLAIN", "PLAIN", "DIGEST-MD5", "DIGEST-MD5", "ANONYMOUS", "X-FOO" }); };
    auto from = [&]() { return pick(r, { "-", "-", "-", "mallory@example.org/r", "mallory@example.org", "eve@example.org/r2", "victim@example.org/v", "victim@example.org", "/r", "x", "example.org", "Mallory@example.org/r", "victim@example.org/x@example.org",
                                "\"\"", "\"\"", "~20", "ops.%2@example.org/r", "ops.example.org@example.org" }); };
    auto to = [&]() { return pick(r, { "-", "victim@example.org/v", "victim@example.org/v", "victim@example.org", "example.org", "mallory@example.org/r", "mallory@example.org", "nobody@example.org", "sub.example.org", "other.net", "/r", "\"\"" }); };
    switch (r.below(20)) {
    case 0: return r.below(5) ? "open example.org" : "open evil.org";
    case 1: return "auth1 " + mech() + " " + payload();
    case 2: return "auth2 " + mech() + " " + payload() + " " + pick(r, { "-", "b:", "b:tag" });
    case 3: return "resp1 " + payload();
    case 4: return "resp2 " + payload();
    case 5: return r.coin() ? "abort1" : "abort2";
    case 6: case 7: case 8: return "deliver " + std::to_string(r.below(4) ? 0 : 1);
    case 9: case 10: return std::string("bind ") + pick(r, { "r", "r", "r2", "-", "v" });
    case 11: return "session";
    case 12: case 13: case 14: return "msg " + from() + " " + to();
    case 15: case 16: return std::string("pres ") + pick(r, { "-", "subscribe", "subscribed", "unavailable" }) + " " + from() + " " + to();
    case 17: case 18: return std::string("iq ") + pick(r, { "get", "set", "result", "error" }) + " " + from() + " " + to();
    default: return r.below(4) ? "session" : "close";
    }
}

static Script randomScript(Rng &r, int maxLen)
{
    Script sc;
    int shape = r.below(10);
    if (shape < 9) sc.push_back("open example.org");   // a few scripts talk before any stream header
    if (shape < 6) {   // mostly valid: a correct login first
        std::string u = r.coin() ? "mallory" : "eve", p = u == "mallory" ? "mpw" : "epw";
        switch (r.below(5)) {
        case 0: sc.insert(sc.end(), { "auth1 PLAIN c:" + u + ":" + p, "deliver 0" }); break;
        case 1: sc.insert(sc.end(), { "auth1 PLAIN -", "resp1 c:" + u + ":" + p, "deliver 0" }); break;
        case 2: sc.insert(sc.end(), { "auth1 DIGEST-MD5 -", "resp1 d:" + u + ":" + u + ":" + p + ":a", "deliver 0", "resp1 -" }); break;
        case 3: sc.insert(sc.end(), { "auth2 PLAIN c:" + u + ":" + p + " " + (r.coin() ? "b:" : "-"), "deliver 0" }); break;
        default: sc.insert(sc.end(), { "auth2 DIGEST-MD5 - " + std::string(r.coin() ? "b:tag" : "-"), "resp2 d:" + u + ":" + u + ":" + p + ":a", "deliver 0", "resp2 -" }); break;
        }
        if (r.below(3)) sc.push_back("open example.org");
        if (r.below(4)) sc.push_back(std::string("bind ") + (r.below(3) ? "r" : "-"));
    }
    int len = 1 + r.below(maxLen);
    for (int i = 0; i < len; i++) sc.push_back(randomOp(r));
    return sc;
}

// the stock checker (replies finish on the next event-loop turn) with two <auth/> elements in one TCP write:
// which user does the server announce when it reports success?
static void stockCheckerPipelined()
{
    Fixture f(true);
    if (!f.ok || !f.connectAttacker(1)) return;
    applyOp(f, 1, { "open", DOMAIN });
    f.att[1].peer->send(opXml({ "auth1", "PLAIN", "c:mallory:mpw" }) + opXml({ "auth1", "PLAIN", "c:victim:bad" }));
    settle();
    const QStringList got = f.att[1].peer->take(f.cn);
    const std::string what = ("stock checker, '<auth mallory:mpw/><auth victim:bad/>' in one write: attacker receives " + joinOrDash(got) +
                              ", server-side identity at success = " + joinOrDash(f.authEvents)).toStdString();
    sample(what);
    bool wrong = false;
    for (auto &e : f.authEvents) if (e != "auth(mallory@example.org)") wrong = true;
    if (wrong) fail("C16:reply-confusion", "stock-checker-pipelined: open example.org;[auth1 PLAIN c:mallory:mpw + auth1 PLAIN c:victim:bad in one write]");
    else oraclePass()++;
}

// Runs one script in a child process with real object deletion and without the UB guard: does the server survive?
// (MALLOC_PERTURB_ fills freed and fresh heap memory with garbage, as the heap of a long-running server is.)
static void crashProbe(const char *exe, const char *key, const std::string &script)
{
    const std::string cmd = std::string("MALLOC_PERTURB_=165 C16_REAL_DELETES=1 C16_RUN_UB_PATHS=1 QT_QPA_PLATFORM=offscreen '") + exe +
        "' --replay '" + script + "' > /dev/null 2>&1";
    const int st = system(cmd.c_str());
    const bool crashed = (WIFSIGNALED(st)) || (WIFEXITED(st) && WEXITSTATUS(st) >= 128);
    sample(std::string("child process, real deletes, no guard: ") + script + (crashed ? "  ->  server process killed by a signal" : "  ->  survived"));
    stat(std::string("crash_probe_") + (crashed ? "crashed" : "survived"));
    if (crashed) fail(key, "server crashes (child process): " + script);
    else oraclePass()++;
}

int main(int argc, char **argv)
{
    QCoreApplication app(argc, argv);
    Args a = parseArgs(argc, argv);
    if (!a.replay.empty()) {
        Script sc;
        for (auto &op : QString::fromStdString(a.replay).split(';')) if (!op.trimmed().isEmpty()) sc.push_back(op.trimmed().toStdString());
        runScript(sc, a.mode == "stock", true);
        finish();
        return 0;
    }
    const bool thorough = a.tier == "thorough";
    QElapsedTimer timer; timer.start();

    // corpus: witnesses of the four former findings (fixed by repo commits 73b9a89 and e590a14) first, then the plain good paths
    const std::vector<Script> corpus = {
        { "open example.org", "msg - victim@example.org/v" },
        { "open example.org", "bind r", "msg - victim@example.org/v", "iq get - victim@example.org/v" },
        { "open example.org", "session" },
        { "open example.org", "auth1 PLAIN c:mallory:mpw", "auth1 PLAIN c:victim:bad", "deliver 0", "bind v", "msg - eve@example.org", "deliver 0" },
        { "open example.org", "auth1 PLAIN c:mallory:mpw", "auth1 DIGEST-MD5 -", "resp1 d:victim:mallory:mpw:a", "deliver 0", "bind r", "msg - victim@example.org/v" },
        { "open example.org", "auth1 PLAIN c:mallory:mpw", "open example.org", "deliver 0" },
        { "open example.org", "auth2 PLAIN c:mallory:mpw b:", "abort2", "deliver 0" },
        { "open example.org", "auth1 DIGEST-MD5 -", "resp2 d:mallory:mallory:mpw:a", "deliver 0", "resp2 -" },
        { "open example.org", "auth1 PLAIN c:mallory:mpw", "deliver 0", "open example.org", "bind r", "session", "msg - victim@example.org/v",
          "msg victim@example.org/v victim@example.org/v", "msg mallory@example.org victim@example.org", "pres subscribe - victim@example.org",
          "iq get - example.org", "iq get - nobody@example.org", "iq result - nobody@example.org", "msg - mallory@example.org", "close" },
        { "open example.org", "auth1 DIGEST-MD5 -", "resp1 d:mallory:mallory:mpw:a", "deliver 0", "resp1 -", "bind -", "msg - mallory@example.org", "bind r", "msg - mallory@example.org" },
        { "open example.org", "auth2 DIGEST-MD5 - b:tag", "resp2 d:eve:eve:epw:a", "deliver 0", "resp2 -", "msg - victim@example.org" },
        { "msg - victim@example.org/v", "open example.org", "msg - victim@example.org/v" },
        { "open evil.org", "msg - victim@example.org/v" },
    };
    // DIGEST-MD5 as a rejected / unknown user with the empty password, and a recorded response replayed over a fresh nonce
    const std::vector<Script> corpus2 = {
        { "open example.org", "auth1 DIGEST-MD5 -", "resp1 d:nobody:nobody::a", "deliver 0", "resp1 -", "bind r", "msg - victim@example.org/v" },
        { "open example.org", "auth2 DIGEST-MD5 - b:", "resp2 d:nobody:nobody::a", "deliver 0", "resp2 -", "msg - victim@example.org/v" },
        { "open example.org", "auth1 DIGEST-MD5 -", "resp1 d:tempuser:tempuser::a", "deliver 0", "resp1 -", "bind r" },
        { "open example.org", "auth1 DIGEST-MD5 -", "resp1 d:victim:victim::a", "deliver 0", "resp1 -", "bind v" },
        { "open example.org", "auth1 DIGEST-MD5 -", "resp1 r:victim:victim:vpw", "deliver 0", "resp1 -", "bind v", "msg - eve@example.org" },
        { "open example.org", "auth2 DIGEST-MD5 - -", "resp2 r:victim:victim:vpw", "deliver 0", "resp2 -", "bind v", "msg - eve@example.org" },
        { "open example.org", "auth1 DIGEST-MD5 -", "resp1 r:mallory:mallory:mpw", "deliver 0" },
        { "open example.org", "auth1 DIGEST-MD5 -", "resp1 d:mallory:mallory:mpw:a", "deliver 0", "resp1 -", "bind r", "msg - victim@example.org/v" },
    };
    for (int stock = 0; stock < 2; stock++) {
        for (auto &sc : corpus) runScript(sc, stock);
        for (auto &sc : corpus2) runScript(sc, stock);
    }
    stat("corpus_scripts", (long long)(2 * (corpus.size() + corpus2.size())));
    stockCheckerPipelined();
    // names, authorization identities, several connections of one user, routing entries that outlive their connection
    const std::vector<Script> corpus3 = {
        { "open example.org", "auth1 PLAIN c:victim@example.org/x:xpw", "deliver 0", "msg victim@example.org eve@example.org", "bind v", "msg - eve@example.org" },
        { "open example.org", "auth1 PLAIN z:victim@example.org:mallory:mpw", "deliver 0", "bind r", "msg - victim@example.org/v", "msg victim@example.org victim@example.org/v" },
        { "open example.org", "auth1 DIGEST-MD5 -", "resp1 a:mallory:mallory:mpw", "deliver 0", "resp1 -", "bind r", "msg - victim@example.org/v" },
        { "open example.org", "auth1 PLAIN c:mallory:mpw", "deliver 0", "bind r", "2 open example.org", "2 auth1 PLAIN c:mallory:mpw", "2 deliver 0", "2 bind r",
          "msg - victim@example.org/v", "2 msg - victim@example.org/v", "2 msg - mallory@example.org/r" },
        { "open example.org", "auth1 PLAIN c:mallory:mpw", "deliver 0", "bind r", "2 open example.org", "2 auth1 PLAIN c:mallory:mpw", "2 deliver 0", "2 bind r2",
          "msg - mallory@example.org", "2 msg mallory@example.org/r victim@example.org/v", "2 msg Mallory@example.org/r2 victim@example.org/v", "2 msg - Victim@example.org/v",
          "2 msg mallory@example.org victim@example.org/v", "iq get - mallory@example.org/r2", "2 close", "msg - mallory@example.org/r2" },
        { "open example.org", "auth1 PLAIN c:mallory:mpw", "deliver 0", "bind r", "bind r2", "close",
          "2 open example.org", "2 auth1 PLAIN c:eve:epw", "2 deliver 0", "2 msg - mallory@example.org/r2", "2 msg - mallory@example.org/r" },
        { "open example.org", "auth1 PLAIN c:mallory:mpw", "deliver 0", "bind r", "bind r2", "close",
          "2 open example.org", "2 auth1 PLAIN c:mallory:mpw", "2 deliver 0", "2 bind r" },
    };
    // elements after the one on which the server closed the stream, in the same write; overlapping exchanges
    const std::vector<Script> corpus4 = {
        { "open example.org", "auth1 PLAIN c:mallory:mpw", "deliver 0", "auth1 X-FOO - + bind r + msg - victim@example.org/v",
          "2 open example.org", "2 auth1 PLAIN c:eve:epw", "2 deliver 0", "2 msg - mallory@example.org/r" },
        { "open example.org", "auth1 DIGEST-MD5 -", "resp1 d:mallory:mallory:bad:a", "deliver 0",
          "resp1 d:victim:mallory:mpw:a + resp1 - + bind r + msg - victim@example.org/v" },
        { "open example.org", "auth1 PLAIN c:mallory:mpw", "auth1 PLAIN c:victim:bad", "deliver 0", "deliver 0", "bind v", "msg - eve@example.org" },
        { "open example.org", "auth2 PLAIN c:mallory:mpw b:", "auth2 PLAIN c:victim:bad b:", "deliver 0", "deliver 0", "msg - eve@example.org" },
        { "open example.org", "auth1 DIGEST-MD5 -", "resp1 d:mallory:mallory:mpw:a", "auth1 DIGEST-MD5 -", "resp1 d:victim:victim:bad:a", "deliver 0", "deliver 0", "resp1 -", "bind v" },
        { "open example.org", "auth1 PLAIN c:mallory:mpw + bind r + msg - victim@example.org/v", "deliver 0", "bind r", "msg - victim@example.org/v + msg - victim@example.org + close" },
    };
    for (int stock = 0; stock < 2; stock++) {
        for (auto &sc : corpus3) runScript(sc, stock, true);
        for (auto &sc : corpus4) runScript(sc, stock, true);
    }
    crashProbe(argv[0], "C16:stale-routing-entry",
               "1 open example.org;1 auth1 PLAIN c:mallory:mpw;1 deliver 0;1 bind r;1 bind r2;1 close;2 open example.org;2 auth1 PLAIN c:eve:epw;2 deliver 0;2 msg - mallory@example.org/r");
    crashProbe(argv[0], "C16:processing-after-disconnect",
               "1 open example.org;1 auth1 PLAIN c:mallory:mpw;1 deliver 0;1 auth1 X-FOO - + bind r;2 open example.org;2 auth1 PLAIN c:eve:epw;2 deliver 0;2 msg - mallory@example.org/r");
    crashProbe(argv[0], "C16:sasl2-request-unset",
               "1 open example.org;1 auth1 DIGEST-MD5 -;1 resp2 d:mallory:mallory:mpw:a;1 deliver 0;1 resp2 -");

    const std::vector<std::string> full = {
        "open example.org", "open evil.org",
        "auth1 PLAIN c:mallory:mpw", "auth1 PLAIN c:victim:bad", "auth1 PLAIN -", "auth1 DIGEST-MD5 -", "auth1 ANONYMOUS -", "auth1 X-FOO -",
        "auth2 PLAIN c:mallory:mpw b:", "auth2 DIGEST-MD5 - -",
        "resp1 c:mallory:mpw", "resp1 d:mallory:mallory:mpw:a", "resp1 d:victim:mallory:mpw:a", "resp1 -", "resp2 -", "abort2",
        "deliver 0", "bind r", "session",
        "msg - victim@example.org/v", "msg victim@example.org/v victim@example.org/v", "iq get - example.org", "pres subscribe - victim@example.org",
        "close",
    };
    const std::vector<std::string> compact = {
        "open example.org", "auth1 PLAIN c:mallory:mpw", "auth1 PLAIN c:victim:bad", "auth1 DIGEST-MD5 -", "auth2 PLAIN c:mallory:mpw b:",
        "resp1 d:victim:mallory:mpw:a", "resp1 -", "deliver 0", "bind r", "msg - victim@example.org/v", "msg victim@example.org/v victim@example.org/v",
    };
    // before any stream header
    enumerate({}, full, 2);
    // after a stream header
    const int depthFull = thorough ? 4 : 3, depthCompact = thorough ? 5 : 4;
    for (int d = 1; d <= depthFull; d++) enumerate({ "open example.org" }, full, d);
    enumerate({ "open example.org" }, compact, depthCompact);
    // after a correct login (since repo commit 73b9a89 everything else ends at the first stanza)
    const int depthAuthed = thorough ? 3 : 2;
    enumerate({ "open example.org", "auth1 PLAIN c:mallory:mpw", "deliver 0" }, full, depthAuthed);
    enumerate({ "open example.org", "auth2 PLAIN c:mallory:mpw b:", "deliver 0" }, compact, depthAuthed + 1);
    stat("exhaustive_depth_after_login_full_alphabet", depthAuthed);
    // the same with a checker that implements only getPassword() (library checkPassword/getDigest, replies on the next loop turn)
    const int depthStock = thorough ? 3 : 2;
    for (int d = 1; d <= depthStock; d++) enumerate({ "open example.org" }, full, d, true);
    enumerate({ "open example.org", "auth1 PLAIN c:mallory:mpw" }, full, depthStock, true);
    stat("exhaustive_depth_getPassword_only_checker", depthStock);
    // DIGEST-MD5 exchanges: right / wrong / empty password for known, unknown and temporarily failing users, somebody else's
    // secret, recorded responses over a stale nonce -- both checker flavours, SASL and SASL2
    for (int v = 1; v <= 2; v++) {
        const std::string r = v == 1 ? "resp1 " : "resp2 ";
        const std::vector<std::string> digestAlpha = {
            r + "d:mallory:mallory:mpw:a", r + "d:mallory:mallory:bad:a", r + "d:mallory:mallory::a", r + "d:nobody:nobody::a",
            r + "d:nobody:nobody:bad:a", r + "d:tempuser:tempuser::a", r + "d:victim:victim::a", r + "d:victim:mallory:mpw:a",
            r + "r:victim:victim:vpw", r + "r:mallory:mallory:mpw", r + "-", "deliver 0", "bind r", "msg - victim@example.org/v",
            // several elements in one write: a response naming the victim but keyed with the attacker's own secret, the final
            // empty response, a bind and a message
            r + "d:victim:mallory:mpw:a + " + r + "- + bind r + msg - victim@example.org/v",
        };
        const int depthDigest = (thorough ? 4 : 3) - (v - 1);
        for (int stock = 0; stock < 2; stock++)
            enumerate({ "open example.org", v == 1 ? "auth1 DIGEST-MD5 -" : "auth2 DIGEST-MD5 - b:" }, digestAlpha, depthDigest, stock);
        stat("alphabet_digest", (long long)digestAlpha.size());
    }
    stat("exhaustive_depth_digest_alphabet", thorough ? 4 : 3);
    // names with '/' and '@', authorization identities, from/to in another case
    const std::vector<std::string> nameAlpha = {
        "auth1 PLAIN c:victim@example.org/x:xpw", "auth1 PLAIN z:victim@example.org:mallory:mpw", "auth2 PLAIN z:victim@example.org/v:mallory:mpw b:",
        "deliver 0", "bind r", "bind v", "msg victim@example.org victim@example.org/v", "msg - victim@example.org/v",
        "msg Mallory@example.org/r victim@example.org/v", "msg - Victim@example.org/v", "pres subscribe - victim@example.org",
        "msg victim@example.org/x@example.org eve@example.org",
    };
    for (int stock = 0; stock < 2; stock++) enumerate({ "open example.org" }, nameAlpha, thorough ? 4 : 3, stock);
    stat("alphabet_names", (long long)nameAlpha.size());
    // two connections, logged in as the same user: binds (same / different resource, conflict), rebinds, stanzas to each
    // other's full and bare jid, one of them leaving or becoming somebody else
    const std::vector<std::string> twoAlpha = {
        "1 bind r", "2 bind r", "1 bind r2", "2 bind r2", "1 msg - mallory@example.org/r", "2 msg - mallory@example.org/r", "1 msg - mallory@example.org",
        "2 msg mallory@example.org/r victim@example.org/v", "1 close", "2 close", "2 auth1 PLAIN c:eve:epw", "2 deliver 0", "1 iq get - mallory@example.org/r2",
        "2 msg - victim@example.org/v", "1 auth1 X-FOO - + bind r", "2 resp1 - + bind r2 + msg - mallory@example.org/r",
    };
    // legal but awkward account names (format place markers, quotes, blanks, non-ASCII, very long): log in with PLAIN and with
    // DIGEST-MD5, SASL and SASL2, bind, send with `from` absent / own full / own bare; the address must be the literal name
    {
        const std::vector<std::pair<std::string, std::string>> odd = {
            { "ops.%2", "opw" }, { "%1", "p1" }, { "100%", "p2" }, { "a%%b", "p3" }, { "{0}", "p4" }, { "back~5cslash", "p5" },
            { "q~27uo~22te", "p6" }, { "sp~20ace", "p7" }, { "j~c3~bcrgen", "p8" }, { "~LONG", "p9" } };
        for (int stock = 0; stock < 2; stock++)
            for (auto &acc : odd) {
                const std::string u = acc.first, pw = acc.second, own = u + "@example.org";
                const Script tail = { "bind r", "msg - victim@example.org/v", "msg " + own + "/r victim@example.org/v", "msg " + own + " victim@example.org/v",
                                      "pres subscribe - victim@example.org", "iq get - victim@example.org/v", "msg ops.example.org@example.org victim@example.org/v",
                                      "2 open example.org", "2 auth1 PLAIN c:eve:epw", "2 deliver 0", "2 bind r", "2 msg - " + own + "/r", "2 msg - " + own };
                std::vector<Script> heads = {
                    { "open example.org", "auth1 PLAIN c:" + u + ":" + pw, "deliver 0" },
                    { "open example.org", "auth2 PLAIN c:" + u + ":" + pw + " b:", "deliver 0", "msg - victim@example.org/v" },
                    { "open example.org", "auth1 DIGEST-MD5 -", "resp1 d:" + u + ":" + u + ":" + pw + ":a", "deliver 0", "resp1 -" },
                    { "open example.org", "auth1 PLAIN c:" + u + ":bad", "deliver 0" },
                };
                for (auto &h : heads) { Script sc = h; sc.insert(sc.end(), tail.begin(), tail.end()); runScript(sc, stock, true); }
            }
        stat("awkward_account_names", (long long)odd.size());
    }
    // `from` / `to` absent, present but empty, white space, own bare / full jid, somebody else's -- for message, presence and iq
    {
        std::vector<std::string> fromToAlpha;
        for (std::string kind : { "msg", "pres -", "pres subscribe", "iq get", "iq result" })
            for (std::string from : { "-", "\"\"", "~20", "mallory@example.org", "mallory@example.org/r", "victim@example.org/v" })
                for (std::string to : { "victim@example.org/v", "victim@example.org", "\"\"", "-" })
                    fromToAlpha.push_back(kind + " " + from + " " + to);
        for (int stock = 0; stock < 2; stock++)
            enumerate({ "open example.org", "auth1 PLAIN c:mallory:mpw", "deliver 0", "bind r" }, fromToAlpha, thorough && !stock ? 2 : 1, stock);
        stat("alphabet_from_to", (long long)fromToAlpha.size());
    }
    // overlapping SASL exchanges with a deferred checker reply: a second <auth/> (PLAIN, DIGEST-MD5, SASL2) between the first
    // one and its reply, replies delivered late and out of order; and several elements in one write after a failure
    const std::vector<std::string> overlapAlpha = {
        "auth1 PLAIN c:mallory:mpw", "auth1 PLAIN c:victim:bad", "auth2 PLAIN c:mallory:mpw b:", "auth2 PLAIN c:victim:bad -",
        "auth1 DIGEST-MD5 -", "auth2 DIGEST-MD5 - b:", "resp1 d:mallory:mallory:mpw:a", "resp1 d:victim:victim:bad:a", "resp2 d:victim:mallory:mpw:a",
        "resp1 -", "deliver 0", "deliver 1", "bind v", "msg - eve@example.org",
        "auth1 X-FOO - + bind v + msg - victim@example.org/v", "auth1 PLAIN c:victim:bad + bind v + msg - eve@example.org",
    };
    enumerate({ "open example.org" }, overlapAlpha, thorough ? 4 : 3, false);
    enumerate({ "open example.org", "auth1 PLAIN c:mallory:mpw", "deliver 0" }, overlapAlpha, thorough ? 3 : 2, false);
    enumerate({ "open example.org" }, overlapAlpha, thorough ? 3 : 2, true);
    stat("alphabet_overlap", (long long)overlapAlpha.size());
    const Script twoLogin = { "1 open example.org", "1 auth1 PLAIN c:mallory:mpw", "1 deliver 0", "2 open example.org", "2 auth1 PLAIN c:mallory:mpw", "2 deliver 0" };
    enumerate(twoLogin, twoAlpha, thorough ? 4 : 3, false, true);
    enumerate(twoLogin, twoAlpha, thorough ? 3 : 2, true, true);
    stat("alphabet_two_connections", (long long)twoAlpha.size());
    stat("exhaustive_depth_two_connections", thorough ? 4 : 3);
    stat("exhaustive_depth_full_alphabet", depthFull); stat("alphabet_full", (long long)full.size());
    stat("exhaustive_depth_compact_alphabet", depthCompact); stat("alphabet_compact", (long long)compact.size());

    Rng rng(a.seed);
    const int nrand = thorough ? 60000 : 6000;
    for (int i = 0; i < nrand; i++) {
        Script sc = randomScript(rng, 20);
        if (i < 4) sample(joinScript(sc, sc.size()));
        if (i % 4 >= 2) for (auto &op : sc) if (rng.below(5) < 2) op = "2 " + op;   // half of the scripts interleave two connections
        runScript(sc, i % 2, true);
    }
    stat("random_scripts", nrand);
    stat("elapsed_ms", timer.elapsed());
    finish();
    return 0;
}
